import warnings, io, contextlib, sys, os, tempfile, threading, pickle
warnings.filterwarnings("ignore")
import numpy as np
sys.path.insert(0, "/repo")
from black_it.calibrator import Calibrator
from black_it.samplers.halton import HaltonSampler
from black_it.samplers.random_uniform import RandomUniformSampler
from black_it.samplers.best_batch import BestBatchSampler
from black_it.samplers.xgboost import XGBoostSampler
from black_it.schedulers.rl.rl_scheduler import RLScheduler
from black_it.schedulers.rl.agents.epsilon_greedy import MABEpsilonGreedy
from black_it.schedulers.rl.envs.mab import MABCalibrationEnv
from black_it.loss_functions.minkowski import MinkowskiLoss
from black_it.loss_functions.gsl_div import GslDivLoss
from black_it.search_space import SearchSpace
from black_it.plot import plot_results

def model(theta, N, seed):
    rng = np.random.default_rng(seed)
    return theta[0] + rng.normal(size=(N,1))
real = np.zeros((5,1))
quiet = lambda: contextlib.redirect_stdout(io.StringIO())

class LogAgent(MABEpsilonGreedy):
    def __init__(s,*a,**k): super().__init__(*a,**k); s.log=[]
    def policy(s,o): a=super().policy(o); s.log.append(("policy",a)); return a
    def learn(s,st,a,r,ns): s.log.append(("learn",a,r)); super().learn(st,a,r,ns)

samplers=[HaltonSampler(2), RandomUniformSampler(2), BestBatchSampler(2)]
agent=LogAgent(3, alpha=0.1, eps=0.1)
env=MABCalibrationEnv(3)
sch=RLScheduler(samplers, agent, env)
with quiet():
    c = Calibrator(loss_function=MinkowskiLoss(), real_data=real, model=model,
        parameters_bounds=[[0.0],[1.0]], parameters_precision=[0.0001], ensemble_size=1, n_jobs=1, random_state=0, scheduler=sch, verbose=False)
    c.calibrate(3)
print("session1 log", agent.log, "methods", c.method_samp.tolist(), "leftover action q", sch._in_queue.qsize(), "outcome q", sch._out_queue.qsize())
with quiet(): c.calibrate(2)
print("session2 log", agent.log, "methods", c.method_samp.tolist(), "leftover action q", sch._in_queue.qsize(), "outcome q", sch._out_queue.qsize())
# pickling of RL scheduler
try:
    pickle.dumps(sch); print("RL pickle ok")
except Exception as e: print("RL pickle fails:", type(e).__name__, e)
# C11: model failure w/ RL
calls=[0]
def badmodel(theta,N,seed):
    calls[0]+=1
    if calls[0]==3: raise RuntimeError("boom")
    return model(theta,N,seed)
agent=LogAgent(3, alpha=0.1, eps=0.1); env=MABCalibrationEnv(3)
sch=RLScheduler([HaltonSampler(2), RandomUniformSampler(2), BestBatchSampler(2)], agent, env)
with quiet():
    c = Calibrator(loss_function=MinkowskiLoss(), real_data=real, model=badmodel,
        parameters_bounds=[[0.0],[1.0]], parameters_precision=[0.0001], ensemble_size=1, n_jobs=1, random_state=0, scheduler=sch, verbose=False)
    try: c.calibrate(3)
    except RuntimeError as e: print("raised", e, file=sys.stderr)
print("C11 threads alive after failure:", [t.name for t in threading.enumerate() if t is not threading.main_thread()], "hist len", len(c.losses_samp))
try:
    with quiet(): c.calibrate(1)
    print("C11 next calibrate ok")
except Exception as e: print("C11 next calibrate raised", type(e).__name__, e)
# let thread die so the process can exit
sch._stopped=True; sch._out_queue.put(None)
# C18 plot table from current checkpoint
d=tempfile.mkdtemp()
with quiet():
    c = Calibrator(loss_function=MinkowskiLoss(), real_data=real, model=model,
        parameters_bounds=[[0.0],[1.0]], parameters_precision=[0.0001], ensemble_size=1, n_jobs=1, random_state=0, samplers=[HaltonSampler(2), RandomUniformSampler(2)], verbose=False, saving_folder=d)
    c.calibrate(2)
try: print("C18 names", plot_results._get_samplers_names(d,[0,1]))
except Exception as e: print("C18 plot table raised", type(e).__name__, e)
# C16 xgboost clip
y=np.array([1.0,2.0,1e40,3.0, 0.5,0.1,0.2,0.7]); X=np.linspace(0,1,8).reshape(-1,1); y0=y.copy()
ss = SearchSpace([[0.0],[1.0]],[0.01],False)
XGBoostSampler(2, random_state=0, candidate_pool_size=20).sample(ss, X, y)
print("C16 xgboost history modified:", not np.array_equal(y,y0), y[2])
# C07 Minkowski filters
f=lambda s: s*0
l1=MinkowskiLoss(coordinate_filters=[f]).compute_loss(np.ones((1,5,1)), real)
print("C07 minkowski with zeroing filter:", l1, "(0 expected if filters applied)")
# C07 GSL conflation
print("GSL words [1,12] vs [2,2]:", GslDivLoss.get_words(np.array([1,12]),2), GslDivLoss.get_words(np.array([2,2]),2))
w=GslDivLoss.get_words(np.arange(1,30)%7+1, 25); print("long word dtype", w.dtype, w[:1])
