# Do my written definitions (DESIGN C07/C20/C13) match the code where no defect is suspected? Plain-python references.
import warnings, sys, math, cmath
warnings.filterwarnings("ignore")
import numpy as np
sys.path.insert(0,"/repo")
from black_it.loss_functions.minkowski import MinkowskiLoss
from black_it.loss_functions.msm import MethodOfMomentsLoss
from black_it.loss_functions.fourier import FourierLoss, ideal_low_pass_filter, gaussian_low_pass_filter
from black_it.loss_functions.gsl_div import GslDivLoss
from black_it.loss_functions.likelihood import LikelihoodLoss
from black_it.utils.time_series import get_mom_ts_1d, hp_filter, diff_log_demean_filter, log_and_hp_filter
from black_it.samplers.halton import halton, HaltonSampler
from black_it.search_space import SearchSpace
rng=np.random.default_rng(3)
def rel(a,b): return abs(a-b)/max(1e-300,abs(b))
# ---- moments
def mean(x): return sum(x)/len(x)
def moments(x):
    x=list(map(float,x)); n=len(x); m=mean(x); d=[v-m for v in x]
    m2=mean([v*v for v in d]); m3=mean([v**3 for v in d]); m4=mean([v**4 for v in d])
    sd=math.sqrt(m2); sk=m3/m2**1.5; ku=m4/m2**2-3
    sroot=lambda v,k: math.copysign(abs(v)**(1.0/k),v) if v!=0 else 0.0
    acf=[sum(d[t]*d[t+k] for t in range(n-k))/sum(v*v for v in d) for k in range(1,6)]
    return [m,sd,sroot(sk,3),sroot(ku,4)]+acf
def mom18(x):
    ad=[abs(x[i+1]-x[i]) for i in range(len(x)-1)]
    return moments(x)+moments(ad)
x=rng.normal(size=40); got=get_mom_ts_1d(x); ref=mom18(x)
print("18 moments max rel err:", max(rel(a,b) for a,b in zip(got,ref)))
# ---- minkowski / base weights
E,N,D=3,12,2
sim=rng.normal(size=(E,N,D)); real=rng.normal(size=(N,D)); w=np.array([0.3,0.7])
for p in (1,2,3):
    got=MinkowskiLoss(p=p,coordinate_weights=w).compute_loss(sim,real)
    ref=sum(w[i]*sum(abs(mean([sim[e,t,i] for e in range(E)])-real[t,i])**p for t in range(N))**(1/p) for i in range(D))
    print("minkowski p",p,"rel err",rel(got,ref))
print("default weights 1/D:", rel(MinkowskiLoss().compute_loss(sim,real), sum(0.5*math.sqrt(sum((mean([sim[e,t,i] for e in range(E)])-real[t,i])**2 for t in range(N))) for i in range(D))))
# ---- msm
sim=rng.normal(size=(E,30,1)); real=rng.normal(size=(30,1))
mr=mom18(list(real[:,0])); ms=[mom18(list(sim[e,:,0])) for e in range(E)]
g=[mr[k]-mean([ms[e][k] for e in range(E)]) for k in range(18)]
print("msm identity rel err", rel(MethodOfMomentsLoss().compute_loss(sim,real), sum(v*v for v in g)))
iv=sum(g[k]**2/mean([(mr[k]-ms[e][k])**2 for e in range(E)]) for k in range(18))
print("msm inverse_variance rel err", rel(MethodOfMomentsLoss(covariance_mat="inverse_variance").compute_loss(sim,real), iv))
gs=[(mr[k]/abs(mr[k]))-mean([ms[e][k]/abs(mr[k]) for e in range(E)]) for k in range(18)]
print("msm standardised rel err", rel(MethodOfMomentsLoss(standardise_moments=True).compute_loss(sim,real), sum(v*v for v in gs)))
# ---- fourier
def dft(x): n=len(x); return [sum(x[k]*cmath.exp(-2j*math.pi*j*k/n) for k in range(n)) for j in range(n//2+1)]
def py_round_half_even(v): return int(np.round(v))
for filt,name in ((ideal_low_pass_filter,"ideal"),(gaussian_low_pass_filter,"gauss")):
  for f in (0.3,0.8,1.0):
    N=17; sim=rng.normal(size=(E,N,1)); real=rng.normal(size=(N,1)); nf=N//2+1
    if name=="ideal": k=py_round_half_even(f*nf); mask=[1.0 if j<k else 0.0 for j in range(nf)]
    else: sg=float(np.round(f*nf)); mask=[math.exp(-j*j/(2*sg*sg)) for j in range(nf)]
    Fr=[a*m for a,m in zip(dft(list(real[:,0])),mask)]
    Fs=[[a*m for a,m in zip(dft(list(sim[e,:,0])),mask)] for e in range(E)]
    Fm=[sum(Fs[e][j] for e in range(E))/E for j in range(nf)]
    ref=math.sqrt(sum(abs(Fm[j]-Fr[j])**2 for j in range(nf))/nf)
    print("fourier",name,f,"rel err",rel(FourierLoss(frequency_filter=filt,f=f).compute_loss(sim,real),ref))
# ---- gsl (tuple words) for nb_values<=9
def gsl_ref(sim,real,b,L):
    T=len(real)
    def disc(x):
        lo,hi=min(x)-1e-5,max(x)+1e-5; step=(hi-lo)/b; edges=[i*step+lo for i in range(b+1)]; edges[-1]=hi
        return [sum(1 for e in edges if e<v) for v in x]
    def H(words,base):
        from collections import Counter
        c=Counter(words); n=len(words); return -sum((k/n)*math.log(k/n)/math.log(base) for k in c.values()), len(c)
    ox=disc(list(real)); tot=0
    for e in range(sim.shape[0]):
        sx=disc(list(sim[e])); val=0; wgt=0
        for l in range(1,L+1):
            sw=[tuple(sx[i:i+l]) for i in range(T+1-l)]; ow=[tuple(ox[i:i+l]) for i in range(T+1-l)]
            hs,ns=H(sw,float(b**l)); hm,nm=H(sw+ow,float(b**l)); wgt+=2/(L*(L+1))
            val+=wgt*(2*hm-hs+((nm-1)-(ns-1))/(2*T))
        tot+=val
    return tot/sim.shape[0]
sim=rng.normal(size=(E,30,1)); real=rng.normal(size=(30,1))
for b,L in ((4,3),(9,5),(12,3)):
    print("gsl b,L",b,L,"rel err",rel(GslDivLoss(nb_values=b,nb_word_lengths=L).compute_loss(sim,real), gsl_ref(sim[:,:,0],real[:,0],b,L)))
# ---- likelihood
R,S,Dd=2,15,2; sim=rng.normal(size=(R,S,Dd)); real=rng.normal(size=(10,Dd))
for hname in ("silverman","scott",0.7):
    h=((S*(Dd+2))/4)**(-1/(Dd+4)) if hname=="silverman" else S**(-1/(Dd+4)) if hname=="scott" else hname
    ref=-sum(sum(math.log(sum(math.exp(-(sum((sim[r,s,d]-real[t,d])**2 for d in range(Dd))/Dd)/(2*h*h))/(h**Dd*(2*math.pi)**(Dd/2)) for s in range(S))/S) for t in range(10)) for r in range(R))/R
    print("likelihood",hname,"rel err",rel(LikelihoodLoss(h=hname).compute_loss(sim,real),ref))
# ---- HP residual sizes
for n,lam in ((3,1e-3),(50,1600.0),(2000,1e7),(500,1e7),(2000,1e-3)):
    y=np.cumsum(rng.normal(size=n)); c,t=hp_filter(y,lam)
    Kt=[t[i]-2*t[i+1]+t[i+2] for i in range(n-2)]
    KtK=[0.0]*n
    for i,u in enumerate(Kt): KtK[i]+=u; KtK[i+1]+=-2*u; KtK[i+2]+=u
    r=max(abs(t[j]+lam*KtK[j]-y[j]) for j in range(n))
    print("HP n,lam",n,lam,"max residual",r,"scaled by (1+16lam)*max|t|:", r/((1+16*lam)*max(abs(t))), "cycle==y-trend bitwise:", np.array_equal(c,y-t))
# ---- halton pre-snap vs exact
from fractions import Fraction
def radinv(b,n):
    f=Fraction(0); d=Fraction(1,b)
    while n>0: n,r=divmod(n,b); f+=r*d; d/=b
    return f
pts=halton(5,np.array([2,3,173]),65530)
print("halton max abs err vs exact:", max(abs(Fraction(float(pts[k,j]))-radinv(b,65531+k)) for k in range(5) for j,b in enumerate((2,3,173))).__float__())
x=np.exp(rng.normal(size=10)); o=diff_log_demean_filter(x); print("difflog len,first,sum:",len(o), o[0]+np.mean(np.diff(np.log(x),prepend=np.log(x)[0])), abs(o.sum()))
