import numpy as np, math
rng=np.random.default_rng(1)
bad=0; badlen=0
for t in range(20000):
    l = float(rng.normal()*10.0**rng.integers(-3,4)); r=float(abs(rng.normal())*10.0**rng.integers(-3,4))+1e-9
    k = rng.integers(1,2000); p = r/k if rng.random()<0.5 else float(rng.random()*r)
    if p==0 or p>r: continue
    u=l+r
    if (u-l)/p>1e5: continue
    g=np.arange(l,u+0.0000001,p,dtype=np.float64)
    stop=u+0.0000001
    n=math.ceil((stop-l)/p)
    delta=(l+p)-l
    m=np.array([l + i*delta for i in range(n)]) if n>0 else np.array([])
    if len(g)!=n: badlen+=1; continue
    if not np.array_equal(g,m):
        bad+=1
        if bad<3: print("mismatch", l,u,p, g[:3], m[:3], np.flatnonzero(g!=m)[:5])
print("arange formula: len mismatches", badlen, "value mismatches", bad)
# linspace
bad=0
for t in range(5000):
    a=float(rng.normal()); b=a+float(abs(rng.normal()))+1e-3; num=int(rng.integers(2,60))
    g=np.linspace(a-1e-5,b+1e-5,num+1)
    start=a-1e-5; stop=b+1e-5; div=num; delta=stop-start; step=delta/div
    m=np.array([i*step+start for i in range(num+1)]); m[-1]=stop
    if not np.array_equal(g,m): bad+=1
print("linspace formula mismatches", bad)
# np.round zero test
for x,p in [(0.5,0),(0.05,1),(0.005,2),(0.0005,3),(0.00049,3),(0.00051,3),(-0.0004,3),(1.5,0)]:
    print(x,p,np.round(x,p), np.round(x,p)==0)
