# Feasibility: drive RLScheduler under a controlled interleaving without touching the repo.
import sys, threading, itertools, warnings
warnings.filterwarnings("ignore")
sys.path.insert(0,"/repo")
import numpy as np
from black_it.schedulers.rl import rl_scheduler as rlmod
from black_it.schedulers.rl.rl_scheduler import RLScheduler
from black_it.schedulers.rl.agents.base import Agent
from black_it.schedulers.rl.envs.mab import MABCalibrationEnv
from black_it.samplers.halton import HaltonSampler
from black_it.samplers.random_uniform import RandomUniformSampler

class Ctl:
    """Cooperative scheduler: exactly one thread runs between sync points; `choose` picks who goes next."""
    def __init__(self, schedule):
        self.schedule=list(schedule); self.cv=threading.Condition(); self.waiting={}; self.running="M"; self.trace=[]; self.alive={"M"}
    def _name(self): return getattr(threading.current_thread(),"vname","M")
    def yield_point(self, op, enabled=lambda: True):
        me=self._name()
        with self.cv:
            self.waiting[me]=(op,enabled); self.running=None; self._dispatch()
            while self.running!=me: self.cv.wait()
            del self.waiting[me]
    def _dispatch(self):
        en=sorted(t for t,(op,e) in self.waiting.items() if e())
        if not en:
            if len(self.waiting)==len(self.alive): self.trace.append(("DEADLOCK",dict((t,o) for t,(o,_) in self.waiting.items()))); raise SystemExit("deadlock")
            return
        if len(self.waiting)<len(self.alive): return   # someone still running to its next sync point
        pick = self.schedule.pop(0) if self.schedule else 0
        t=en[pick % len(en)]; self.trace.append((t,self.waiting[t][0])); self.running=t; self.cv.notify_all()
    def thread_exit(self):
        me=self._name()
        with self.cv:
            self.alive.discard(me); self.running=None; self._dispatch()
CTL=None
class VQueue:
    def __init__(s,name): s.items=[]; s.name=name
    def put(s,x): CTL.yield_point(f"put:{s.name}"); s.items.append(x)
    def get(s): CTL.yield_point(f"get:{s.name}", lambda: len(s.items)>0); return s.items.pop(0)
    def qsize(s): return len(s.items)
class VThread:
    def __init__(s,target): s.target=target; s.done=False
    def start(s):
        def run():
            threading.current_thread().vname="A"
            CTL.yield_point("A:begin")
            try: s.target()
            finally: s.done=True; CTL.thread_exit()
        CTL.yield_point("start"); 
        with CTL.cv: CTL.alive.add("A")
        s.t=threading.Thread(target=run,daemon=True); s.t.start()
    def join(s): CTL.yield_point("join", lambda: s.done)
class Shim: Thread=staticmethod(lambda target: VThread(target))
class VRL(RLScheduler):
    @property
    def _stopped(s): 
        if CTL: CTL.yield_point("read:stopped")
        return s.__dict__["_st"]
    @_stopped.setter
    def _stopped(s,v):
        if CTL: CTL.yield_point("write:stopped")
        s.__dict__["_st"]=v
class ScriptAgent(Agent):
    def __init__(s): super().__init__(random_state=0); s.log=[]; s.k=0
    def policy(s,st): a=s.k%2; s.k+=1; s.log.append(("policy",a)); return a
    def learn(s,st,a,r,ns): s.log.append(("learn",a,round(float(r),3)))

def run(schedule, sessions):
    global CTL
    CTL=None
    env=MABCalibrationEnv(2); env._in_queue=VQueue("outcome"); env._out_queue=VQueue("action")
    agent=ScriptAgent()
    rlmod.threading=Shim
    sch=VRL([HaltonSampler(1),RandomUniformSampler(1)],agent,env)
    CTL=Ctl(schedule)
    used=[]; loss=10.0
    for nb in sessions:
        sch.start_session()
        for b in range(nb):
            s=sch.get_next_sampler(); used.append(type(s).__name__[0]); loss-=1
            sch.update(b,np.array([[0.0]]),np.array([loss]),None)
        sch.end_session()
    return used, agent.log, len(env._in_queue.items), len(env._out_queue.items), len(CTL.trace)
seen=set()
import random
for seed in range(300):
    random.seed(seed); sched=[random.randrange(3) for _ in range(200)]
    r=run(sched,[2,2]); seen.add(repr(r[:4]))
for s in sorted(seen): print(s)
print(len(seen),"distinct outcomes over 300 random schedules")
