import warnings, io, contextlib, sys, os, tempfile, threading
warnings.filterwarnings("ignore")
import numpy as np
sys.path.insert(0, "/repo")
from black_it.calibrator import Calibrator
from black_it.samplers.halton import HaltonSampler
from black_it.samplers.random_uniform import RandomUniformSampler
from black_it.samplers.best_batch import BestBatchSampler
from black_it.schedulers.round_robin import RoundRobinScheduler
from black_it.loss_functions.minkowski import MinkowskiLoss
from black_it.search_space import SearchSpace

def model(theta, N, seed):
    rng = np.random.default_rng(seed)
    return (theta[0] + rng.normal(size=(N,1))*0.0)

real = np.zeros((5,1))
def mk(**kw):
    with contextlib.redirect_stdout(io.StringIO()):
        return Calibrator(loss_function=MinkowskiLoss(), real_data=real, model=model,
            parameters_bounds=[[0.0],[1.0]], parameters_precision=[0.01], ensemble_size=1, n_jobs=1, random_state=0, **kw)
# C09 both / neither
for label, kw in [("both", dict(samplers=[HaltonSampler(2)], scheduler=RoundRobinScheduler([HaltonSampler(2)]))), ("neither", {})]:
    try:
        c = mk(**kw); print("C09", label, "accepted ->", type(c.scheduler).__name__)
    except Exception as e:
        print("C09", label, "raised", type(e).__name__, e)
# C14 verbose
def model0(theta, N, seed): return np.zeros((N,1))
model0.__name__="model0"
for verbose in (True, False):
    with contextlib.redirect_stdout(io.StringIO()):
        c = Calibrator(loss_function=MinkowskiLoss(), real_data=real, model=model0,
            parameters_bounds=[[0.0],[1.0]], parameters_precision=[0.01], ensemble_size=1, n_jobs=1, random_state=0,
            samplers=[HaltonSampler(2)], convergence_precision=3, verbose=verbose)
        c.calibrate(4)
    print("C14 verbose", verbose, "batches run", c.current_batch_index)
# C14 checkpoint after stop
d = tempfile.mkdtemp()
with contextlib.redirect_stdout(io.StringIO()):
    c = Calibrator(loss_function=MinkowskiLoss(), real_data=real, model=model0,
        parameters_bounds=[[0.0],[1.0]], parameters_precision=[0.01], ensemble_size=1, n_jobs=1, random_state=0,
        samplers=[HaltonSampler(2)], convergence_precision=3, verbose=True, saving_folder=d)
    c.calibrate(4)
print("C14 stop w/ folder: batches", c.current_batch_index, "folder contents", os.listdir(d))
# C03 best batch off grid
ss = SearchSpace([[0.0],[1.0]],[0.1],False)
g = ss.param_grid[0]
bb = BestBatchSampler(batch_size=4, random_state=1)
pts = g[[7,3,5,6]].reshape(-1,1); losses=np.array([0.,1,2,3])
off=0
for seed in range(50):
    bb.random_state=seed
    out = bb.sample(ss, pts, losses)
    off += int((~np.isin(out[:,0], g)).sum())
print("C03 bestbatch off-grid coords over 50 seeds:", off, "grid[7..8]", g[7], g[8], g[7]+0.1)
ss2 = SearchSpace([[0.0],[1.0]],[0.3],False)
print("grid .3:", ss2.param_grid[0])
