import random, itertools
def dup_positions(hist,new):
    allp=hist+new; groups=sorted(set(p for p in allp if allp.count(p)>=2))
    return [i for g in groups for i,p in enumerate(new) if p==g]
def run(budget,hist,first,draw):
    s=list(first); reqs=[]; flagged=[]
    for n in range(budget):
        d=dup_positions(hist,s)
        if not d: break
        b=[draw() for _ in d]; reqs.append(len(d)); flagged.append(d)
        for k,i in enumerate(d): s[i]=b[k]
    return s,reqs,flagged
random.seed(2); v1=v2=v3=0; n=0
for t in range(200000):
    alpha=random.randint(2,3); bs=random.randint(1,4); budget=random.randint(0,3)
    pt=lambda: random.randrange(alpha)
    hist=[pt() for _ in range(random.randint(0,3))]; first=[pt() for _ in range(bs)]
    out,reqs,fl=run(budget,hist,first,pt)
    rep=[i for i in range(bs) if (hist+out).count(out[i])>=2]
    if rep:
        n+=1
        if len(reqs)!=budget: v1+=1
        for i in rep:
            if budget>0:
                last=fl[-1] if fl else []
                if not (i in last or any(out[j]==out[i] for j in last if j!=i)): v2+=1
    # untouched
    for i in range(bs):
        if all(i not in f for f in fl) and out[i]!=first[i]: v3+=1
print("outputs with repeats",n,"| budget-not-exhausted violations",v1,"| per-position violations",v2,"| untouched violations",v3)
