import numpy as np
g=np.arange(0,1.0000001,0.1)
for i,x in enumerate(g):
    for sgn in (1,-1):
        for size in range(1,6):
            y=x + 0.1*sgn*size
            y=float(np.clip(y,0.0,1.0))
            if y not in g:
                print(i, float(x).hex(), sgn, size, "->", y.hex(), repr(y), "nearest", repr(float(g[np.argmin(abs(g-y))])))
