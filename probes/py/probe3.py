import numpy as np, pandas as pd, io, struct
rng=np.random.default_rng(0)
bad=0; tot=0; ex=None
for rnd in range(20):
    bits = rng.integers(0, 2**63, size=20000, dtype=np.uint64)
    x = bits.view(np.float64); x = x[np.isfinite(x)]
    # plus ordinary-magnitude floats
    y = rng.random(20000)*10.0**rng.integers(-8,8,size=20000)
    for arr in (x,y):
        df=pd.DataFrame({"a":arr}); s=io.StringIO(); df.to_csv(s); s.seek(0)
        b=pd.read_csv(s)["a"].to_numpy()
        ne = (b.view(np.uint64)!=arr.view(np.uint64))
        bad+=int(ne.sum()); tot+=len(arr)
        if ne.any() and ex is None: i=np.argmax(ne); ex=(arr[i].hex(), b[i].hex(), repr(arr[i]))
print("csv roundtrip mismatches", bad, "of", tot, ex)
# special: inf/nan
df=pd.DataFrame({"a":[np.inf,-np.inf,np.nan,1.0]}); s=io.StringIO(); df.to_csv(s); s.seek(0); print(pd.read_csv(s)["a"].to_numpy(), s.getvalue().replace("\n","|"))
# all-integer valued float column → dtype?
df=pd.DataFrame({"a":np.array([1.0,2.0])}); s=io.StringIO(); df.to_csv(s); s.seek(0); print(pd.read_csv(s)["a"].dtype, s.getvalue().replace("\n","|"))
