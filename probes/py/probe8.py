# Is the planned C12 model (lexicographic unique groups, positions ascending inside a group) what numpy does?
import sys, random, io, contextlib
sys.path.insert(0,"/repo")
import numpy as np
from black_it.samplers.base import BaseSampler
def model_dup_positions(hist, new):
    allp = hist+new
    groups = sorted(set(p for p in allp if allp.count(p)>=2))
    return [i for g in groups for i,p in enumerate(new) if p==g]
def model_sample(budget, script, hist):
    script=list(script); s=list(script.pop(0)); reqs=[]
    for n in range(budget):
        d=model_dup_positions(hist,s)
        if not d: break
        b=script.pop(0); reqs.append(len(d))
        for k,i in enumerate(d): s[i]=b[k]
    return s,reqs
class Scripted(BaseSampler):
    def __init__(s,bs,script,budget): super().__init__(bs,max_deduplication_passes=budget); s.script=list(script); s.reqs=[]
    def sample_batch(s,batch_size,ss,ep,el):
        s.reqs.append(batch_size); b=s.script.pop(0); assert len(b)==batch_size; return np.array(b,dtype=float).reshape(batch_size,-1)
random.seed(1); bad=0; nontriv=0
for t in range(20000):
    dims=random.randint(1,2); alpha=random.randint(2,3); bs=random.randint(1,4); budget=random.randint(0,4)
    pt=lambda: tuple(random.randrange(alpha) for _ in range(dims))
    hist=[pt() for _ in range(random.randint(0,5))]
    # build script adaptively using the model to know request sizes
    first=[pt() for _ in range(bs)]; script=[first]; s=list(first)
    for n in range(budget):
        d=model_dup_positions(hist,s)
        if not d: break
        b=[pt() for _ in d]; script.append(b)
        for k,i in enumerate(d): s[i]=b[k]
    exp,reqs=model_sample(budget,script,hist)
    smp=Scripted(bs,script,budget)
    with contextlib.redirect_stdout(io.StringIO()):
        out=smp.sample(None,np.array(hist,dtype=float).reshape(len(hist),dims),np.zeros(len(hist)))
    got=[tuple(int(v) for v in r) for r in out]
    if got!=exp or smp.reqs[1:]!=reqs: bad+=1; print("MISMATCH",hist,script,budget,got,exp,smp.reqs,reqs); 
    if reqs: nontriv+=1
    if bad>3: break
print("cases",t+1,"nontrivial",nontriv,"mismatches",bad)
