import numpy as np, pandas as pd, io
rng=np.random.default_rng(0)
y = rng.random(200000)
df=pd.DataFrame({"a":y}); s=io.StringIO(); df.to_csv(s); s.seek(0)
b=pd.read_csv(s)["a"].to_numpy()
ne=(b!=y); print("ordinary [0,1) floats mismatches", ne.sum(), "of", len(y)); i=np.argmax(ne); print(repr(y[i]), repr(b[i]))
s.seek(0); b=pd.read_csv(s, float_precision="round_trip")["a"].to_numpy(); print("round_trip mismatches", (b!=y).sum())
