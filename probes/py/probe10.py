# C01/C04/C05/C06 behaviour probes on the pinned tree
import warnings, io, contextlib, sys, os, tempfile, shutil, pickle
warnings.filterwarnings("ignore")
import numpy as np, pandas as pd
sys.path.insert(0, "/repo")
from black_it.calibrator import Calibrator
from black_it.samplers.halton import HaltonSampler
from black_it.samplers.r_sequence import RSequenceSampler
from black_it.samplers.random_uniform import RandomUniformSampler
from black_it.samplers.best_batch import BestBatchSampler
from black_it.samplers.particle_swarm import ParticleSwarmSampler
from black_it.loss_functions.minkowski import MinkowskiLoss
quiet = lambda: contextlib.redirect_stdout(io.StringIO())
def model(theta, N, seed):
    rng = np.random.default_rng(seed); return theta[0] + theta[1]*rng.normal(size=(N,1))
real = np.random.default_rng(5).normal(size=(20,1))
def lineup(seeds=(None,)*5):
    return [HaltonSampler(3,random_state=seeds[0]), RandomUniformSampler(2,random_state=seeds[1]), BestBatchSampler(2,random_state=seeds[2]),
            ParticleSwarmSampler(3,random_state=seeds[3]), RSequenceSampler(2,random_state=seeds[4])]
def mk(folder=None, n_jobs=1, verbose=False, seeds=(None,)*5):
    with quiet():
        return Calibrator(loss_function=MinkowskiLoss(), real_data=real, model=model, parameters_bounds=[[0.0,0.1],[1.0,2.0]],
            parameters_precision=[0.001,0.001], ensemble_size=2, samplers=lineup(seeds), random_state=7, n_jobs=n_jobs, verbose=verbose, saving_folder=folder)
def hist(c): return (c.params_samp.tobytes(), c.losses_samp.tobytes(), c.series_samp.tobytes(), c.batch_num_samp.tobytes(), c.method_samp.tobytes())
with quiet():
    a=mk(); a.calibrate(7)
    b=mk(n_jobs=2, verbose=True, seeds=(1,2,3,4,5)); b.calibrate(7)
print("C01 same history across n_jobs/verbose/ctor seeds:", hist(a)==hist(b))
# C05 plain split
with quiet():
    c=mk(); c.calibrate(3); c.calibrate(4)
print("C05 plain split 3+4 == 7:", hist(a)==hist(c))
# C05 restore split (default csv parser) and with round_trip parser
def resume(round_trip):
    d=tempfile.mkdtemp()
    orig=pd.read_csv
    if round_trip:
        import black_it.utils.json_pandas_checkpointing as m
        m.pd.read_csv=lambda *a,**k: orig(*a,float_precision="round_trip",**k)
    try:
        with quiet():
            c=mk(folder=d); c.calibrate(3)
            r=Calibrator.restore_from_checkpoint(d, model); r.calibrate(4)
    finally:
        pd.read_csv=orig; shutil.rmtree(d)
    return r
r1=resume(False); r2=resume(True)
for name,r in (("default parser",r1),("round_trip parser",r2)):
    same=[x==y for x,y in zip(hist(a),hist(r))]
    print("C05 restore split 3+4 ==7 with",name,": params/losses/series/batch/method equal:",same)
# C04 stale h5 from a different run in same folder
d=tempfile.mkdtemp()
with quiet():
    c1=mk(folder=d); c1.calibrate(2)
    c2=Calibrator(loss_function=MinkowskiLoss(), real_data=real, model=model, parameters_bounds=[[0.0,0.1],[1.0,2.0]], parameters_precision=[0.001,0.001],
                  ensemble_size=2, samplers=lineup(), random_state=99, n_jobs=1, verbose=False, saving_folder=d); c2.calibrate(2)
    r=Calibrator.restore_from_checkpoint(d, model)
print("C04 new run in same folder: restored series == saved series:", r.series_samp.tobytes()==c2.series_samp.tobytes(), "| params equal:", np.array_equal(r.params_samp,c2.params_samp), "| series rows", r.series_samp.shape[0], "params rows", r.params_samp.shape[0])
# C06 hybrid: new JSON over old rest
d0=tempfile.mkdtemp(); d1=tempfile.mkdtemp()
with quiet():
    c=mk(folder=d0); c.calibrate(1)
    shutil.copytree(d0,d1,dirs_exist_ok=True); c.saving_folder=d1  # continue the same run into d1
    c.calibrate(1)      # d1 = new checkpoint (2 batches), d0 = old (1 batch)
    shutil.copy(os.path.join(d1,"calibration_params.json"), os.path.join(d0,"calibration_params.json"))
    try:
        h=Calibrator.restore_from_checkpoint(d0, model); msg=f"restored silently: batch_index={h.current_batch_index} n_sampled={h.n_sampled_params} rows={len(h.losses_samp)}"
    except Exception as e: msg="raised "+type(e).__name__
print("C06 crash after JSON complete:", msg)
