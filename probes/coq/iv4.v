From Coq Require Import Reals ZArith List.
From Interval Require Import Tactic.
From Interval Require Import Eval.Tree Eval.Prog Eval.Eval Interval.Interval Interval.Float Interval.Float_full Float.Specific_ops Float.Specific_bigint Float.Sig Float.Basic.
Import ListNotations.
Module F := SpecificFloat BigIntRadix2.
Module I := FloatIntervalFull F.
Module A := IntervalAlgos I.

(* straight-line program builder: state = reversed list of terms; de Bruijn: index 0 = most recent value.
   eval_generic folds: each term pushes its result at head of the value list. *)
Print Prog.eval_generic_body.

(* Build with Tree.expr instead (simpler) and evaluate trees by a custom interval evaluator? check what library offers *)
Check A.BndValuator.operations.
Fixpoint eval_tree (prec : I.precision) (e : expr) (env : list I.type) : I.type :=
  match e with
  | Evar n => nth n env I.nai
  | Econst (Int z) => I.fromZ prec z
  | Econst (Bpow r n) => I.power_int prec (I.fromZ prec r) n
  | Econst Pi => I.pi prec
  | Eunary o a => let x := eval_tree prec a env in
     match o with
     | Neg => I.neg x | Abs => I.abs x | Inv => I.inv prec x | Sqr => I.sqr prec x | Sqrt => I.sqrt prec x
     | Cos => I.cos prec x | Sin => I.sin prec x | Tan => I.tan prec x | Atan => I.atan prec x
     | Exp => I.exp prec x | Ln => I.ln prec x | PowerInt n => I.power_int prec x n
     | Nearbyint m => I.nearbyint m x | Round m emin p => I.nai end
  | Ebinary o a b => let x := eval_tree prec a env in let y := eval_tree prec b env in
     match o with Add => I.add prec x y | Sub => I.sub prec x y | Mul => I.mul prec x y | Div => I.div prec x y end
  end.

Definition cst z := Econst (Int z).
Definition twopi := Ebinary Mul (cst 2) (Econst Pi).
Fixpoint dft_re (n : Z) (j : Z) (k : nat) (acc : expr) : expr :=
  match k with O => acc | S k' =>
    dft_re n j k' (Ebinary Add acc (Ebinary Mul (Evar k') (Eunary Cos (Ebinary Div (Ebinary Mul twopi (cst (j * Z.of_nat k'))) (cst n)))))
  end.
Definition N := 64%nat.
Definition xs : list I.type := map (fun k => I.fromZ (F.PtoP 64) (Z.of_nat (k*k mod 17))) (seq 0 N).
Definition all := map (fun j => eval_tree (F.PtoP 64) (dft_re (Z.of_nat N) (Z.of_nat j) N (cst 0)) xs) (seq 0 33).
Time Eval vm_compute in (length all, nth 3 all I.nai).
