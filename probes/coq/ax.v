From Coq Require Import Reals Lra List.
Open Scope R_scope.
Lemma t1 (x y : R) : 0 <= x*x + y*y. Proof. nra. Qed.
Print Assumptions t1.
Lemma t2 (x : R) : 0 <= x -> sqrt (x*x) = x. Proof. intros; apply sqrt_square; lra. Qed.
Print Assumptions t2.
From Interval Require Import Tactic.
Lemma t3 : (exp 1 <= 3)%R. Proof. interval. Qed.
Print Assumptions t3.
From Coq Require Import ZArith Lia.
Lemma t4 (a b : Z) : (0 < b -> a mod b < b)%Z. Proof. intros; apply Z.mod_pos_bound; lia. Qed.
Print Assumptions t4.
