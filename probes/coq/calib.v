From Coq Require Import List Arith Lia Bool.
Import ListNotations.

Section Calib.
  Variables (Param Series LossV : Type).
  Variable model : Param -> nat -> Series.             (* param, simulation seed *)
  Variable lossf : list Series -> LossV.
  Variable E : nat.                                     (* ensemble size *)

  Record row := { r_param : Param; r_series : list Series; r_loss : LossV; r_batch : nat; r_method : nat }.
  Record sampler := { s_id : nat; s_bsize : nat }.
  (* what a sampler proposes is arbitrary but has s_bsize rows: oracle indexed by (batch index) *)
  Variable propose : nat -> sampler -> list Param.
  Hypothesis propose_len : forall b s, length (propose b s) = s_bsize s.

  Record st := { hist : list row; n_sampled : nat; batch_idx : nat; rr : nat; seedctr : nat }.

  Variable samplers : list sampler.
  Hypothesis samplers_ne : samplers <> [].
  Definition dflt := {| s_id := 0; s_bsize := 0 |}.
  Definition next_sampler (s : st) := nth (rr s mod length samplers) samplers dflt.

  (* np.repeat(params, E) ; one seed per simulated series, drawn in order ; reshape (B*E) -> (B,E) *)
  Fixpoint simulate (ps : list Param) (seed0 : nat) : list (list Series) :=
    match ps with [] => [] | p :: ps' => map (fun e => model p (seed0 + e)) (seq 0 E) :: simulate ps' (seed0 + E) end.

  Definition one_batch (s : st) : st :=
    let m := next_sampler s in
    let ps := propose (batch_idx s) m in
    let sims := simulate ps (seedctr s) in
    let rows := map (fun '(p, ser) => {| r_param := p; r_series := ser; r_loss := lossf ser;
                                         r_batch := batch_idx s; r_method := s_id m |}) (combine ps sims) in
    {| hist := hist s ++ rows; n_sampled := n_sampled s + length ps; batch_idx := S (batch_idx s);
       rr := S (rr s); seedctr := seedctr s + length ps * E |}.

  Fixpoint calibrate (n : nat) (s : st) : st := match n with 0 => s | S n' => calibrate n' (one_batch s) end.
  Definition init := {| hist := []; n_sampled := 0; batch_idx := 0; rr := 0; seedctr := 0 |}.
  Definition run (calls : list nat) : st := fold_left (fun s n => calibrate n s) calls init.

  Lemma simulate_len ps k : length (simulate ps k) = length ps.
  Proof. revert k; induction ps as [|p ps IH]; intros k; cbn; [reflexivity | now rewrite IH]. Qed.

  (* the invariant *)
  Definition row_ok (r : row) : Prop :=
    r_loss r = lossf (r_series r) /\ (exists k, r_series r = map (fun e => model (r_param r) (k + e)) (seq 0 E)) /\
    r_method r = s_id (nth (r_batch r mod length samplers) samplers dflt) .
  Definition Inv (s : st) : Prop :=
    length (hist s) = n_sampled s /\ rr s = batch_idx s /\ Forall row_ok (hist s) /\
    Forall (fun r => r_batch r < batch_idx s) (hist s).

  Lemma simulate_rows ps k : Forall2 (fun p ser => exists k', ser = map (fun e => model p (k' + e)) (seq 0 E)) ps (simulate ps k).
  Proof. revert k; induction ps as [|p ps IH]; intros k; cbn; constructor; [now exists k | apply IH]. Qed.

  Lemma one_batch_inv s : Inv s -> Inv (one_batch s) /\ (exists rows, hist (one_batch s) = hist s ++ rows /\
      length rows = s_bsize (next_sampler s) /\ Forall (fun r => r_batch r = batch_idx s) rows).
  Proof.
    intros (Hlen & Hrr & Hrows & Hb). unfold one_batch; cbn.
    set (m := next_sampler s). set (ps := propose (batch_idx s) m).
    assert (Hps : length ps = s_bsize m) by apply propose_len.
    split; [repeat split|]; cbn [hist n_sampled batch_idx rr seedctr].
    - rewrite app_length, map_length, combine_length, simulate_len, Nat.min_id. lia.
    - lia.
    - apply Forall_app; split; [exact Hrows|].
      pose proof (simulate_rows ps (seedctr s)) as H2.
      remember (simulate ps (seedctr s)) as sims eqn:Es. clear Es.
      clear Hps. induction H2 as [|p ser ps' sims' Hp _ IH]; cbn; constructor; [|exact IH].
      unfold row_ok; cbn. repeat split; [exact Hp|]. unfold m, next_sampler. now rewrite Hrr.
    - apply Forall_app; split.
      + eapply Forall_impl; [|exact Hb]. cbn; intros; lia.
      + apply Forall_forall. intros r Hr. apply in_map_iff in Hr. destruct Hr as [[p ser] [<- _]]. cbn. lia.
    - eexists; split; [reflexivity|]. split.
      + rewrite map_length, combine_length, simulate_len, Nat.min_id. exact Hps.
      + apply Forall_forall. intros r Hr. apply in_map_iff in Hr. destruct Hr as [[p ser] [<- _]]. reflexivity.
  Qed.

  Lemma calibrate_inv n : forall s, Inv s -> Inv (calibrate n s) /\ exists rows, hist (calibrate n s) = hist s ++ rows.
  Proof. induction n as [|n IH]; intros s H; cbn.
    - split; [exact H | exists []; now rewrite app_nil_r].
    - destruct (one_batch_inv s H) as (H1 & rows1 & E1 & _). destruct (IH _ H1) as (H2 & rows2 & E2).
      split; [exact H2|]. exists (rows1 ++ rows2). now rewrite E2, E1, app_assoc. Qed.

  (* every reachable state — any sequence of calibrate(n) calls — is aligned, append-only, round-robin labelled *)
  Theorem reachable_inv calls : Inv (run calls).
  Proof. unfold run. assert (H : Inv init) by (repeat split; constructor).
    revert H. generalize init. induction calls as [|n calls IH]; intros s H; cbn; [exact H|].
    apply IH. now apply calibrate_inv. Qed.

  Theorem append_only calls n : exists rows, hist (run (calls ++ [n])) = hist (run calls) ++ rows.
  Proof. unfold run. rewrite fold_left_app; cbn. apply calibrate_inv. apply reachable_inv. Qed.
End Calib.
Check reachable_inv. Print Assumptions reachable_inv.
