From Coq Require Import ZArith List PrimFloat Uint63 FloatOps SpecFloat Lia.
Import ListNotations.
Open Scope Z_scope.
(* float radical inverse as numpy does it for one base (unmasked; masking is redundant) *)
Definition zf (z : Z) : float := of_uint63 (Uint63.of_Z z).
Fixpoint rinv_f (fuel : nat) (i b : Z) (denom acc : float) : float :=
  match fuel with O => acc | S f =>
    if i <=? 0 then acc else
    let q := i / b in let r := i mod b in
    let denom' := (denom * zf b)%float in
    rinv_f f q b denom' (acc + zf r / denom')%float
  end.
(* exact: numerator over b^k *)
Fixpoint rinv_q (fuel : nat) (i b : Z) (bk num : Z) : Z * Z :=
  match fuel with O => (num, bk) | S f =>
    if i <=? 0 then (num, bk) else
    rinv_q f (i / b) b (bk * b) (num * b + i mod b)
  end.
Definition sf2q (x : float) : Z * Z := (* m * 2^e, as (m, e) *)
  match Prim2SF x with
  | SpecFloat.S754_finite s m e => ((if s then Z.neg m else Z.pos m), e)
  | _ => (0, 0) end.
(* check |fl - num/den| <= 2^-50 : |m*2^e*den - num| * 2^50 <= den , e negative *)
Definition ok (i b : Z) : bool :=
  let fl := rinv_f 64 i b 1%float 0%float in
  let '(num, den) := rinv_q 64 i b 1 0 in
  let '(m, e) := sf2q fl in
  if e <? 0 then Z.abs (m * den - num * 2 ^ (- e)) * 2 ^ 50 <=? den * 2 ^ (- e)
  else Z.abs (m * 2 ^ e * den - num) * 2 ^ 50 <=? den.
Definition primes40 := [2;3;5;7;11;13;17;19;23;29;31;37;41;43;47;53;59;61;67;71;73;79;83;89;97;101;103;107;109;113;127;131;137;139;149;151;157;163;167;173].
Fixpoint range_ok (n : nat) (i : Z) : bool :=
  match n with O => true | S n' => forallb (ok i) primes40 && range_ok n' (i + 1) end.
Time Eval vm_compute in range_ok 8000 1.
Eval vm_compute in (rinv_f 64 5 2 1%float 0%float, rinv_q 64 5 2 1 0).
