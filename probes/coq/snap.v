From Coq Require Import QArith Qabs List Lia Lqa Sorted Bool Arith.
Import ListNotations.
Open Scope Q_scope.

Definition Qltb (a b : Q) : bool := negb (Qle_bool b a).
Lemma Qltb_spec a b : Qltb a b = true <-> a < b.
Proof. unfold Qltb. rewrite negb_true_iff. split.
  - intros H. apply Qnot_le_lt. intros Hle. apply Qle_bool_iff in Hle. congruence.
  - intros H. destruct (Qle_bool b a) eqn:E; [|reflexivity]. apply Qle_bool_iff in E. lra. Qed.

Fixpoint ssl (g : list Q) (v : Q) : nat :=           (* np.searchsorted(g, v, side="left") on sorted g *)
  match g with [] => 0%nat | x :: g' => if Qltb x v then S (ssl g' v) else 0%nat end.

Definition dist (v x : Q) : Q := Qabs (v - x).
Definition get_closest (g : list Q) (v : Q) : Q :=
  let n := length g in let i := ssl g v in
  let prev := nth (Nat.max (i - 1) 0) g 0 in
  let nxt  := nth (Nat.min i (n - 1)) g 0 in
  if (Nat.eqb i n) || Qltb (dist v prev) (dist v nxt) then nth (i - 1) g 0 else nth i g 0.

Lemma ssl_le g v : (ssl g v <= length g)%nat.
Proof. induction g as [|x g IH]; cbn; [lia|]. destruct (Qltb x v); lia. Qed.

Theorem closest_in_grid g v : g <> [] -> In (get_closest g v) g.
Proof.
  intros Hne. unfold get_closest. pose proof (ssl_le g v) as Hle.
  assert (0 < length g)%nat by (destruct g; [congruence|cbn; lia]).
  destruct (Nat.eqb_spec (ssl g v) (length g)) as [He|Hn]; cbn [orb].
  - apply nth_In. lia.
  - destruct (Qltb _ _); apply nth_In; lia.
Qed.

(* sortedness facts *)
Lemma ssl_prefix_lt g v : forall j, (j < ssl g v)%nat -> nth j g 0 < v.
Proof. induction g as [|x g IH]; cbn; [lia|]. destruct (Qltb x v) eqn:E; [|lia].
  intros [|j] Hj; cbn; [now apply Qltb_spec | apply IH; lia]. Qed.

Lemma ssl_at_ge g v : StronglySorted Qle g -> forall j, (ssl g v <= j < length g)%nat -> v <= nth j g 0.
Proof. induction 1 as [|x g Hs IH Hall]; cbn; [lia|].
  destruct (Qltb x v) eqn:E.
  - intros [|j] Hj; [lia|]. cbn. apply IH. lia.
  - assert (v <= x). { destruct (Qlt_le_dec x v) as [Hl|Hl]; [|exact Hl]. apply Qltb_spec in Hl. congruence. }
    intros [|j] Hj; cbn; [exact H|]. rewrite Forall_forall in Hall.
    assert (x <= nth j g 0) by (apply Hall, nth_In; lia). lra.
Qed.

Lemma sorted_nth_le g : StronglySorted Qle g -> forall i j, (i <= j < length g)%nat -> nth i g 0 <= nth j g 0.
Proof. induction 1 as [|x g Hs IH Hall]; cbn; [lia|]. intros [|i] [|j] Hij; cbn; try lia; try lra.
  - rewrite Forall_forall in Hall. apply Hall, nth_In; lia.
  - apply IH; lia. Qed.

Theorem closest_is_nearest g v : StronglySorted Qle g -> g <> [] ->
  forall x, In x g -> dist v (get_closest g v) <= dist v x.
Proof.
  intros Hs Hne x Hx. apply (In_nth _ _ 0) in Hx. destruct Hx as [j [Hj <-]].
  unfold get_closest. set (i := ssl g v). set (n := length g).
  pose proof (ssl_le g v) as Hle. fold i n in Hle.
  assert (Hlt : forall k, (k < i)%nat -> nth k g 0 < v) by (apply ssl_prefix_lt).
  assert (Hge : forall k, (i <= k < n)%nat -> v <= nth k g 0) by (apply ssl_at_ge; assumption).
  assert (Hmono := sorted_nth_le g Hs). fold n in Hj.
  unfold dist.
  destruct (Nat.eqb_spec i n) as [He|Hn]; cbn [orb].
  - (* beyond the end: last element; all elements < v *)
    assert (nth j g 0 <= nth (i - 1) g 0) by (apply Hmono; lia).
    assert (nth (i-1) g 0 < v) by (apply Hlt; lia).
    assert (nth j g 0 < v) by (apply Hlt; lia).
    rewrite !Qabs_pos by lra. lra.
  - destruct (Nat.eq_dec i 0) as [H0|H0].
    + (* before the start: prev = nxt = g[0]; strict < is false *)
      rewrite H0. cbn [Nat.sub Nat.max Nat.min]. replace (Nat.min 0 (n-1)) with 0%nat by lia.
      destruct (Qltb _ _) eqn:E; [apply Qltb_spec in E; lra|].
      assert (v <= nth 0 g 0) by (apply Hge; lia).
      assert (nth 0 g 0 <= nth j g 0) by (apply Hmono; lia).
      rewrite !Qabs_neg by lra. lra.
    + replace (Nat.max (i-1) 0) with (i-1)%nat by lia. replace (Nat.min i (n-1)) with i by lia.
      assert (Hp : nth (i-1) g 0 < v) by (apply Hlt; lia).
      assert (Hn' : v <= nth i g 0) by (apply Hge; lia).
      destruct (Qltb _ _) eqn:E.
      * apply Qltb_spec in E. rewrite (Qabs_pos (v - nth (i-1) g 0)) in * by lra.
        rewrite (Qabs_neg (v - nth i g 0)) in E by lra.
        destruct (Nat.lt_ge_cases j i) as [Hji|Hji].
        -- assert (nth j g 0 <= nth (i-1) g 0) by (apply Hmono; lia).
           assert (nth j g 0 < v) by (apply Hlt; lia). rewrite Qabs_pos by lra. lra.
        -- assert (nth i g 0 <= nth j g 0) by (apply Hmono; lia). rewrite Qabs_neg by lra. lra.
      * assert (E' : ~ Qabs (v - nth (i-1) g 0) < Qabs (v - nth i g 0)) by (intros C; apply Qltb_spec in C; congruence).
        rewrite (Qabs_pos (v - nth (i-1) g 0)) in E' by lra.
        rewrite (Qabs_neg (v - nth i g 0)) in * by lra.
        destruct (Nat.lt_ge_cases j i) as [Hji|Hji].
        -- assert (nth j g 0 <= nth (i-1) g 0) by (apply Hmono; lia).
           assert (nth j g 0 < v) by (apply Hlt; lia). rewrite Qabs_pos by lra. lra.
        -- assert (nth i g 0 <= nth j g 0) by (apply Hmono; lia). rewrite Qabs_neg by lra. lra.
Qed.
Print Assumptions closest_is_nearest.
Example ex1 : get_closest [0; 1#2; 1] (3#4) == 1. Proof. reflexivity. Qed.   (* mid-point goes up *)
Example ex2 : get_closest [0; 1#2; 1] (-5) == 0 /\ get_closest [0; 1#2; 1] 7 == 1. Proof. split; reflexivity. Qed.
