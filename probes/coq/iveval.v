From Coq Require Import Reals ZArith List Lra.
From Interval Require Import Tactic.
From Interval Require Import Eval.Tree Interval.Interval Interval.Float Interval.Float_full Float.Specific_ops Float.Specific_bigint Real.Xreal Float.Basic.
Import ListNotations.
Module F := SpecificFloat BigIntRadix2.
Module I := FloatIntervalFull F.

(* supported fragment: everything except Tan/Atan/Nearbyint/Round/Bpow (not needed by the specs) *)
Fixpoint supported (e : expr) : bool :=
  match e with
  | Evar _ => true
  | Econst (Int _) => true | Econst Pi => true | Econst (Bpow _ _) => false
  | Eunary o a => (match o with Tan | Atan | Nearbyint _ | Round _ _ _ => false | _ => true end) && supported a
  | Ebinary _ a b => supported a && supported b
  end.

Fixpoint eval_x (e : expr) (env : list ExtendedR) : ExtendedR :=
  match e with
  | Evar n => nth n env Xnan
  | Econst (Int z) => Xreal (IZR z)
  | Econst Pi => Xreal PI
  | Econst (Bpow _ _) => Xnan
  | Eunary o a => let x := eval_x a env in
     match o with
     | Neg => Xneg x | Abs => Xabs x | Inv => Xinv x | Sqr => Xsqr x | Sqrt => Xsqrt x
     | Cos => Xcos x | Sin => Xsin x | Exp => Xexp x | Ln => Xln x | PowerInt n => Xpower_int x n
     | _ => Xnan end
  | Ebinary o a b => let x := eval_x a env in let y := eval_x b env in
     match o with Add => Xadd x y | Sub => Xsub x y | Mul => Xmul x y | Div => Xdiv x y end
  end.

Fixpoint eval_i (prec : I.precision) (e : expr) (env : list I.type) : I.type :=
  match e with
  | Evar n => nth n env I.nai
  | Econst (Int z) => I.fromZ prec z
  | Econst Pi => I.pi prec
  | Econst (Bpow _ _) => I.nai
  | Eunary o a => let x := eval_i prec a env in
     match o with
     | Neg => I.neg x | Abs => I.abs x | Inv => I.inv prec x | Sqr => I.sqr prec x | Sqrt => I.sqrt prec x
     | Cos => I.cos prec x | Sin => I.sin prec x | Exp => I.exp prec x | Ln => I.ln prec x
     | PowerInt n => I.power_int prec x n
     | _ => I.nai end
  | Ebinary o a b => let x := eval_i prec a env in let y := eval_i prec b env in
     match o with Add => I.add prec x y | Sub => I.sub prec x y | Mul => I.mul prec x y | Div => I.div prec x y end
  end.

Definition env_ok (bs : list I.type) (xs : list ExtendedR) : Prop :=
  forall n, contains (I.convert (nth n bs I.nai)) (nth n xs Xnan).

Lemma nai_contains x : contains (I.convert I.nai) x.
Proof. rewrite I.nai_correct; exact I. Qed.

Theorem eval_i_sound prec e bs xs : env_ok bs xs -> contains (I.convert (eval_i prec e bs)) (eval_x e xs).
Proof.
  intros Henv; induction e as [n | c | o a IHa | o a IHa b IHb]; cbn [eval_i eval_x].
  - apply Henv.
  - destruct c as [z | r n | ]; [apply I.fromZ_correct | apply nai_contains | apply I.pi_correct].
  - destruct o; try apply nai_contains.
    + now apply I.neg_correct. + now apply I.abs_correct. + now apply I.inv_correct.
    + now apply I.sqr_correct. + now apply I.sqrt_correct. + now apply I.cos_correct.
    + now apply I.sin_correct. + now apply I.exp_correct. + now apply I.ln_correct.
    + now apply I.power_int_correct.
  - destruct o.
    + now apply I.add_correct. + now apply I.sub_correct. + now apply I.mul_correct. + now apply I.div_correct.
Qed.

(* bridge to the plain real semantics Tree.eval *)
Lemma eval_x_real e vs r : eval_x e (map Xreal vs) = Xreal r -> Tree.eval e vs = r.
Proof.
  revert r; induction e as [n | c | o a IHa | o a IHa b IHb]; intros r; cbn [eval_x Tree.eval].
  - intros H. revert H. generalize dependent n. induction vs as [|v vs IH]; intros [|n]; cbn; try discriminate.
    + now intros [= ->]. + apply IH.
  - destruct c; cbn; try discriminate; now intros [= <-].
  - destruct (eval_x a (map Xreal vs)) as [|x] eqn:Ea; [destruct o; discriminate|].
    specialize (IHa x eq_refl); rewrite IHa.
    destruct o as [ | | | | | | | | | | | z | m | m emin p]; cbn; try discriminate; try (now intros [= <-]).
    + unfold Xinv'. destruct (is_zero x); [discriminate | now intros [= <-]].
    + unfold Xln'. destruct (is_positive x); [now intros [= <-] | discriminate].
    + unfold Xpower_int'. destruct z as [|p|p]; cbn; try (now intros [= <-]).
      destruct (is_zero x); [discriminate | now intros [= <-]].
  - destruct (eval_x a (map Xreal vs)) as [|x] eqn:Ea; [destruct o; discriminate|].
    destruct (eval_x b (map Xreal vs)) as [|y] eqn:Eb; [destruct o; discriminate|].
    rewrite (IHa x eq_refl), (IHb y eq_refl).
    destruct o; cbn; try (now intros [= <-]).
    unfold Xdiv'. destruct (is_zero y); [discriminate | now intros [= <-]].
Qed.

(* final user-facing corollary: a bounded enclosure certifies the real value *)
Theorem enclosure_sound prec e (bs : list I.type) (vs : list R) lo hi :
  env_ok bs (map Xreal vs) ->
  I.convert (eval_i prec e bs) = Interval.Ibnd (Xreal lo) (Xreal hi) ->
  (lo <= Tree.eval e vs <= hi)%R.
Proof.
  intros Henv Hc. pose proof (eval_i_sound prec e bs _ Henv) as H. rewrite Hc in H.
  destruct (eval_x e (map Xreal vs)) as [|r] eqn:E; [contradiction|].
  now rewrite (eval_x_real _ _ _ E).
Qed.
Print Assumptions enclosure_sound.
