From Coq Require Import ZArith List PrimFloat Uint63 FloatOps SpecFloat.
Import ListNotations.
Open Scope float_scope.
(* np.arange(0, 1.0000001, 0.1): start + i*((start+step)-start) *)
Definition arange_elt (start step : float) (i : Z) : float :=
  start + (of_uint63 (Uint63.of_Z i)) * ((start + step) - start).
Eval vm_compute in map (fun i => Prim2SF (arange_elt 0 0.1 i)) [7%Z; 8%Z].
Eval vm_compute in (arange_elt 0 0.1 7, arange_elt 0 0.1 7 + 0.1, arange_elt 0 0.1 8).
Eval vm_compute in (0.1 + 0.2 =? 0.3, 0.1 + 0.2).
Eval vm_compute in Prim2SF 0x1.7f5e7ece1412fp+281.
