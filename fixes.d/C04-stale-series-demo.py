"""Demo for C04-stale-series.patch: start a NEW run in a folder that holds the checkpoint of a different run.

Before the patch series_samp.h5 is appended in place from the row count found on disk, so the restored series are
those of the old run (more old rows: nothing is removed; fewer old rows: the first rows stay the old ones; another
ensemble size: TypeError inside calibrate()).  Exit status 0 = restored series equal the saved ones in all three cases.
usage: VERIF_REPO=<tree> python C04-stale-series-demo.py
"""
import contextlib, io, os, shutil, sys, tempfile
sys.path.insert(0, os.environ.get("VERIF_REPO", "/repo"))
import numpy as np
from black_it.calibrator import Calibrator
from black_it.loss_functions.minkowski import MinkowskiLoss
from black_it.samplers.halton import HaltonSampler
from black_it.samplers.random_uniform import RandomUniformSampler


def model(theta, N, seed):
    return theta[0] + np.random.default_rng(seed).normal(size=(N, 1))


def run(folder, seed, batches, ensemble=2):
    with contextlib.redirect_stdout(io.StringIO()):
        cal = Calibrator(loss_function=MinkowskiLoss(), real_data=np.zeros((3, 1)), model=model,
                         parameters_bounds=[[0.0], [10.0]], parameters_precision=[0.01], ensemble_size=ensemble,
                         samplers=[HaltonSampler(2), RandomUniformSampler(2)], saving_folder=folder, random_state=seed, n_jobs=1)
        cal.calibrate(batches)
        return cal, Calibrator.restore_from_checkpoint(folder, model)


bad = 0
for name, first, second in (("old run has more rows", (1, 3, 2), (2, 1, 2)), ("old run has fewer rows", (1, 1, 2), (2, 2, 2)),
                            ("old run has another ensemble size", (1, 1, 1), (2, 2, 2))):
    folder = tempfile.mkdtemp()
    try:
        run(folder, *first)
        cal, res = run(folder, *second)
        ok = res.series_samp.shape == cal.series_samp.shape and res.series_samp.tobytes() == cal.series_samp.tobytes()
        print(f"{name}: saved series {cal.series_samp.shape}, restored {res.series_samp.shape}, identical: {ok}")
    except Exception as e:  # noqa: BLE001
        ok = False
        print(f"{name}: {type(e).__name__}: {e}")
    bad += not ok
    shutil.rmtree(folder, ignore_errors=True)
sys.exit(1 if bad else 0)
