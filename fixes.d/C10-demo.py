#!/usr/bin/env python
"""Demonstration for fixes.d/C10-protocol.patch (RL scheduler <-> agent exchange).

Run with the tree under test on the path:   PYTHONPATH=/path/to/black-it python fixes.d/C10-demo.py
Exit status 1 (with the reasons) on a tree without the patch, 0 with it.

Part 1 uses ordinary threads: two sessions of three batches with the real RLScheduler, MABCalibrationEnv and a
logging agent.  Whatever the OS scheduling, before the patch something is left in a queue when end_session returns
(a stale action or the end marker) and, from the second session on, the reward of a batch is credited to a sampler
that did not run it.
Part 2 (only when the verification harness is importable, i.e. when run from the verification tree) replays, under
the cooperative scheduler of harness/props/c10_sched.py, the two witness schedules proved in coq/Properties/C10.v
(C10_never_learns_unexecuted_refuted_old, C10_queues_empty_refuted_old)."""
import os
import sys
import warnings

warnings.filterwarnings("ignore")
import numpy as np

from black_it.samplers.halton import HaltonSampler
from black_it.samplers.random_uniform import RandomUniformSampler
from black_it.schedulers.rl.agents.base import Agent
from black_it.schedulers.rl.envs.mab import MABCalibrationEnv
from black_it.schedulers.rl.rl_scheduler import RLScheduler


class LoggingAgent(Agent):
    def __init__(self):
        super().__init__(random_state=0)
        self.calls, self.learned = 0, []

    def policy(self, state):
        self.calls += 1
        return (self.calls // 2) % 2

    def learn(self, state, action, reward, next_state):
        self.learned.append((int(action), float(reward)))


def plain_threads():
    problems = []
    agent, env = LoggingAgent(), MABCalibrationEnv(2)
    sch = RLScheduler([RandomUniformSampler(batch_size=1), HaltonSampler(batch_size=1)], agent, env, random_state=0)
    executed, loss, b = [], 1024.0, 0
    for session in range(2):
        with sch.session():
            for _ in range(3):
                s = sch.get_next_sampler()
                executed.append(list(sch.samplers).index(s))
                loss /= 2
                sch.update(b, np.array([[0.0]]), np.array([loss]), None)
                b += 1
        left_a, left_o = env._out_queue.qsize(), env._in_queue.qsize()
        if left_a or left_o:
            problems.append(f"after session {session}: {left_a} action(s) and {left_o} outcome message(s) left in the queues")
    chosen = executed[1:]  # batch 0 is the bootstrap batch
    if [a for a, _ in agent.learned] != chosen:
        problems.append(f"samplers run on the agent's choice: {chosen}; samplers the agent was told it had chosen: "
                        f"{[a for a, _ in agent.learned]}")
    if any(r == 0.0 for _, r in agent.learned):
        problems.append("a learn call with the terminal reward 0.0 although every batch improved the loss "
                        "(the agent learnt from an action that never ran)")
    if len(agent.learned) != len(chosen):
        problems.append(f"{len(chosen)} batches chosen by the agent but {len(agent.learned)} learn calls")
    return problems


def controlled():
    here = os.path.dirname(os.path.abspath(__file__))
    sys.path.insert(0, os.path.join(here, "..", "harness"))
    try:
        from props import c10
    except Exception:  # noqa: BLE001
        return None
    cfg = {"sessions": [1], "losses": [256.0], "nsam": 2, "halton": 1, "agent": {"kind": "script", "script": [0, 1, 1, 0, 0]}}
    problems = []
    for name, sched in (("agent reads the flag before it is set", "MMMAMMMAAAM"), ("agent reads the flag after it is set", "MMMMMMAM")):
        o = c10.run_schedule(cfg, list(sched), lenient=True)
        for clause, text in c10.oracle(cfg, o, None):
            problems.append(f"schedule {sched} ({name}) -> followed {o['sched']}: {clause}: {text}")
    return problems


if __name__ == "__main__":
    p1 = plain_threads()
    p2 = controlled()
    for p in p1:
        print("plain threads :", p)
    for p in p2 or []:
        print("controlled    :", p)
    if p2 is None:
        print("(controlled replay skipped: verification harness not importable)")
    if p1 or p2:
        print("FAIL")
        sys.exit(1)
    print("PASS: queues empty after every session, one learn call per batch chosen by the agent, for the sampler that ran")
