"""Demo of the finding C04 input-dtype-widened (not repaired): the JSON/CSV/HDF5 back-end gives float32 real data back as float64.

Every value comes back exactly, but the dtype is lost (ndarray.tolist() -> json -> np.asarray(list)); with a loss that computes
statistics of the real series (method of moments) the restored calibrator does not continue like the saved one.
Exit status 0 = dtype kept and continuation identical.
"""
import contextlib, io, os, shutil, sys, tempfile, warnings
sys.path.insert(0, os.environ.get("VERIF_REPO", "/repo"))
warnings.filterwarnings("ignore")
import numpy as np
from black_it.calibrator import Calibrator
from black_it.loss_functions.msm import MethodOfMomentsLoss
from black_it.samplers.halton import HaltonSampler
from black_it.samplers.random_uniform import RandomUniformSampler


def model(theta, N, seed):
    return theta[0] + np.random.default_rng(seed).normal(size=(N, 1))


def quiet(f, *a, **k):
    with contextlib.redirect_stdout(io.StringIO()):
        return f(*a, **k)


d = tempfile.mkdtemp()
real = (np.arange(8.0) / 7).astype(np.float32).reshape(8, 1)
cal = quiet(Calibrator, loss_function=MethodOfMomentsLoss(), real_data=real, model=model, parameters_bounds=[[0.0], [1.0]],
            parameters_precision=[0.01], ensemble_size=2, samplers=[RandomUniformSampler(2), HaltonSampler(2)], verbose=False,
            saving_folder=d, random_state=3, n_jobs=1)
quiet(cal.calibrate, 2)
res = quiet(Calibrator.restore_from_checkpoint, d, model)
print("real_data dtype: saved", cal.real_data.dtype, "restored", res.real_data.dtype,
      "| values equal:", bool(np.array_equal(cal.real_data.astype(np.float64), res.real_data)))
a, b = quiet(cal.calibrate, 2), quiet(res.calibrate, 2)
same = a[1].tobytes() == b[1].tobytes()
print("losses after two further batches identical:", same)
if not same:
    i = int(np.flatnonzero(a[1] != b[1])[0])
    print(f"  e.g. {a[1][i]!r} (original) vs {b[1][i]!r} (restored)")
shutil.rmtree(d, ignore_errors=True)
sys.exit(0 if cal.real_data.dtype == res.real_data.dtype and same else 1)
