"""Demo of the finding C04 config-scalar-unserialisable (not repaired): numpy scalars in the configuration.

random_state=np.int64(..) (what rng.integers() returns): the JSON back-end raises TypeError inside calibrate() after the first batch;
the SQLite back-end stores the scalar as an 8-byte BLOB and gives back bytes (and verbose=np.bool_(False) as True).
Exit status 0 = both back-ends give the values back.
"""
import contextlib, io, os, shutil, sys, tempfile, warnings
sys.path.insert(0, os.environ.get("VERIF_REPO", "/repo"))
warnings.filterwarnings("ignore")
import numpy as np
from black_it.calibrator import Calibrator
from black_it.loss_functions.minkowski import MinkowskiLoss
from black_it.samplers.random_uniform import RandomUniformSampler
from black_it.utils import sqlite3_checkpointing as sq


def model(theta, N, seed):
    return theta[0] + np.random.default_rng(seed).normal(size=(N, 1))


ok = True
d = tempfile.mkdtemp()
cal = Calibrator(loss_function=MinkowskiLoss(), real_data=np.zeros((5, 1)), model=model, parameters_bounds=[[0.0], [1.0]],
                 parameters_precision=[0.01], ensemble_size=1, samplers=[RandomUniformSampler(2)], verbose=False,
                 saving_folder=d, random_state=np.random.default_rng(0).integers(1000), n_jobs=1)
try:
    with contextlib.redirect_stdout(io.StringIO()):
        cal.calibrate(1)
        res = Calibrator.restore_from_checkpoint(d, model)
    print("json back-end: restored random_state", repr(res.random_state))
    ok = ok and res.random_state == cal.random_state
except Exception as e:  # noqa: BLE001
    print(f"json back-end: calibrate(1) with random_state={cal.random_state!r} ({type(cal.random_state).__name__}) raised "
          f"{type(e).__name__}: {e}; files in the folder: {sorted(os.listdir(d))}")
    ok = False
gs = np.random.default_rng(0).bit_generator.state
q = tempfile.mkdtemp()
sq.save_calibrator_state(q, np.array([[0.0], [1.0]]), np.array([0.1]), np.zeros((3, 1)), np.int64(2), 3, 1, None, np.bool_(False), None,
                         np.int64(7), gs, "m", [RandomUniformSampler(1)], MinkowskiLoss(), 1, np.zeros((1, 1)), np.zeros(1),
                         np.zeros((1, 2, 3, 1)), np.zeros(1, dtype=int), np.zeros(1, dtype=int))
out = sq.load_calibrator_state(q)
print(f"sqlite back-end: ensemble_size saved np.int64(2) loaded {out[3]!r}; verbose saved np.bool_(False) loaded {out[7]!r}; "
      f"random_state saved np.int64(7) loaded {out[9]!r}")
ok = ok and out[3] == 2 and out[7] is False and out[9] == 7
shutil.rmtree(d, ignore_errors=True)
shutil.rmtree(q, ignore_errors=True)
sys.exit(0 if ok else 1)
