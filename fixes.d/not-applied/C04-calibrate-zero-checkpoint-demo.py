"""Demo for C04-calibrate-zero-checkpoint.patch: calibrate(0) with a saving folder must leave the returned state in the folder.

Before the patch calibrate(0) changes the calibrator (samplers reseeded, generator advanced) but writes nothing: the
folder does not even exist.  Needs C04-empty-table-dtype.patch for the restored dtypes.  Exit status 0 = the folder
restores to the state calibrate(0) returned with.
"""
import contextlib, io, os, pickle, shutil, sys, tempfile
sys.path.insert(0, os.environ.get("VERIF_REPO", "/repo"))
import numpy as np
from black_it.calibrator import Calibrator
from black_it.loss_functions.minkowski import MinkowskiLoss
from black_it.samplers.halton import HaltonSampler


def model(theta, N, seed):
    return theta[0] + np.random.default_rng(seed).normal(size=(N, 1))


folder = os.path.join(tempfile.mkdtemp(), "ckpt")
with contextlib.redirect_stdout(io.StringIO()):
    cal = Calibrator(loss_function=MinkowskiLoss(), real_data=np.zeros((3, 1)), model=model, parameters_bounds=[[0.0], [1.0]],
                     parameters_precision=[0.01], ensemble_size=1, samplers=[HaltonSampler(2)], saving_folder=folder,
                     random_state=0, n_jobs=1)
    cal.calibrate(0)
try:
    with contextlib.redirect_stdout(io.StringIO()):
        res = Calibrator.restore_from_checkpoint(folder, model)
    ok = (res.random_generator.bit_generator.state == cal.random_generator.bit_generator.state
          and pickle.dumps(res.scheduler) == pickle.dumps(cal.scheduler) and res.current_batch_index == 0)
    print("folder restores to the state calibrate(0) returned with:", ok)
except Exception as e:  # noqa: BLE001
    ok = False
    print(f"restore after calibrate(0): {type(e).__name__}: {e}")
shutil.rmtree(os.path.dirname(folder), ignore_errors=True)
sys.exit(0 if ok else 1)
