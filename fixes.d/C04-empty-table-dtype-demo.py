"""Demo for C04-empty-table-dtype.patch: checkpoint a calibrator that has not run a batch yet, restore it, calibrate.

Before the patch the four CSV-borne arrays of the restored calibrator have dtype object (pandas infers `object` for a
table without rows) and the first calibrate() on it raises TypeError.  Exit status 0 = dtypes preserved and calibrate works.
"""
import contextlib, io, os, shutil, sys, tempfile
sys.path.insert(0, os.environ.get("VERIF_REPO", "/repo"))
import numpy as np
from black_it.calibrator import Calibrator
from black_it.loss_functions.minkowski import MinkowskiLoss
from black_it.samplers.halton import HaltonSampler


def model(theta, N, seed):
    return theta[0] + np.random.default_rng(seed).normal(size=(N, 1))


folder = tempfile.mkdtemp()
with contextlib.redirect_stdout(io.StringIO()):
    cal = Calibrator(loss_function=MinkowskiLoss(), real_data=np.zeros((3, 1)), model=model, parameters_bounds=[[0.0], [1.0]],
                     parameters_precision=[0.01], ensemble_size=1, samplers=[HaltonSampler(2)], random_state=0, n_jobs=1)
    cal.create_checkpoint(folder)
    res = Calibrator.restore_from_checkpoint(folder, model)
bad = 0
for a in ("params_samp", "losses_samp", "batch_num_samp", "method_samp"):
    x, y = getattr(cal, a), getattr(res, a)
    print(f"{a}: saved {x.dtype}{x.shape} restored {y.dtype}{y.shape}")
    bad += x.dtype != y.dtype or x.shape != y.shape
try:
    with contextlib.redirect_stdout(io.StringIO()):
        res.calibrate(1)
    print("calibrate(1) on the restored calibrator: ok")
except Exception as e:  # noqa: BLE001
    print(f"calibrate(1) on the restored calibrator: {type(e).__name__}: {e}")
    bad += 1
shutil.rmtree(folder, ignore_errors=True)
sys.exit(1 if bad else 0)
