"""Demo for C04-sqlite-scalar-types.patch: the SQLite back-end must give back the scalars with their types.

Before the patch an integer convergence_precision comes back as a float (column declared DOUBLE: 3 -> 3.0), which
Calibrator.check_convergence cannot use (np.round(x, 3.0) raises TypeError), and verbose comes back as 0/1.
Exit status 0 = types preserved.
"""
import os, shutil, sys, tempfile
sys.path.insert(0, os.environ.get("VERIF_REPO", "/repo"))
import numpy as np
from black_it.calibrator import Calibrator
from black_it.utils.sqlite3_checkpointing import load_calibrator_state, save_calibrator_state

d = tempfile.mkdtemp()
gs = np.random.default_rng(0).bit_generator.state
save_calibrator_state(d, np.array([[0.0], [1.0]]), np.array([0.1]), np.zeros((3, 1)), 1, 3, 1, 3, True, None, 0, gs, "m", ["s"], "l", 1,
                      np.array([[0.5]]), np.array([0.25]), np.zeros((1, 1, 3, 1)), np.array([0]), np.array([0]))
out = load_calibrator_state(d)
prec, verbose = out[6], out[7]
print(f"convergence_precision: saved 3 (int), loaded {prec!r} ({type(prec).__name__}); verbose: saved True, loaded {verbose!r}")
ok = type(prec) is int and type(verbose) is bool
try:
    Calibrator.check_convergence(np.array([0.25]), 1, prec)
    print("check_convergence with the loaded precision: ok")
except TypeError as e:
    print("check_convergence with the loaded precision: TypeError:", e)
    ok = False
shutil.rmtree(d, ignore_errors=True)
sys.exit(0 if ok else 1)
