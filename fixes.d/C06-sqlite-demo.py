"""Demo for fixes.d/C06-sqlite.patch (run: PYTHONPATH=<tree> /venv/bin/python fixes.d/C06-sqlite-demo.py).

A checkpoint s0 is saved with the SQLite back-end; a second save fails inside the INSERT (its 12th bound value cannot
be adapted by sqlite3 - the kind of error a user-provided object can cause).  Before the patch the DELETE had already
been committed by executescript: the table is empty and load_calibrator_state raises.  After the patch the DELETE is
rolled back together with the failed INSERT and the previous checkpoint is still loadable.
"""
import shutil
import sys
import tempfile
from pathlib import Path

import numpy as np

from black_it.utils.sqlite3_checkpointing import load_calibrator_state, save_calibrator_state


def state(tag, model_name):
    g = np.random.default_rng(tag)
    return [np.array([[0.0, 1.0]]).T, np.array([0.5]), g.standard_normal((5, 1)), 2, 5, 1, None, True, "folder", tag,
            g.bit_generator.state, model_name, ["sampler", tag], "loss", 3, g.random((3, 1)), g.random(3),
            g.random((3, 2, 5, 1)), np.arange(3), np.zeros(3, dtype=int)]


folder = Path(tempfile.mkdtemp()) / "ckpt"
try:
    save_calibrator_state(folder, *state(0, "model"))
    print("saved checkpoint 0; loaded batch index:", load_calibrator_state(folder)[14], "seed:", load_calibrator_state(folder)[9])
    try:
        save_calibrator_state(folder, *state(1, object()))  # model_name is not a supported SQL type -> INSERT fails
    except Exception as e:  # noqa: BLE001
        print("second save failed as intended:", type(e).__name__, e)
    try:
        loaded = load_calibrator_state(folder)
        ok = loaded[9] == 0
        print("after the failed save the previous checkpoint is loadable, seed:", loaded[9], "->", "OK" if ok else "WRONG")
        sys.exit(0 if ok else 1)
    except Exception as e:  # noqa: BLE001
        print("after the failed save the previous checkpoint is LOST:", type(e).__name__, e)
        sys.exit(1)
finally:
    shutil.rmtree(folder.parent, ignore_errors=True)
