"""Demo for fixes.d/C06-json.patch (run: PYTHONPATH=<tree> /venv/bin/python fixes.d/C06-json-demo.py).

A calibrator is checkpointed after one batch (3 parameters), runs one more batch (5 parameters) and the second
create_checkpoint is interrupted when it is about to write calibration_results.csv (an exception raised by to_csv -
any error or a process stop at that moment leaves the same files).  Before the patch the folder then
restores WITHOUT ANY ERROR into a calibrator whose counters belong to the second checkpoint (batch index 2, 5 sampled
parameters) and whose records belong to the first (3 rows).  After the patch the restore raises
InconsistentCheckpointError, and a restore after a completed save works as before.
"""
import contextlib
import io
import shutil
import sys
import tempfile
from pathlib import Path

import numpy as np

from black_it.calibrator import Calibrator
from black_it.loss_functions.minkowski import MinkowskiLoss
from black_it.samplers.halton import HaltonSampler
from black_it.samplers.random_uniform import RandomUniformSampler


def model(theta, N, seed):  # noqa: N803
    return np.random.default_rng(seed).normal(theta[0], 1.0, size=(N, 1))


folder = Path(tempfile.mkdtemp()) / "ckpt"
quiet = contextlib.redirect_stdout(io.StringIO())
try:
    with quiet:
        cal = Calibrator(loss_function=MinkowskiLoss(), real_data=model([0.3], 20, 0), model=model,
                         parameters_bounds=[[0.0], [1.0]], parameters_precision=[0.01], ensemble_size=2,
                         samplers=[HaltonSampler(batch_size=3), RandomUniformSampler(batch_size=2)], random_state=1)
        cal.calibrate(1)
        cal.create_checkpoint(folder)
        cal.calibrate(1)

    class Boom(Exception):
        pass

    def failing_to_csv(self, *args, **kwargs):
        raise Boom

    import pandas as pd

    original_to_csv = pd.DataFrame.to_csv
    pd.DataFrame.to_csv = failing_to_csv
    try:
        with quiet:
            cal.create_checkpoint(folder)
    except Boom:
        print("second create_checkpoint interrupted when it was about to write calibration_results.csv")
    finally:
        pd.DataFrame.to_csv = original_to_csv
    try:
        with quiet:
            r = Calibrator.restore_from_checkpoint(str(folder), model=model)
        print(f"restore succeeded silently: batch index {r.current_batch_index}, n_sampled_params {r.n_sampled_params}, "
              f"rows in params_samp {len(r.params_samp)}, rows in series_samp {len(r.series_samp)}")
        hybrid = r.n_sampled_params != len(r.params_samp)
        print("-> SILENT HYBRID (counters of the new checkpoint, records of the old)" if hybrid else "-> consistent")
        rc = 1 if hybrid else 0
    except Exception as e:  # noqa: BLE001
        print("restore raised:", type(e).__name__, "-", str(e)[:150])
        rc = 0
    with quiet:
        cal.create_checkpoint(folder)
        r = Calibrator.restore_from_checkpoint(str(folder), model=model)
    print(f"after a completed save: batch index {r.current_batch_index}, n_sampled_params {r.n_sampled_params}, rows "
          f"{len(r.params_samp)} / {len(r.series_samp)}")
    sys.exit(rc)
finally:
    shutil.rmtree(folder.parent, ignore_errors=True)
