#!/usr/bin/env python3
"""Regenerates the data-driven tail of DESIGN.md (sections 9.4 - 9.7) from fixed.json, findings.d, seeded/*/meta.json,
manifest.d, evidence/ and design.d/."""
import glob
import json
import os
import re
import subprocess
from pathlib import Path

ROOT = Path(__file__).resolve().parent.parent


def main():
    txt = (ROOT / "DESIGN.md").read_text()
    marker = "### 9.4 Genuine defects"
    head = txt[: txt.index(marker)].rstrip() + "\n\n"
    out = []

    # ---------------------------------------------------------------- 9.4 defects
    out.append("### 9.4 Genuine defects of the pinned tree and their disposition\n")
    out.append("Each was exhibited by the machinery on the then-current tree (oracle failure with a concrete input, quoted below), repaired by one "
               "minimal `fix:` commit in `/repo` (the 84 pinned tests pass unedited after each), and is listed as a `fixed:` line in "
               "`known_findings.json` (which suppresses nothing: the check passes on the repaired tree and reports the violation again if it "
               "returns - reverting a commit in a scratch tree makes the named check fail). The models follow the repaired code; the "
               "pre-repair behaviour is kept in the Coq development as `…_refuted` / `step_old` / `Legacy` definitions where it was modelled.\n")
    out.append("| property | commit | what failed |")
    out.append("|---|---|---|")
    for line in json.loads((ROOT / "harness" / "fixed.json").read_text()):
        m = re.match(r"fixed: property=(C\d+) (\w+) (.*)", line)
        out.append(f"| {m.group(1)} | {m.group(2)} | {m.group(3)} |")
    out.append("")
    log = subprocess.run(["git", "-C", "/repo", "log", "--format=%h %s", "d0e6d58..HEAD"], capture_output=True, text=True).stdout.strip().splitlines()
    out.append(f"`/repo` now carries {len(log)} commits on top of the pinned snapshot d0e6d58, all `fix:` commits, no hook commit "
               "(all instrumentation is done from the harness by subclassing / wrapping; `MANIFEST.hooks.source_commits = []`):\n")
    out += [f"* `{l}`" for l in reversed(log)]
    out.append("")
    out.append("**Kept as findings** (genuine defects recorded rather than repaired; each check prints `KNOWN-FINDING` for exactly the listed "
               "descriptor and still exits 1 for any other violation):\n")
    for f in sorted(glob.glob(str(ROOT / "harness" / "findings.d" / "C*.json"))):
        for e in json.loads(open(f).read()):
            out.append(f"* **{e['property']} `{e['id']}`** (match `{json.dumps(e['match'])}`): {e['what']}")
    out.append("")

    # ---------------------------------------------------------------- 9.5 seeded
    rows = []
    for d in sorted(glob.glob(str(ROOT / "seeded" / "*" / "meta.json"))):
        m = json.load(open(d))
        k = os.path.basename(os.path.dirname(d))
        c = m["caught_by"]
        builder = str(m.get("source", "")).startswith("builder")
        if k == "C11-1" or c.startswith("made harmless"):
            st = "made harmless by a repair"
        elif c.startswith("MISSED by the swept version of round 4"):
            st = "missed in round 4 (after the sweep), caught after strengthening"
        elif builder and c.startswith("MISSED"):
            st = "builder mutation (round 4): missed by the previous version, caught after the sweep"
        elif builder:
            st = "builder mutation (round 4): caught"
        elif c.startswith("MISSED by the version before round 4"):
            st = "missed in round 4, caught after strengthening"
        elif c.startswith("MISSED by the version before round 3"):
            st = "missed in round 3, caught after strengthening"
        elif c.startswith("MISSED by the version before round 2"):
            st = "missed in round 2, caught after strengthening"
        elif c.startswith("MISSED"):
            st = "missed first, caught after strengthening"
        elif "correspondence" in c and ("only" in c or "through the model correspondence" in c):
            st = "correspondence only"
        else:
            st = "caught"
        rows.append((k, m["needs"], st, re.sub(r"^MISSED by the (?:first version|version before round [234]|swept version of round 4)(?: \((.*?)\))?; ", lambda m: "missed at first" + (f" ({m.group(1)})" if m.group(1) else "") + "; ", c)))
    out.append("### 9.5 Seeded changes (independent sub-agents, property text only; plus the builders' own mutations of round 4) and which checks catch them\n")
    out.append("Each directory `seeded/<id>-<n>/` holds `patch.diff`, `demo.py` (exit 0 on the clean tree, non-zero on the patched tree - confirmed "
               "by `harness/run_seeded.sh`, which applies the patch to a scratch worktree of `/repo`'s HEAD, runs the demo on both trees and runs "
               "the check with `VERIF_REPO=<patched tree>`; the 84 pinned tests pass with each patch) and `meta.json`.\n")
    out.append("| seeded | needs, to manifest | result | how |")
    out.append("|---|---|---|---|")
    for k, needs, st, how in rows:
        out.append(f"| {k} | {needs} | {st} | {how} |")
    cnt = {s: sum(1 for r in rows if r[2] == s) for s in {r[2] for r in rows}}
    out.append("")
    out.append(f"Summary: {len(rows)} seeded changes - " + ", ".join(f"{v} {k}" for k, v in sorted(cnt.items())) + ". "
               "What was strengthened after a miss: signed zeros in C12; exact-zero losses for RL in C09; below-only / above-only float32 "
               "histories in C02; aliasing moment calculators in C08; per-class restore sweep with several seeds in C05; 3-d arrays in C17; reused "
               "loss objects in C07; files and databases larger than a buffer / page cache in C06; a timed `join` as a sync point in C10; other-run "
               "folders sharing rows with the new run in C04; and after round 2: faulted traces in C09, empty other-layout folders in C04, in-place "
               "previous commits in C06, non-float64 real data in C02, reused declaration arrays in C03, NaN losses and crash-and-resume "
               "(Exception and KeyboardInterrupt flavours) in C05/C11, a parameter-mutating model and a >500-point history in C01, "
               "second constructions on the caller's own arrays in C15, integer-typed and reused grid objects in C17, the caller's own array "
               "(kept and passed twice) in C20, one-sided float32 overflow in C16; and after round 3 "
               "(changes asked to be interactions of two features, almost-equivalent optimisations, bookkeeping at a slightly wrong moment): RL "
               "twins with a reward-driven agent, small-unit losses and several constructor seeds in C01; real samplers on exhausted "
               "spaces with a model-call log in C02; more than ten parameters and sim_length in C04; early-stop resumes and used folders in "
               "C05; integer data, far-from-origin likelihood and reuse on another length in C07; near-coincident ensembles in C08; the "
               "exchange observed through Calibrator.calibrate in C10; faults raised by the built-in samplers themselves in C11; a reassigned "
               "pass budget in C12; exact powers as the last index and rejected requests in C13; float32 arrays and spaces beyond 2^63 points in "
               "C15; mixed integer / fractional grids in C17; concurrent re-evaluation in C20. Round 4 turned that lesson into a systematic "
               "*generator sweep* (`harness/seed_templates/SWEEP.md`): for every check a builder went through seven dimensions - representation "
               "of inputs (dtype, container, layout, read-only), object reuse, attributes reassigned after construction, sizes at thresholds, "
               "non-default configuration, sequences with a rejected / failing call, almost-equivalent numerics - extended the generators where "
               "the property's quantifier covers the dimension, wrote its own mutations (`seeded/Cxx-m*`, marked not independent) and measured "
               "how many the previous version missed (typically 6-9 of 10-14); the sweep also surfaced further genuine defects of `/repo` "
               "(§9.4). A fourth round of independent seeds (input handling / life-cycle / thresholds and numerics) was then run against the "
               "swept checks. The lesson repeated across them: generators must include the boundary of "
               "*representation* (signed zero, exact zero, dtype, array rank, buffer size) and *object reuse* (the same loss / sampler / folder used "
               "twice), not only the boundary of the mathematical domain.\n")

    # ---------------------------------------------------------------- 9.6 per property
    out.append("### 9.6 Per-property status as built\n")
    out.append("`design.d/Cxx.md` (written by the builder of each check) is authoritative for what is modelled line by line, tolerances and "
               "deviations from §4; this table is generated from the evidence files of the last run.\n")
    out.append("| id | obligations (= discharged) | axioms under the property theorems | quick evaluations (non-trivial) | design note |")
    out.append("|---|---|---|---|---|")
    for i in range(1, 21):
        pid = f"C{i:02d}"
        ev = ROOT / "evidence" / f"{pid}.json"
        if not ev.exists():
            continue
        e = json.loads(ev.read_text())["coverage"]
        ax = [t for t in e["trusted_base"] if t.startswith("axioms")][0].split(": ", 1)[1]
        if ax.startswith("none"):
            ax = "none (closed under the global context)"
        else:
            names = [a.strip() for a in ax.split(",")]
            prim = [a for a in names if a.startswith(("PrimInt63.", "Uint63.", "PrimFloat.", "FloatAxioms."))]
            rest = [a for a in names if a not in prim]
            ax = ", ".join(rest) + (f", + {len(prim)} primitive int/float specifications (PrimInt63.*, Uint63.*)" if prim else "")
        note = f"design.d/{pid}.md" if (ROOT / "design.d" / f"{pid}.md").exists() else ("§4 (built as designed)" if pid == "C12" else "§4 / §9.2 (shared calibrator model)")
        out.append(f"| {pid} | {e['obligations']} | {ax} | {e.get('evaluations')} ({e.get('distinct_nontrivial')}) | {note} |")
    out.append("")

    # ---------------------------------------------------------------- 9.7 trusted base as built
    out.append("### 9.7 Trusted base as built\n")
    out.append("""* Coq 8.16.1 kernel and `vm_compute`; no `native_compute`, no extraction (hence no `Extract` directive), no `-type-in-type`, no
  guard/positivity/universe switch; the source scan in every check run rejects `Admitted|admit|Axiom|Parameter|Conjecture|…`.
  `coqchk -silent -o` is run on the property file in the thorough tier (its axiom list - that of every loaded library - is copied
  into the evidence). At the end of the build `coqchk` was run once more on all 20 property files: exit status 0 for each, "relying on
  type-in-type: <none>, unsafe (co)fixpoints: <none>, positivity assumed: <none>".
* Axioms: none are declared by this development. Property files C01-C06, C08-C12, C14-C19 are closed under the global context.
  C07, C13 (the five `phi_*` theorems) and C20 (`C20_ln_data_certified`) rest on the standard-library / CoqInterval axioms
  `ClassicalDedekindReals.sig_forall_dec`, `ClassicalDedekindReals.sig_not_dec`, `FunctionalExtensionality.functional_extensionality_dep`,
  `Classical_Prop.classic` and the primitive-integer specifications `Uint63.*_spec` / `PrimInt63.*` used by CoqInterval's BigZ; C15 and C17
  additionally load `PrimFloat`/`FloatAxioms` for a bit-exact diagnostic instance (no theorem depends on it).
* Hand-written models, tied to the code by the correspondence of each check (the cases the implementation ran are evaluated by the very
  definitions the theorems are about); generators, instrumentation wrappers and literal emitters in `harness/` are trusted not to hide a
  disagreement.
* Modelled, not verified: numpy (`unique`, `argsort`, `searchsorted`, `arange`, `vstack/hstack/repeat/reshape`, `round`), numpy `Generator`
  (stream = function of the seed; recorded draws are inputs), `joblib.Parallel` (tasks generated in the parent in order), `pickle`, `json`,
  `pandas.to_csv/read_csv(float_precision="round_trip")`, `h5py`, `sqlite3` transaction semantics, `hashlib.sha256` (injective on the
  files compared), scipy/sklearn/xgboost/statsmodels numerics, CPython executing the code between two synchronisation points without
  touching shared state (C10), the OS/filesystem at process death (C06).
""")
    # ---------------------------------------------------------------- 9.8 numbers at a glance
    tot_obl = tot_eval = 0
    for i in range(1, 21):
        ev = ROOT / "evidence" / f"C{i:02d}.json"
        if ev.exists():
            e = json.loads(ev.read_text())["coverage"]
            tot_obl += int(e.get("obligations", 0))
            tot_eval += int(e.get("evaluations", 0) or 0)
    nfind = sum(len(json.loads(open(f).read())) for f in glob.glob(str(ROOT / "harness" / "findings.d" / "C*.json")))
    nfixed = len(json.loads((ROOT / "harness" / "fixed.json").read_text()))
    vfiles = glob.glob(str(ROOT / "coq" / "*" / "*.v"))
    vlines = sum(sum(1 for _ in open(f)) for f in vfiles)
    out.append("### 9.8 Numbers at a glance (generated)\n")
    out.append(f"* 20 of 20 properties have a registered check (`not_applicable` is empty); {tot_obl} property theorems (obligations of the proof gate, "
               f"each re-checked by `make` and `Print Assumptions` on every run) over {len(vfiles)} Coq files / {vlines} lines; "
               f"{tot_eval} model-vs-implementation evaluations in one quick pass of all checks.")
    out.append(f"* `/repo`: {len(log)} `fix:` commits ({nfixed} `fixed:` lines in `known_findings.json`), {nfind} defects kept as findings, no hook commit.")
    out.append(f"* `seeded/`: {len(rows)} changes that break a property while the 84 pinned tests pass - "
               f"{sum(1 for r in rows if not r[2].startswith('builder'))} from independent sub-agents in five rounds (miss rate of the then-current checks: "
               "10/42, 21/60, 22/60, 5/42 after the generator sweep, and 0/15 in the short fifth round - C02-12, C03-12, C07-12, C08-12, C09-9, C11-9, C12-12, C13-12, C14-9, C15-9, C16-12, C17-12, C18-9, C19-12, C20-12 - run against the final checks) and "
               f"{sum(1 for r in rows if r[2].startswith('builder'))} mutations written by the sweep builders; all independent ones were re-run against the final checks at the end of the build (every one "
               "is reported, except the two that a repair made harmless: C11-1, C03-9); the builders' mutations were run by their builders after the "
               "sweep, those whose patch touched code changed by a later repair were rebased and re-run.\n")
    (ROOT / "DESIGN.md").write_text(head + "\n".join(out) + "\n")


if __name__ == "__main__":
    main()
