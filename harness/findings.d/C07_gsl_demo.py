"""Stand-alone demonstration of the kept C07 finding `gsl-base10-words` (run: PYTHONPATH=/repo /venv/bin/python this_file).

GslDivLoss.get_words packs a word of symbols s_0..s_{l-1} as sum s_i * 10^(l-1-i) (gsl_div.py:262-266).  With 10 or more
symbols the packing is not injective ([1,12] and [2,2] are both 22), so the word statistics - and the loss - differ from
the definition, in which words are tuples of symbols.
"""
import math
from collections import Counter

import numpy as np
from black_it.loss_functions.gsl_div import GslDivLoss

sim = np.array([0, 11, 1, 1, 0, 11, 1, 1, 5, 7, 0, 11], dtype=float)
real = np.array([11, 0, 3, 1, 1, 9, 0, 11, 1, 1, 2, 4], dtype=float)
b, L, T = 12, 2, len(real)

print("get_words([1,12],2) =", GslDivLoss.get_words(np.array([1, 12]), 2), " get_words([2,2],2) =",
      GslDivLoss.get_words(np.array([2, 2]), 2))
got = GslDivLoss(nb_values=b, nb_word_lengths=L).compute_loss(sim[None, :, None], real[:, None])


def reference(pack):
    sx = GslDivLoss.discretize(sim, b, sim.min(), sim.max()).tolist()
    ox = GslDivLoss.discretize(real, b, real.min(), real.max()).tolist()

    def words(s, l):
        ws = [tuple(s[i:i + l]) for i in range(T + 1 - l)]
        return [sum(v * 10 ** (l - 1 - i) for i, v in enumerate(w)) for w in ws] if pack else ws

    def H(ws, base):
        c, n = Counter(ws), len(ws)
        return -sum(k / n * math.log(k / n) for k in c.values()) / math.log(base), len(c)

    tot = 0.0
    for l in range(1, L + 1):
        sw, ow = words(sx, l), words(ox, l)
        hs, ns = H(sw, b**l)
        hm, nm = H(sw + ow, b**l)
        tot += (2 * l / (L * (L + 1))) * (2 * hm - hs + (nm - ns) / (2 * T))
    return tot


print("compute_loss            :", got)
print("definition (tuple words):", reference(False))
print("base-10 packed words    :", reference(True))
