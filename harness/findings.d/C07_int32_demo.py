"""C07 finding `likelihood-int32-wraparound`: kernel likelihood of int32 arrays whose values differ by more than 46340.

Run:  PYTHONPATH=/repo /venv/bin/python harness/findings.d/C07_int32_demo.py   (exit 1 when the defect is present)

likelihood.py:105-112 forms (sim - real) ** 2 in the dtype of the arrays.  For int32 arrays the square of a difference
above 46340 does not fit in 32 bits and wraps; the value returned is that of other distances.  The same numbers handed over
as int64 or float64 arrays give the documented value.
"""
import math
import sys

import numpy as np

from black_it.loss_functions.likelihood import LikelihoodLoss

sim = np.array([[[0], [50000], [100000]]])          # one member, three points, one coordinate
real = np.array([[100000], [0]])
h = 32768.0


def definition(sim, real, h):
    r, s, d = sim.shape
    tot = 0.0
    for e in range(r):
        for t in range(real.shape[0]):
            k = [math.exp(-sum((float(sim[e, j, c]) - float(real[t, c])) ** 2 for c in range(d)) / d / (2 * h * h))
                 / (h**d * (2 * math.pi) ** (d / 2)) for j in range(s)]
            tot += math.log(sum(k) / s)
    return -tot / r


ref = definition(sim, real, h)
v64 = LikelihoodLoss(h=h).compute_loss(sim.astype(np.int64), real.astype(np.int64))
v32 = LikelihoodLoss(h=h).compute_loss(sim.astype(np.int32), real.astype(np.int32))
print(f"definition {ref!r}\nint64      {v64!r}\nint32      {v32!r}")
sys.exit(0 if abs(v32 - ref) <= 1e-9 * max(1, abs(ref)) else 1)
