"""Demonstration of the known finding C05 / likelihood-real-data-layout (run with PYTHONPATH=<repo> /venv/bin/python).

Fortran-ordered real data (what pandas.DataFrame.to_numpy() returns), LikelihoodLoss, ensemble of two: a calibration stopped
after 2 of 6 batches, restored from its checkpoint and continued differs from the uninterrupted calibrate(6), because the
checkpoint gives the real data back C-ordered and LikelihoodLoss's summation order follows the strides of the real data.
Exit status 1 when the defect is present, 0 when the two histories are bitwise equal.
"""
import contextlib
import io
import shutil
import sys
import tempfile

import numpy as np

from black_it.calibrator import Calibrator
from black_it.loss_functions.likelihood import LikelihoodLoss
from black_it.samplers.best_batch import BestBatchSampler
from black_it.samplers.halton import HaltonSampler
from black_it.samplers.random_uniform import RandomUniformSampler


def model(theta, N, seed):  # noqa: N803
    rng = np.random.default_rng(seed)
    x = np.zeros((N, 2))
    e = rng.standard_normal((N, 2))
    for t in range(1, N):
        x[t] = float(theta[0]) * x[t - 1] + e[t] * (0.5 + abs(float(theta[1])))
    return x


def build(folder):
    real = np.asfortranarray(model([0.5, 0.3], 24, 12345))
    return Calibrator(loss_function=LikelihoodLoss(), real_data=real, model=model, parameters_bounds=[[-0.9, 0.0], [0.9, 1.0]],
                      parameters_precision=[0.01, 0.01], ensemble_size=2,
                      samplers=[HaltonSampler(3), RandomUniformSampler(3), BestBatchSampler(3)], verbose=False,
                      saving_folder=folder, random_state=7, n_jobs=1)


real = np.random.default_rng(5).random((8, 2))
sim = np.random.default_rng(1005).random((2, 8, 2))
a, b = LikelihoodLoss().compute_loss(sim, real), LikelihoodLoss().compute_loss(sim, np.asfortranarray(real))
print("same series, C-ordered real data:", repr(a), " Fortran-ordered:", repr(b))

folder = tempfile.mkdtemp()
with contextlib.redirect_stdout(io.StringIO()):
    twin = build(None)
    twin.calibrate(6)
    cal = build(folder)
    cal.calibrate(2)
    cal.create_checkpoint(folder)
    cal = Calibrator.restore_from_checkpoint(folder, model=model)
    cal.calibrate(4)
shutil.rmtree(folder, ignore_errors=True)
differs = twin.losses_samp.tobytes() != cal.losses_samp.tobytes() or twin.params_samp.tobytes() != cal.params_samp.tobytes()
print("resumed history differs from the uninterrupted one:", differs,
      "(first differing row %s)" % next((i for i, (x, y) in enumerate(zip(twin.losses_samp, cal.losses_samp)) if x != y), None))
sys.exit(1 if differs else 0)
