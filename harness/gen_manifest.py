#!/usr/bin/env python3
"""Regenerates /verif/MANIFEST.json from the table below (kept in one place so it always validates)."""
import json
from pathlib import Path

ROOT = Path(__file__).resolve().parent.parent
ALL = [f"C{i:02d}" for i in range(1, 21)]

CHECKS = {}
for _f in sorted((ROOT / "harness" / "manifest.d").glob("C*.json")):
    CHECKS[_f.stem] = json.loads(_f.read_text())   # keys: text, note, technique, design

NOT_YET = "check not built yet in this session; design in DESIGN.md section 4"


def main():
    checks = []
    for pid in ALL:
        if pid not in CHECKS:
            continue
        c = CHECKS[pid]
        checks.append({
            "property_id": pid,
            "quick_cmd": f"bin/check {pid} --tier quick",
            "thorough_cmd": f"bin/check {pid} --tier thorough",
            "evidence_file": f"/verif/evidence/{pid}.json",
            "replay_cmd_template": f"bin/check {pid} --replay {{path}}",
            "engine": "coq+harness",
            "level_claimed": {"category": "proof", "text": c["text"], "design_ref": c["design"]},
            "level_note": c["note"],
            "technique": c["technique"],
        })
    m = {
        "version": 1,
        "setup_cmd": "cd /verif/coq && coq_makefile -f _CoqProject -o Makefile && timeout 3000 make -j16",
        "hooks": {
            "guard": "BLACK_IT_VERIF",
            "enable": "no source hook exists: all instrumentation is done from the harness by subclassing / wrapping; "
                      "checks export BLACK_IT_VERIF=1 for uniformity",
            "baseline_off_cmd": "cd /repo && /venv/bin/python -m pytest -ra -q -p no:cacheprovider --timeout=900 "
                                "--continue-on-collection-errors",
            "source_commits": [],
            "add_only": True,
        },
        "engines": [{
            "name": "coq+harness", "path": "/verif/coq + /verif/harness",
            "serves_properties": sorted(CHECKS),
            "kind_free_text": "Coq 8.16 development (models, proofs, property theorems) + Python correspondence harness "
                              "that evaluates the model inside coqc on the cases the implementation ran",
        }],
        "checks": checks,
        "notes": "See DESIGN.md. known_findings.json lists genuine defects recorded rather than repaired.",
        "not_applicable": [{"property_id": p, "reason": NOT_YET} for p in ALL if p not in CHECKS],
    }
    (ROOT / "MANIFEST.json").write_text(json.dumps(m, indent=1) + "\n")


if __name__ == "__main__":
    main()
