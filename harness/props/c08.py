"""C08 - the loss interface is pure, weight-linear and coordinate-symmetric.

Model: coq/Model/LossBase.v   Theorems: coq/Properties/C08.v
Correspondence
  (i)  a token user loss (subclass of BaseLoss, scripted compute_loss_1d on dyadic data, logging its arguments) is
       driven through the real BaseLoss.compute_loss; value, exception and logged arguments are compared EXACTLY
       with `compute_loss token_l1` / `l1_args` evaluated inside Coq (check_case);
  (i') the exact built-in specs the theorems speak about (Minkowski p=1, p=2 squared, MSM identity / inverse
       variance on a token moment calculator) are compared with the real classes (check_spec_case);
  (ii) relational runs of every built-in loss (direct oracle of the property statement).
"""
from __future__ import annotations

import json

import common
import re
import struct
import warnings
from collections import Counter
from fractions import Fraction

import numpy as np

from common import clist, cnat, cq

IMPORTS = "From Coq Require Import List QArith.\nFrom BlackIt Require Import Model.LossBase."
CASE_T = "case"
SPEC_T = "spec_case"
RTOL = 1e-9


# ====================================================================================================
# part (i): token loss through the real base class
# ====================================================================================================
def fr(x):
    return Fraction(float(x))


def token_l1_exact(ens, real):
    """sum_{e,t} (e+1)(t+1) ens[e][t] + sum_t (2t+3) real[t] + ens[0] . real   (exact, on Fractions)."""
    a = sum((e + 1) * (t + 1) * x for e, s in enumerate(ens) for t, x in enumerate(s))
    b = sum((2 * t + 3) * x for t, x in enumerate(real))
    c = sum(x * y for x, y in zip(ens[0], real)) if ens else 0
    return Fraction(a + b + c)


def py_filter(tok):
    if tok is None:
        return None
    kind = tok[0]
    if kind == "affine":
        a, b = float(tok[1]), float(tok[2])
        return lambda x: a * x + b
    if kind == "reverse":
        return lambda x: x[::-1]
    if kind == "cumsum":
        return lambda x: np.cumsum(x)
    if kind == "square":
        return lambda x: x * x
    raise ValueError(kind)


def exact_filter(tok, s):
    """the same filters on lists of Fractions (independent of numpy), for the oracle"""
    if tok is None:
        return list(s)
    kind = tok[0]
    if kind == "affine":
        return [fr(tok[1]) * x + fr(tok[2]) for x in s]
    if kind == "reverse":
        return list(reversed(s))
    if kind == "cumsum":
        out, acc = [], Fraction(0)
        for x in s:
            acc += x
            out.append(acc)
        return out
    if kind == "square":
        return [x * x for x in s]
    raise ValueError(kind)


def coq_filter(tok):
    if tok is None:
        return "None"
    kind = tok[0]
    if kind == "affine":
        return f"(Some (FAffine {cq(tok[1])} {cq(tok[2])}))"
    return {"reverse": "(Some FReverse)", "cumsum": "(Some FCumsum)", "square": "(Some FSquare)"}[kind]


def token_class():
    from black_it.loss_functions.base import BaseLoss

    class TokenLoss(BaseLoss):
        def __init__(self, w, f):
            super().__init__(w, f)
            self.log = []

        def compute_loss_1d(self, sim_data_ensemble, real_data):
            self.log.append((np.array(sim_data_ensemble, dtype=float, copy=True), np.array(real_data, dtype=float, copy=True)))
            ens = [[fr(x) for x in s] for s in np.asarray(sim_data_ensemble)]
            v = token_l1_exact(ens, [fr(x) for x in np.asarray(real_data)])
            f = float(v)
            assert Fraction(f) == v, "token value not representable"
            return f

    return TokenLoss


def dy(rng, lo, hi, den):
    return rng.randint(lo * den, hi * den) / den


def gen_token_case(rng):
    D = 0 if rng.below(25) == 0 else rng.randint(1, 5)
    E, N = rng.randint(1, 4), rng.randint(3, 12)
    sim = [[[dy(rng, -4, 4, 8) for _ in range(D)] for _ in range(N)] for _ in range(E)]  # (E,N,D)
    real = [[dy(rng, -4, 4, 8) for _ in range(D)] for _ in range(N)]  # (N,D)

    def wlist(n):
        return [dy(rng, -2, 2, 8) if rng.below(6) else 0.0 for _ in range(n)]

    def flist(n):
        out = []
        for _ in range(n):
            k = rng.below(7)
            out.append(None if k < 2 else ("affine", dy(rng, -2, 2, 4), dy(rng, -2, 2, 4)) if k < 4
                       else ("reverse",) if k == 4 else ("cumsum",) if k == 5 else ("square",))
        return out

    def wrong(n):
        c = [x for x in (n - 1, n + 1, n + 2, 0) if x >= 0 and x != n]
        return rng.choice(c)

    mode = rng.below(10)
    wm = rng.below(4)  # 0: None, else given
    fm = rng.below(4)
    weights = None if wm == 0 else wlist(D)
    filters = None if fm == 0 else flist(D)
    if mode == 0:
        weights = wlist(wrong(D))
    elif mode == 1:
        filters = flist(wrong(D))
    elif mode == 2:
        weights, filters = wlist(wrong(D)), flist(wrong(D))
    w_as = rng.choice(["array", "list", "intarray", "intlist"])
    if w_as.startswith("int") and weights is not None:
        weights = [float(round(x)) for x in weights]          # whole numbers, so that they can be given with an integer dtype
    return {"part": "token", "D": D, "E": E, "N": N, "sim": sim, "real": real, "weights": weights, "filters": filters,
            "w_as": w_as, "f_as": rng.choice(["list", "tuple"]),
            "rel": rng.choice(["perm", "onehot", "zero", "linear"]),
            "perm": _perm(rng, D), "w2": wlist(D), "a": dy(rng, -2, 2, 4), "b": dy(rng, -2, 2, 4),
            "j": rng.below(max(D, 1))}


def _perm(rng, n):
    p = list(range(n))
    rng.shuffle(p)
    return p


def _arrays(case):
    D, E, N = case["D"], case["E"], case["N"]
    sim = np.array(case["sim"], dtype=float).reshape(E, N, D)
    real = np.array(case["real"], dtype=float).reshape(N, D)
    return sim, real


def _as_weights(case, w):
    """weights as the caller may legitimately give them: float array, list of floats, or - when every weight is a whole number -
    an INTEGER-typed array / list of Python ints (e.g. np.array([2, 1, 3]) or a 0/1 mask)"""
    if w is None:
        return None
    kind = case.get("w_as", "array")
    if kind.startswith("int") and all(float(x).is_integer() for x in w):
        return np.array([int(x) for x in w], dtype=np.int64) if kind == "intarray" else [int(x) for x in w]
    return np.array(w, dtype=float) if kind in ("array", "intarray") else list(w)


def _mk_w(case, w):
    return _as_weights(case, w)


def _mk_f(case, f):
    if f is None:
        return None
    fl = [py_filter(t) for t in f]
    return fl if case["f_as"] == "list" else tuple(fl)


MSG = re.compile(r"the length of coordinate_(weights|filters) should be equal to the number of coordinates, got (\d+) and (\d+)")


def eval_token(case, weights, filters, sim, real):
    """one evaluation of the real compute_loss with the token loss; returns (outcome, log, purity_ok)"""
    Token = token_class()
    w = _mk_w(case, weights)
    obj = Token(w, _mk_f(case, filters))
    b_sim, b_real = sim.tobytes(), real.tobytes()
    b_w = w.tobytes() if isinstance(w, np.ndarray) else repr(w)
    try:
        v = obj.compute_loss(sim, real)
        out = ("val", float(v))
    except Exception as e:  # noqa: BLE001
        m = MSG.search(str(e))
        out = ("err", type(e).__name__, m.group(1) if m else None, int(m.group(2)) if m else -1,
               int(m.group(3)) if m else -1, str(e)[:120])
    pure = (sim.tobytes() == b_sim and real.tobytes() == b_real
            and (w.tobytes() if isinstance(w, np.ndarray) else repr(w)) == b_w)
    return out, obj.log, pure


def run_token(case):
    sim, real = _arrays(case)
    out, log, pure = eval_token(case, case["weights"], case["filters"], sim, real)
    obs = {"out": list(out), "log": [(e.tolist(), r.tolist()) for e, r in log], "pure": pure, "rel": None}
    D = case["D"]
    # one relational run per case (only meaningful when the base evaluation returned)
    if out[0] == "val" and D >= 1:
        ws = case["weights"] if case["weights"] is not None else None
        fs = case["filters"]
        rel = case["rel"]
        if rel == "perm":
            p = case["perm"]
            o2, _, _ = eval_token(case, None if ws is None else [ws[i] for i in p], None if fs is None else [fs[i] for i in p],
                                  np.ascontiguousarray(sim[:, :, p]), np.ascontiguousarray(real[:, p]))
            obs["rel"] = ["perm", list(o2)]
        elif rel == "onehot":
            j = case["j"]
            oh = [1.0 if i == j else 0.0 for i in range(D)]
            o2, _, _ = eval_token(case, oh, fs, sim, real)
            o3, _, _ = eval_token(case, [1.0], None if fs is None else [fs[j]], np.ascontiguousarray(sim[:, :, j:j + 1]),
                                  np.ascontiguousarray(real[:, j:j + 1]))
            obs["rel"] = ["onehot", list(o2), list(o3)]
        elif rel == "zero" and D >= 2:
            j = case["j"]
            w0 = list(ws) if ws is not None else list(case["w2"])
            w0[j] = 0.0
            keep = [i for i in range(D) if i != j]
            o2, _, _ = eval_token(case, w0, fs, sim, real)
            o3, _, _ = eval_token(case, [w0[i] for i in keep], None if fs is None else [fs[i] for i in keep],
                                  np.ascontiguousarray(sim[:, :, keep]), np.ascontiguousarray(real[:, keep]))
            obs["rel"] = ["zero", list(o2), list(o3)]
        elif rel == "linear":
            w1 = list(ws) if ws is not None else [1.0] * D
            w2, a, b = case["w2"], case["a"], case["b"]
            w3 = [a * x + b * y for x, y in zip(w1, w2)]
            o1, _, _ = eval_token(case, w1, fs, sim, real)
            o2, _, _ = eval_token(case, w2, fs, sim, real)
            o3, _, _ = eval_token(case, w3, fs, sim, real)
            obs["rel"] = ["linear", list(o1), list(o2), list(o3)]
    return obs


def token_tol(case, obs):
    """0 (exact) unless the default weights 1/D are not dyadic"""
    D = case["D"]
    if case["weights"] is None and D not in (0, 1, 2, 4) and obs["out"][0] == "val":
        s = sum(abs(float(token_l1_exact([[fr(x) for x in s] for s in e], [fr(x) for x in r]))) for e, r in obs["log"])
        return 1e-12 * (1.0 + s)
    return 0.0


def oracle_token(case, obs):
    """the property statement on the implementation's observations, independent of the Coq model"""
    fails = []
    D, E, N = case["D"], case["E"], case["N"]
    ws, fs = case["weights"], case["filters"]
    out = obs["out"]
    if not obs["pure"]:
        fails.append("purity: an input array / the weight vector changed during compute_loss")
    bad_w = ws is not None and len(ws) != D
    bad_f = fs is not None and len(fs) != D
    if bad_w or bad_f:
        if out[0] != "err" or out[1] != "ValueError":
            fails.append(f"wrong_length: weights {None if ws is None else len(ws)}, filters {None if fs is None else len(fs)}, "
                         f"D={D} not rejected with ValueError: {out}")
        else:
            want = "weights" if bad_w else "filters"
            if out[2] != want:
                fails.append(f"wrong_length: the first failing check should be coordinate_{want}, message was about {out[2]}")
        if obs["log"]:
            fails.append("wrong_length: compute_loss_1d was called before the length checks")
        return fails
    if out[0] != "val":
        return [f"unexpected exception {out}"]
    # arguments seen by compute_loss_1d: filter_i(sim[e,:,i]) for every member, real[:,i] untouched
    sim = [[[fr(case["sim"][e][t][i]) for t in range(N)] for i in range(D)] for e in range(E)]  # e,i,t
    real = [[fr(case["real"][t][i]) for t in range(N)] for i in range(D)]
    if len(obs["log"]) != D:
        fails.append(f"compute_loss_1d called {len(obs['log'])} times for {D} coordinates")
        return fails
    total = Fraction(0)
    for i in range(D):
        want_ens = [exact_filter(None if fs is None else fs[i], sim[e][i]) for e in range(E)]
        got_ens = [[fr(x) for x in s] for s in obs["log"][i][0]]
        got_real = [fr(x) for x in obs["log"][i][1]]
        if got_ens != want_ens:
            fails.append(f"filters: coordinate {i}: compute_loss_1d did not receive filter_i(sim[:, :, i])")
        if got_real != real[i]:
            fails.append(f"filters: coordinate {i}: compute_loss_1d did not receive real[:, i] verbatim")
        w = Fraction(1, D) if ws is None else fr(ws[i])
        total += w * token_l1_exact(want_ens, real[i])
    tol = token_tol(case, obs)
    if abs(fr(out[1]) - total) > fr(tol):
        fails.append(f"weighted_sum: value {out[1]!r} != sum_i w_i * single_i = {float(total)!r}")
    rel = obs["rel"]
    if rel:
        def val(o):
            return fr(o[1]) if o[0] == "val" else None
        if rel[0] == "perm":
            if val(rel[1]) is None or abs(val(rel[1]) - fr(out[1])) > 2 * fr(tol):
                fails.append(f"coord_perm: permuted evaluation {rel[1]} != {out[1]!r}")
        elif rel[0] == "onehot":
            if val(rel[1]) is None or val(rel[1]) != val(rel[2]):
                fails.append(f"onehot: one-hot evaluation {rel[1]} != single-coordinate evaluation {rel[2]}")
        elif rel[0] == "zero":
            if val(rel[1]) is None or val(rel[1]) != val(rel[2]):
                fails.append(f"zero_weight: {rel[1]} != evaluation without the coordinate {rel[2]}")
        elif rel[0] == "linear":
            v1, v2, v3 = val(rel[1]), val(rel[2]), val(rel[3])
            if None in (v1, v2, v3) or v3 != fr(case["a"]) * v1 + fr(case["b"]) * v2:
                fails.append(f"linear: L(a w + b w') = {rel[3]} != a L(w) + b L(w') with {rel[1]}, {rel[2]}")
    return fails


def cser(s):
    return clist([cq(x) for x in s])


def emit_token(case, obs):
    D, E, N = case["D"], case["E"], case["N"]
    ws, fs = case["weights"], case["filters"]
    cw = "None" if ws is None else f"(Some {cser(ws)})"
    cf = "None" if fs is None else f"(Some {clist([coq_filter(t) for t in fs])})"
    sim = clist([clist([cser([case["sim"][e][t][i] for t in range(N)]) for i in range(D)]) for e in range(E)])
    real = clist([cser([case["real"][t][i] for t in range(N)]) for i in range(D)])
    out = obs["out"]
    if out[0] == "val":
        o = f"(ObsVal {cq(out[1])})"
    elif out[1] == "ValueError" and out[2] == "weights":
        o = f"(ObsErr (WeightsLen {cnat(out[3])} {cnat(out[4])}))"
    elif out[1] == "ValueError" and out[2] == "filters":
        o = f"(ObsErr (FiltersLen {cnat(out[3])} {cnat(out[4])}))"
    else:
        o = "(ObsErr (WeightsLen 0%nat 0%nat))"  # never produced by the model: forces a mismatch
    args = clist([f"({clist([cser(s) for s in e])}, {cser(r)})" for e, r in obs["log"]])
    return f"({cw}, {cf}, {sim}, {real}, {o}, {args}, {cq(token_tol(case, obs))})"


# ====================================================================================================
# part (i'): exact specs of built-in single-coordinate losses
# ====================================================================================================
def token_moments_np(s):
    s = np.asarray(s, dtype=float)
    k = np.arange(1, len(s) + 1, dtype=float)
    return np.array([np.mean(s), np.mean(s * s), s[0] * s[-1], np.sum(k * s)])


def gen_spec_case(rng):
    kind = rng.below(4)
    E, N = rng.randint(1, 4), rng.randint(3, 12)
    if kind == 3:
        E = rng.randint(2, 4)
    ens = [[dy(rng, -4, 4, 8) for _ in range(N)] for _ in range(E)]
    real = [dy(rng, -4, 4, 8) for _ in range(N)]
    if rng.below(8) == 0 and kind != 3:
        ens = [list(real) for _ in range(E)]  # zero-when-equal instance
    elif kind >= 2 and rng.below(3) == 0:
        # series at a level that is large relative to the spread of the ensemble, members that nearly coincide (all values
        # dyadic, so that the moments are exact up to one rounding): E[m^2] - E[m]^2 style shortcuts lose everything here,
        # the definition mean_j (r - s_j)^2 loses nothing
        base = [64.0 + dy(rng, -4, 4, 8) for _ in range(N)]
        ens = [[b + rng.randint(-2, 2) / 256.0 for b in base] for _ in range(E)]
        real = [b + rng.randint(-3, 3) / 256.0 for b in base]   # the data are as close to the members as they are to each other
        # measured: the definition evaluated in binary64 is within 4e-12 (relative) of the exact value on these data, a one-pass
        # variance is off by 2e-9 and more
        return {"part": "spec", "kind": kind, "ens": ens, "real": real, "rtol": 1e-10, "style": "near-coincident"}
    return {"part": "spec", "kind": kind, "ens": ens, "real": real}


def run_spec(case):
    from black_it.loss_functions.minkowski import MinkowskiLoss
    from black_it.loss_functions.msm import MethodOfMomentsLoss

    ens = np.array(case["ens"], dtype=float)[:, :, None]
    real = np.array(case["real"], dtype=float)[:, None]
    k = case["kind"]
    obj = (MinkowskiLoss(p=1) if k == 0 else MinkowskiLoss(p=2) if k == 1
           else MethodOfMomentsLoss(covariance_mat="identity", moment_calculator=token_moments_np) if k == 2
           else MethodOfMomentsLoss(covariance_mat="inverse_variance", moment_calculator=token_moments_np))
    with np.errstate(all="ignore"):
        v = float(obj.compute_loss(ens, real))
    return {"v": v}


def emit_spec(case, obs):
    v = obs["v"]
    scale = v * v if case["kind"] == 1 else abs(v)
    tol = case.get("rtol", 1e-11) * (1.0 + scale)
    return f"({cnat(case['kind'])}, {clist([cser(s) for s in case['ens']])}, {cser(case['real'])}, {cq(v)}, {cq(tol)})"


# ====================================================================================================
# part (ii): relational runs of the built-in losses
# ====================================================================================================
NAMED_FILTERS = {
    "affine": lambda x: 2.0 * x + 1.0,
    "cumsum": lambda x: np.cumsum(x),
    "demean": lambda x: x - np.mean(x),
    "cube": lambda x: x ** 3 / 4.0,
    "halve": lambda x: 0.5 * x,
}


def custom_moments(s):
    s = np.asarray(s, dtype=float)
    return np.array([np.mean(s), np.std(s), np.mean(np.abs(np.diff(s))), np.max(s) - np.min(s), np.mean(s ** 3)])


def view_moments(s):
    """a user moment calculator whose result ALIASES its argument (a view): the loss must not write into it"""
    return np.asarray(s)[:5]


_MEMO = {}


def memo_moments(s):
    """a memoising user moment calculator: returns its cached array object on a repeated series"""
    s = np.asarray(s, dtype=float)
    key = s.tobytes()
    if key not in _MEMO:
        if len(_MEMO) > 4000:
            _MEMO.clear()
        _MEMO[key] = custom_moments(s)
    return _MEMO[key]


def sym_matrix(seed, k):
    r = np.random.RandomState(seed)  # data only; seed comes from the check's PRNG and is stored in the case
    a = r.uniform(-1, 1, size=(k, k))
    return (a + a.T) / 2.0


LOSS_KINDS = [
    # name, uses base compute_loss (weights honoured), nonneg claimed, zero-when-equal claimed
    ("minkowski_p1", True, True, True), ("minkowski_p2", True, True, True), ("minkowski_p3", True, True, True),
    ("msm_identity_default", True, True, True), ("msm_identity_custom", True, True, True),
    ("msm_identity_custom_std", True, True, True),
    ("msm_identity_view_std", True, True, True), ("msm_identity_memo_std", True, True, True),
    ("msm_invvar_view", True, True, False), ("msm_identity_memo", True, True, True),
    ("msm_invvar_custom", True, True, False), ("msm_invvar_default", True, True, False),
    ("msm_W_custom", True, False, False), ("msm_W_default", True, False, False),
    ("fourier_gauss", True, True, True), ("fourier_ideal", True, True, True),
    ("gsl_default", True, False, False), ("gsl_small", True, False, False),
    ("likelihood_silverman", False, False, False), ("likelihood_scott", False, False, False),
    ("likelihood_h", False, False, False),
]
KIND_INFO = {k[0]: k for k in LOSS_KINDS}
HEAVY = {"msm_identity_default", "msm_invvar_default", "msm_W_default"}


def make_loss(case, weights, filters):
    """a fresh loss object of the case's kind with the given weights / filter list"""
    from black_it.loss_functions.fourier import FourierLoss, gaussian_low_pass_filter, ideal_low_pass_filter
    from black_it.loss_functions.gsl_div import GslDivLoss
    from black_it.loss_functions.likelihood import LikelihoodLoss
    from black_it.loss_functions.minkowski import MinkowskiLoss
    from black_it.loss_functions.msm import MethodOfMomentsLoss

    k = case["kind"]
    kw = {"coordinate_weights": weights, "coordinate_filters": filters}
    if k.startswith("minkowski_p"):
        return MinkowskiLoss(p=int(k[-1]), **kw)
    if k == "msm_identity_default":
        return MethodOfMomentsLoss(covariance_mat="identity", **kw)
    if k == "msm_identity_custom":
        return MethodOfMomentsLoss(covariance_mat="identity", moment_calculator=custom_moments, **kw)
    if k == "msm_identity_custom_std":
        return MethodOfMomentsLoss(covariance_mat="identity", moment_calculator=custom_moments, standardise_moments=True, **kw)
    if k == "msm_identity_view_std":
        return MethodOfMomentsLoss(covariance_mat="identity", moment_calculator=view_moments, standardise_moments=True, **kw)
    if k == "msm_identity_memo_std":
        return MethodOfMomentsLoss(covariance_mat="identity", moment_calculator=memo_moments, standardise_moments=True, **kw)
    if k == "msm_identity_memo":
        return MethodOfMomentsLoss(covariance_mat="identity", moment_calculator=memo_moments, **kw)
    if k == "msm_invvar_view":
        return MethodOfMomentsLoss(covariance_mat="inverse_variance", moment_calculator=view_moments, **kw)
    if k == "msm_invvar_custom":
        return MethodOfMomentsLoss(covariance_mat="inverse_variance", moment_calculator=custom_moments, **kw)
    if k == "msm_invvar_default":
        return MethodOfMomentsLoss(covariance_mat="inverse_variance", **kw)
    if k == "msm_W_custom":
        return MethodOfMomentsLoss(covariance_mat=sym_matrix(case["wseed"], 5), moment_calculator=custom_moments, **kw)
    if k == "msm_W_default":
        return MethodOfMomentsLoss(covariance_mat=sym_matrix(case["wseed"], 18), **kw)
    if k == "fourier_gauss":
        return FourierLoss(frequency_filter=gaussian_low_pass_filter, f=case["f"], **kw)
    if k == "fourier_ideal":
        return FourierLoss(frequency_filter=ideal_low_pass_filter, f=case["f"], **kw)
    if k == "gsl_default":
        return GslDivLoss(**kw)
    if k == "gsl_small":
        return GslDivLoss(nb_values=3, nb_word_lengths=2, **kw)
    if k == "likelihood_silverman":
        return LikelihoodLoss(h="silverman", **kw)
    if k == "likelihood_scott":
        return LikelihoodLoss(h="scott", **kw)
    if k == "likelihood_h":
        return LikelihoodLoss(h=0.9, **kw)
    raise ValueError(k)


def gen_builtin_case(rng, kind=None):
    kind = kind or rng.choice([k[0] for k in LOSS_KINDS if k[0] not in HEAVY] * 4 + sorted(HEAVY))
    D, E = rng.randint(1, 4), rng.randint(1, 4)
    N = rng.randint(9, 20) if kind in HEAVY else rng.randint(6, 24)
    scale = rng.choice([1.0, 1.0, 10.0, 0.1])

    def arr(*shape):
        n = int(np.prod(shape))
        return (np.array([rng.uniform(-1, 1) + 0.3 * rng.uniform(-1, 1) for _ in range(n)]) * scale).reshape(shape).tolist()

    fm = rng.below(3)
    filters = None if fm == 0 else [None if rng.below(3) == 0 else rng.choice(sorted(NAMED_FILTERS)) for _ in range(D)]
    wm = rng.below(4)
    weights = None if wm == 0 else [round(rng.uniform(0, 2), 3) if rng.below(5) else 0.0 for _ in range(D)]
    E2, N2 = rng.randint(1, 4), (rng.randint(9, 20) if kind in HEAVY else rng.randint(6, 24))
    w_as = rng.choice(["array", "list", "intarray", "intlist"])
    if w_as.startswith("int") and weights is not None:
        weights = [float(rng.randint(0, 3)) for _ in range(D)]
    return {"part": "builtin", "kind": kind, "D": D, "E": E, "N": N, "sim": arr(E, N, D), "real": arr(N, D),
            "weights": weights, "filters": filters, "w_as": w_as,
            "f": rng.choice([0.1, 0.3, 0.5, 0.8, 1.0]), "wseed": rng.below(1 << 30),
            "other_sim": arr(E2, N2, D), "other_real": arr(N2, D), "other_wrongD_real": arr(N2, D + 1),
            "other_wrongD_sim": arr(E2, N2, D + 1),
            "w1": [round(rng.uniform(-2, 2), 3) for _ in range(D)], "w2": [round(rng.uniform(-2, 2), 3) for _ in range(D)],
            "a": round(rng.uniform(-2, 2), 3), "b": round(rng.uniform(-2, 2), 3),
            "j": rng.below(D), "perm": _perm(rng, D), "eperm": _perm(rng, E),
            "wrong_w": rng.choice([x for x in (D - 1, D + 1, D + 2, 0) if x != D and x >= 0]),
            "wrong_f": rng.choice([x for x in (D - 1, D + 1, D + 2, 0) if x != D and x >= 0])}


def bits(x):
    return struct.pack("<d", float(x))


def snap_obj(obj):
    out = {}
    for k, v in sorted(vars(obj).items()):
        if isinstance(v, np.ndarray):
            out[k] = ("nd", v.dtype.str, v.shape, v.tobytes())
        elif isinstance(v, (list, tuple)):
            out[k] = ("seq", tuple(id(x) if callable(x) else repr(x) for x in v))
        elif callable(v):
            out[k] = ("fn", id(v))
        else:
            out[k] = ("val", repr(v))
    return out


class Rel:
    """collects relation results for one built-in case"""

    def __init__(self):
        self.n = 0
        self.fails = []
        self.skipped = Counter()
        self.done = Counter()

    def check(self, name, ok, detail):
        self.n += 1
        self.done[name] += 1
        if not ok:
            self.fails.append((name, detail))


def close(a, b, scale):
    if not (np.isfinite(a) and np.isfinite(b)):
        return (np.isnan(a) and np.isnan(b)) or a == b
    return abs(a - b) <= RTOL * max(scale, 1e-300)


def run_builtin(case):
    """all relations of the property statement that apply to the case's loss; returns (Rel, info)"""
    kind = case["kind"]
    _, base, nonneg, zero_eq = KIND_INFO[kind]
    D, E, N = case["D"], case["E"], case["N"]
    sim = np.array(case["sim"], dtype=float).reshape(E, N, D)
    real = np.array(case["real"], dtype=float).reshape(N, D)
    fnames = case["filters"]

    def mkf(names):
        return None if names is None else [None if n is None else NAMED_FILTERS[n] for n in names]

    def mkw(w):
        return _as_weights(case, w)

    R = Rel()
    info = {}
    pure_fail = []

    def ev(obj, s, r, tag):
        """one evaluation with byte snapshots of every input"""
        w = obj.coordinate_weights
        cov = getattr(obj, "_covariance_mat", None)
        before = (s.tobytes(), r.tobytes(), w.tobytes() if isinstance(w, np.ndarray) else repr(w),
                  cov.tobytes() if isinstance(cov, np.ndarray) else repr(cov))
        with warnings.catch_warnings(), np.errstate(all="ignore"):
            warnings.simplefilter("ignore")
            try:
                v = float(obj.compute_loss(s, r))
                err = None
            except Exception as e:  # noqa: BLE001
                v, err = None, e
        w = obj.coordinate_weights
        cov = getattr(obj, "_covariance_mat", None)
        after = (s.tobytes(), r.tobytes(), w.tobytes() if isinstance(w, np.ndarray) else repr(w),
                 cov.tobytes() if isinstance(cov, np.ndarray) else repr(cov))
        if before != after:
            which = [n for n, x, y in zip(("sim", "real", "weights", "covariance_mat"), before, after) if x != y]
            pure_fail.append(f"{tag}: {which} changed")
        if err is not None:
            raise err
        return v

    ws, fs = case["weights"], mkf(fnames)
    obj = make_loss(case, mkw(ws), fs)
    snap0 = snap_obj(obj)
    v = ev(obj, sim, real, "main")
    info["value"] = v
    R.check("purity", not pure_fail, "; ".join(pure_fail))

    # ---- history independence: same object, unrelated evaluations (incl. a failing one) in between
    osim = np.array(case["other_sim"], dtype=float).reshape(-1, len(case["other_real"]), D)
    oreal = np.array(case["other_real"], dtype=float).reshape(-1, D)
    for s, r in ((osim, oreal), (np.array(case["other_wrongD_sim"], dtype=float).reshape(osim.shape[0], osim.shape[1], D + 1),
                                  np.array(case["other_wrongD_real"], dtype=float).reshape(-1, D + 1))):
        try:
            ev(obj, s, r, "unrelated")
        except Exception:  # noqa: BLE001
            pass
    v_again = ev(obj, sim, real, "again")
    v_fresh = ev(make_loss(case, mkw(ws), fs), sim, real, "fresh")
    R.check("history", bits(v_again) == bits(v) and bits(v_fresh) == bits(v),
            f"first {v!r}, after unrelated evaluations {v_again!r}, fresh object {v_fresh!r}")
    snap1 = snap_obj(obj)
    R.check("object_state", snap0 == snap1, f"attributes changed: {sorted(k for k in set(snap0) | set(snap1) if snap0.get(k) != snap1.get(k))}")
    R.check("purity_all", not pure_fail, "; ".join(pure_fail))

    finite = np.isfinite(v)
    if not finite:
        R.skipped["nonfinite_value"] += 1

    # ---- ensemble permutation
    ep = case["eperm"]
    v_ep = ev(make_loss(case, mkw(ws), fs), np.ascontiguousarray(sim[ep]), real, "ensemble_perm")
    singles = None
    if base:
        singles = []
        for i in range(D):
            o1 = make_loss(case, mkw([1.0]), None if fs is None else [fs[i]])
            singles.append(ev(o1, np.ascontiguousarray(sim[:, :, i:i + 1]), np.ascontiguousarray(real[:, i:i + 1]), f"single{i}"))
        info["singles"] = singles
    w_eff = [1.0 / D] * D if ws is None else list(ws)
    scale = sum(abs(w * s) for w, s in zip(w_eff, singles)) if base and all(np.isfinite(singles)) else abs(v)
    R.check("ensemble_perm", close(v, v_ep, max(scale, abs(v) if finite else 0.0)), f"{v!r} vs permuted ensemble {ep}: {v_ep!r}")

    # ---- joint permutation of coordinates + weights + filters
    p = case["perm"]
    v_cp = ev(make_loss(case, mkw(None if ws is None else [ws[i] for i in p]), None if fs is None else [fs[i] for i in p]),
              np.ascontiguousarray(sim[:, :, p]), np.ascontiguousarray(real[:, p]), "coord_perm")
    R.check("coord_perm", close(v, v_cp, max(scale, abs(v) if finite else 0.0)), f"{v!r} vs coordinates permuted by {p}: {v_cp!r}")

    if base:
        if all(np.isfinite(singles)):
            # weighted sum of single-coordinate evaluations
            tot = sum(w * s for w, s in zip(w_eff, singles))
            R.check("weighted_sum", close(v, tot, scale), f"{v!r} vs sum_i w_i single_i = {tot!r} (singles {singles}, weights {w_eff})")
            # one-hot
            j = case["j"]
            v_oh = ev(make_loss(case, mkw([1.0 if i == j else 0.0 for i in range(D)]), fs), sim, real, "onehot")
            R.check("onehot", close(v_oh, singles[j], abs(singles[j])), f"one-hot({j}) {v_oh!r} vs single {singles[j]!r}")
            # linearity
            w1, w2, a, b = case["w1"], case["w2"], case["a"], case["b"]
            l1v = ev(make_loss(case, mkw(w1), fs), sim, real, "lin1")
            l2v = ev(make_loss(case, mkw(w2), fs), sim, real, "lin2")
            l3v = ev(make_loss(case, mkw([a * x + b * y for x, y in zip(w1, w2)]), fs), sim, real, "lin3")
            lsc = sum((abs(a * x) + abs(b * y)) * abs(s) for x, y, s in zip(w1, w2, singles))
            R.check("linear", close(l3v, a * l1v + b * l2v, lsc), f"L(a w+b w')={l3v!r} vs a L(w)+b L(w')={a * l1v + b * l2v!r}")
            # zero weight removes the coordinate
            if D >= 2:
                w0 = list(w1)
                w0[j] = 0.0
                keep = [i for i in range(D) if i != j]
                z1 = ev(make_loss(case, mkw(w0), fs), sim, real, "zero1")
                z2 = ev(make_loss(case, mkw([w0[i] for i in keep]), None if fs is None else [fs[i] for i in keep]),
                        np.ascontiguousarray(sim[:, :, keep]), np.ascontiguousarray(real[:, keep]), "zero2")
                R.check("zero_weight", close(z1, z2, sum(abs(w0[i] * singles[i]) for i in keep)),
                        f"weight 0 on {j}: {z1!r} vs without the coordinate: {z2!r}")
        else:
            R.skipped["nonfinite_single"] += 1
        # honours weights / filters at all? (recorded, not judged here)
        info["weights_honoured"] = None
        if D >= 2 and all(np.isfinite(singles)) and len({round(s, 9) for s in singles}) > 1:
            wa = ev(make_loss(case, mkw([1.0] + [0.0] * (D - 1)), fs), sim, real, "hon_w1")
            wb = ev(make_loss(case, mkw([0.0] * (D - 1) + [1.0]), fs), sim, real, "hon_w2")
            info["weights_honoured"] = bool(wa != wb)
    else:
        wa = ev(make_loss(case, mkw([1.0] + [0.0] * (D - 1)), fs), sim, real, "hon_w1")
        info["weights_honoured"] = bool(bits(wa) != bits(ev(make_loss(case, None, fs), sim, real, "hon_w0")))
    fa = ev(make_loss(case, mkw(ws), [NAMED_FILTERS["cube"]] + [None] * (D - 1)), sim, real, "hon_f1")
    fb = ev(make_loss(case, mkw(ws), None), sim, real, "hon_f0")
    if ws is None or ws[0] != 0.0:
        info["filters_honoured"] = bool(bits(fa) != bits(fb)) if np.isfinite(fa) and np.isfinite(fb) else None

    # ---- non-negativity (weights >= 0 by construction of case["weights"])
    if nonneg:
        if finite:
            R.check("nonneg", v >= 0.0, f"value {v!r} < 0 with weights {w_eff}")
        else:
            R.skipped["nonneg_nonfinite"] += 1
    # ---- zero when every member equals the real data (no filters)
    # (a configuration whose value is non-finite on generic data too - e.g. the Gaussian Fourier mask with
    #  round(f * n_freq) = 0, i.e. sigma = 0 - is degenerate for every input and left to C07)
    if zero_eq:
        eq = np.ascontiguousarray(np.broadcast_to(real, (E, N, D)))
        vz = ev(make_loss(case, mkw(ws), None), eq, real, "equal")
        tolz = RTOL * (1.0 + float(np.max(np.abs(real)))) ** 2
        if finite and np.isfinite(fb):
            R.check("zero_when_equal", np.isfinite(vz) and abs(vz) <= tolz, f"every member equals the real data but the loss is {vz!r}")
        else:
            R.skipped["zero_when_equal_degenerate_configuration"] += 1

    # ---- wrong lengths
    def rejected(w, f):
        try:
            r = ev(make_loss(case, w, f), sim, real, "wrong_length")
            return ("ok", r)
        except ValueError as e:
            return ("ValueError", str(e)[:100])
        except Exception as e:  # noqa: BLE001
            return (type(e).__name__, str(e)[:100])

    rw = rejected(mkw([0.5] * case["wrong_w"]), fs)
    rf = rejected(mkw(ws), [None] * case["wrong_f"])
    info["wrong_weights"] = rw
    info["wrong_filters"] = rf
    if base:
        R.check("wrong_length_weights", rw[0] == "ValueError", f"{case['wrong_w']} weights for D={D}: {rw}")
    else:
        info["likelihood_ignores_weights"] = rw[0] == "ok"
    R.check("wrong_length_filters", rf[0] == "ValueError", f"{case['wrong_f']} filters for D={D}: {rf}")
    return R, info


# ====================================================================================================
def case_key(case):
    return json.dumps(case, sort_keys=True, default=str)


def illconditioned_nonneg(chk, dist):
    """Non-negativity where it is numerically hard: series at a large level, ensemble members that nearly coincide (the
    inverse-variance weights 1/mean_j (r - s_j)^2 are sums of squares, so are the Minkowski / Fourier / identity-MSM values:
    none of them may come out negative, whatever the rounding)."""
    from black_it.loss_functions.fourier import FourierLoss
    from black_it.loss_functions.minkowski import MinkowskiLoss
    from black_it.loss_functions.msm import MethodOfMomentsLoss

    rng = chk.rng
    np_rng = np.random.default_rng(rng.below(2**31))
    n = 0
    mk = {"msm_invvar_default": lambda: MethodOfMomentsLoss(covariance_mat="inverse_variance"),
          "msm_invvar_custom": lambda: MethodOfMomentsLoss(covariance_mat="inverse_variance", moment_calculator=custom_moments),
          "msm_identity_default": lambda: MethodOfMomentsLoss(covariance_mat="identity"),
          "minkowski_p2": lambda: MinkowskiLoss(p=2), "fourier_gauss": lambda: FourierLoss()}
    for i in range(40 if chk.tier == "quick" else 400):
        kind = sorted(mk)[i % len(mk)] if i % 2 else "msm_invvar_default"
        level = rng.choice([1e4, 1e6, 1e8, 1e8])
        jitter = rng.choice([1e-3, 1e-5, 1e-2])
        E, N = rng.randint(2, 3), rng.randint(30, 60)
        base = level + np.cumsum(np_rng.standard_normal(N))
        sim = np.stack([base + jitter * np_rng.standard_normal(N) for _ in range(E)])[:, :, None]
        real = (base + rng.uniform(0.0, 3.0))[:, None]
        try:
            v = float(mk[kind]().compute_loss(sim, real))
        except Exception as e:  # noqa: BLE001
            chk.violation({"kind": "builtin", "loss": kind, "relation": "exception"},
                          {"failed": f"oracle:unexpected exception {type(e).__name__}: {e}",
                           "case": {"illconditioned": {"kind": kind, "level": level, "jitter": jitter, "E": E, "N": N}}})
            continue
        n += 1
        dist["relation:nonneg_illconditioned"] += 1
        if np.isfinite(v) and v < 0.0:
            chk.violation({"kind": "builtin", "loss": kind, "relation": "nonneg"},
                          {"failed": f"oracle:nonneg: value {v!r} < 0 for series at level {level:g} whose {E} ensemble members differ by {jitter:g}",
                           "case": {"illconditioned": {"kind": kind, "level": level, "jitter": jitter, "E": E, "N": N,
                                                       "sim": sim.tolist(), "real": real.tolist()}}})
    return n


def run(chk, replay=None):
    warnings.filterwarnings("ignore")
    chk.proof_gate()
    quick = chk.tier == "quick"
    rng = chk.rng
    if replay:
        cases = [json.loads(open(replay).read())["case"]]
    else:
        cases = []
        corpus = common.CORPUS / "C08"
        for f in sorted(corpus.glob("*.json")):
            cases.append(json.loads(f.read_text())["case"])
        n_token, n_spec, n_builtin = (260, 120, 64) if quick else (3000, 1200, 620)
        cases += [gen_token_case(rng) for _ in range(n_token)]
        cases += [gen_spec_case(rng) for _ in range(n_spec)]
        kinds = [k[0] for k in LOSS_KINDS]
        # every kind at least twice, then random
        cases += [gen_builtin_case(rng, k) for k in kinds for _ in range(2)]
        cases += [gen_builtin_case(rng) for _ in range(n_builtin - 2 * len(kinds))]

    dist = Counter()
    relations = 0
    nontrivial = set()
    samples = []
    honours = {}
    skipped = Counter()

    # ---------------- token part
    tok = [c for c in cases if c["part"] == "token"]
    tobs = [run_token(c) for c in tok]
    lits = [emit_token(c, o) for c, o in zip(tok, tobs)]
    bad, errors = chk.coq_mismatches("C08", IMPORTS, "check_case", CASE_T, lits, shard=20) if tok else ([], [])
    for i, (c, o) in enumerate(zip(tok, tobs)):
        fails = oracle_token(c, o)
        relations += 1 + (1 if o["rel"] else 0)
        dist[f"token:D={c['D']}"] += 1
        dist[f"token:E={c['E']}"] += 1
        dist["token:weights=" + ("None" if c["weights"] is None else "ok" if len(c["weights"]) == c["D"] else "wrong")] += 1
        dist["token:filters=" + ("None" if c["filters"] is None else "ok" if len(c["filters"]) == c["D"] else "wrong")] += 1
        dist["token:outcome=" + ("value" if o["out"][0] == "val" else f"{o['out'][1]}:{o['out'][2]}")] += 1
        if o["rel"]:
            dist["token:rel=" + o["rel"][0]] += 1
        if c["D"] >= 2 and (c["weights"] is not None or c["filters"] is not None):
            nontrivial.add(case_key(c))
        if fails:
            chk.violation({"kind": "token", "clause": fails[0].split(":")[0]},
                          {"failed": "oracle:" + fails[0], "all": fails, "case": c, "observed": o})
        elif i in bad:
            chk.violation({"kind": "correspondence", "name": "compute_loss token_l1"},
                          {"failed": "correspondence:check_case (model and implementation disagree; the property oracle "
                                     "found no failing input)", "case": c, "observed": o, "coq_case": lits[i]}, no_input=True)
    if tok:
        samples.append({"case": {k: tok[0][k] for k in ("D", "E", "N", "weights", "filters")}, "observed": tobs[0]["out"]})
    validated = len(tok) - len(bad)

    # ---------------- spec part
    spec = [c for c in cases if c["part"] == "spec"]
    sobs = [run_spec(c) for c in spec]
    keep = [i for i, o in enumerate(sobs) if np.isfinite(o["v"])]
    skipped["spec_nonfinite(inverse variance with a zero variance)"] = len(spec) - len(keep)
    slits = [emit_spec(spec[i], sobs[i]) for i in keep]
    sbad, serrors = chk.coq_mismatches("C08spec", IMPORTS, "check_spec_case", SPEC_T, slits, shard=40) if slits else ([], [])
    for b in sbad:
        i = keep[b]
        chk.violation({"kind": "correspondence", "name": f"spec kind {spec[i]['kind']}"},
                      {"failed": "correspondence:check_spec_case (exact spec of a built-in 1-d loss differs from the class)",
                       "case": spec[i], "observed": sobs[i], "coq_case": slits[b]}, no_input=True)
    for c in spec:
        dist[f"spec:kind={c['kind']}"] += 1
        if c.get("style"):
            dist[f"spec:{c['style']}"] += 1
    validated += len(keep) - len(sbad)
    errors += serrors

    # ---------------- built-in part
    blt = [c for c in cases if c["part"] == "builtin"]
    for c in blt:
        try:
            R, info = run_builtin(c)
        except Exception as e:  # noqa: BLE001
            chk.violation({"kind": "builtin", "loss": c["kind"], "relation": "exception"},
                          {"failed": f"oracle:unexpected exception {type(e).__name__}: {e}", "case": c})
            continue
        relations += R.n
        skipped.update(R.skipped)
        dist[f"builtin:{c['kind']}"] += 1
        for k, n in R.done.items():
            dist[f"relation:{k}"] += n
        cls = c["kind"].split("_")[0]
        h = honours.setdefault(cls, {"weights_honoured": set(), "filters_honoured": set(), "wrong_weights": set(), "wrong_filters": set()})
        for k in ("weights_honoured", "filters_honoured"):
            if info.get(k) is not None:
                h[k].add(info[k])
        h["wrong_weights"].add(info["wrong_weights"][0])
        h["wrong_filters"].add(info["wrong_filters"][0])
        if c["D"] >= 2:
            nontrivial.add(case_key(c))
        for name, detail in R.fails:
            if name == "wrong_length_filters" and c["kind"].startswith("minkowski"):
                desc = {"kind": "wrong_length_accepted", "loss": "MinkowskiLoss", "arg": "coordinate_filters"}
            else:
                desc = {"kind": "builtin", "loss": c["kind"], "relation": name}
            chk.violation(desc, {"failed": f"oracle:{name}: {detail}", "case": c, "observed": {k: (v if not isinstance(v, tuple) else list(v)) for k, v in info.items()}})
        if len(samples) < 4:
            samples.append({"case": {k: c[k] for k in ("kind", "D", "E", "N", "weights", "filters")}, "value": info.get("value")})
    for e in errors:
        chk.violation({"kind": "correspondence", "name": "coqc"}, {"failed": "correspondence:coqc", "detail": e}, no_input=True)
    if not replay:
        relations += illconditioned_nonneg(chk, dist)

    cov = {
        "evaluations": relations,
        "distinct_nontrivial": len(nontrivial),
        "rule": "evaluations = relations checked (token: value/arguments/exception case + one relational run; built-in: each "
                "relation of the statement that applies to the class); non-trivial = D >= 2 and (token) weights or filters given",
        "samples": samples,
        "traces_validated_against_impl": validated,
        "model_impl_disagreements": len(bad) + len(sbad),
        "token_cases": len(tok), "spec_cases": len(keep), "builtin_cases": len(blt),
        "distribution": dict(sorted(dist.items())),
        "skipped": dict(skipped),
        "honours": {k: {a: sorted(map(str, b)) for a, b in v.items()} for k, v in sorted(honours.items())},
        "clause_applicability": "weighted-sum / linearity / zero-weight / one-hot / wrong-length-weights apply to the classes that "
                                "inherit BaseLoss.compute_loss (Minkowski, MethodOfMoments, Fourier, GslDiv, user losses); "
                                "LikelihoodLoss overrides compute_loss, has no single-coordinate value (compute_loss_1d raises "
                                "NotImplementedError) and documents that weights are ignored with a RuntimeWarning: only purity, "
                                "history independence, ensemble / joint coordinate permutation and the filter-length check apply",
    }
    return chk.finish(
        cov,
        assumptions=["arrays are well shaped: sim (E,N,D) and real (N,D) with the same D (numpy raises IndexError otherwise)",
                     "filters return series of one common length (np.array of a ragged list raises)",
                     "the weighted sum is modelled over Q: float rounding is outside the theorems; on the dyadic correspondence "
                     "data every float operation of compute_loss is exact (except 1/D for D in {3,5}: tolerance 1e-12)",
                     "non-finite single-coordinate values (0*inf, nan) are outside the statement: a zero weight does not "
                     "remove a nan coordinate in IEEE arithmetic"],
        trusted=["modelled, not verified: numpy slicing / np.array stacking in _filter_data, len() of lists and arrays",
                 "the built-in losses' numerics (scipy minkowski, numpy fft, statsmodels acf) are only observed relationally"],
    )
