"""C08 - the loss interface is pure, weight-linear and coordinate-symmetric.

Model: coq/Model/LossBase.v   Theorems: coq/Properties/C08.v
Correspondence
  (i)  a token user loss (subclass of BaseLoss, scripted compute_loss_1d on dyadic data, logging its arguments) is
       driven through the real BaseLoss.compute_loss; value, exception and logged arguments are compared EXACTLY
       with `compute_loss token_l1` / `l1_args` evaluated inside Coq (check_case);
  (i') the exact built-in specs the theorems speak about (Minkowski p=1, p=2 squared, MSM identity / inverse
       variance on a token moment calculator) are compared with the real classes (check_spec_case);
  (ii) relational runs of every built-in loss (direct oracle of the property statement).
Round 4 (generator sweep): the same three parts over the other representations of the inputs (dtypes, memory layouts, read-only
arrays, far-from-origin / tiny / huge values, weights as tuple / float32 / numpy scalars, filters as object array / identity view /
memoising / one object for several coordinates), one object used again (attributes reassigned, other shapes, arrays overwritten
in place by the caller, rejected evaluations in between, other data first), two evaluations at the same time, sim length !=
data length, series of length 3-5, more than ten coordinates, option values of another numeric type, non-finite data.
"""
from __future__ import annotations

import json

import common
import re
import struct
import threading
import warnings
from collections import Counter
from fractions import Fraction

import numpy as np

from common import clist, cnat, cq

IMPORTS = "From Coq Require Import List QArith.\nFrom BlackIt Require Import Model.LossBase."
CASE_T = "case"
SPEC_T = "spec_case"
RTOL = 1e-9


# ====================================================================================================
# round 4: representations of the inputs (the property quantifies over "all data, weights, filters")
# ====================================================================================================
DTYPES = {"f8": np.float64, "f4": np.float32, "f2": np.float16, "i8": np.int64, "i4": np.int32}
LAYOUTS = ["C", "F", "strided", "coordstrided", "transposed", "negstride"]


def represent(a, rep):
    """The logical array `a` (float64 values that the target dtype holds exactly) in the representation `rep` =
    {"dtype": f8|f4|f2|i8|i4, "layout": C|F|strided|coordstrided|transposed|negstride, "readonly": bool}.
    Returns (array handed to the loss, underlying buffer or None).  Non-contiguous layouts are views of a larger / reordered
    buffer whose other cells hold the filler 77: the loss may neither read them as data nor write them."""
    rep = rep or {}
    a = np.asarray(a, dtype=float)
    b = a.astype(DTYPES[rep.get("dtype", "f8")])
    if not np.array_equal(b.astype(float), a, equal_nan=True):
        raise AssertionError(f"harness: data not representable as {rep.get('dtype')}")
    lay = rep.get("layout", "C")
    base = None
    if lay == "F":
        out = np.asfortranarray(b)
    elif lay in ("strided", "coordstrided") and b.ndim >= 2:
        ax = b.ndim - 2 if lay == "strided" else b.ndim - 1
        shape = list(b.shape)
        shape[ax] = 2 * shape[ax] + 1
        base = np.full(shape, 77, dtype=b.dtype)
        idx = [slice(None)] * b.ndim
        idx[ax] = slice(1, None, 2)
        base[tuple(idx)] = b
        out = base[tuple(idx)]
    elif lay == "transposed":
        base = np.ascontiguousarray(b.transpose())
        out = base.transpose()
    elif lay == "negstride" and b.ndim >= 2:
        base = np.ascontiguousarray(b[..., ::-1, :])
        out = base[..., ::-1, :]
    else:
        out = np.ascontiguousarray(b)
    assert out.shape == a.shape and np.array_equal(out.astype(float), a, equal_nan=True)
    if rep.get("readonly"):
        out.setflags(write=False)
    return out, base


def snap_arr(x, base=None):
    """everything a caller can observe of an array it handed over: logical content, dtype, shape, strides, writeability and the
    whole underlying buffer"""
    if not isinstance(x, np.ndarray):
        return repr(x)
    return (x.dtype.str, x.shape, x.strides, bool(x.flags.writeable), x.tobytes(), None if base is None else base.tobytes())


def overwrite(dst, src):
    """the CALLER changes its own array in place (allowed whatever the flag it handed over)"""
    w = dst.flags.writeable
    if not w:
        dst.setflags(write=True)
    dst[...] = src
    if not w:
        dst.setflags(write=False)


def gen_repr(rng, dtypes=("f8", "f4", "f2", "i8", "i4")):
    """half of the cases keep the plain representation (float64, C order, writeable)"""
    if rng.below(2) == 0:
        return {"dtype": "f8", "layout": "C", "readonly": False}
    return {"dtype": "f8" if rng.below(3) == 0 else rng.choice(list(dtypes)),
            "layout": "C" if rng.below(3) == 0 else rng.choice(LAYOUTS), "readonly": rng.below(3) == 0}


W_AS = ["array", "list", "intarray", "intlist", "tuple", "f4array", "npscalars", "roarray", "stridedarray"]


# ====================================================================================================
# part (i): token loss through the real base class
# ====================================================================================================
def fr(x):
    return Fraction(float(x))


def token_l1_exact(ens, real):
    """sum_{e,t} (e+1)(t+1) ens[e][t] + sum_t (2t+3) real[t] + ens[0] . real   (exact, on Fractions)."""
    a = sum((e + 1) * (t + 1) * x for e, s in enumerate(ens) for t, x in enumerate(s))
    b = sum((2 * t + 3) * x for t, x in enumerate(real))
    c = sum(x * y for x, y in zip(ens[0], real)) if ens else 0
    return Fraction(a + b + c)


def py_filter(tok):
    if tok is None:
        return None
    kind = tok[0]
    if kind == "affine":
        a, b = float(tok[1]), float(tok[2])
        return lambda x: a * x + b
    if kind == "reverse":
        return lambda x: x[::-1]
    if kind == "cumsum":
        return lambda x: np.cumsum(x)
    if kind == "square":
        return lambda x: x * x
    if kind == "ident":
        return lambda x: x                      # hands back the very view of the caller's array it was given
    if kind == "memoaffine":
        a, b = float(tok[1]), float(tok[2])
        memo = {}

        def f(x):                               # a memoising user filter: the same array OBJECT for a repeated series
            key = (x.dtype.str, np.asarray(x).tobytes())
            if key not in memo:
                memo[key] = a * x + b
            return memo[key]
        return f
    raise ValueError(kind)


def exact_filter(tok, s):
    """the same filters on lists of Fractions (independent of numpy), for the oracle"""
    if tok is None:
        return list(s)
    kind = tok[0]
    if kind in ("affine", "memoaffine"):
        return [fr(tok[1]) * x + fr(tok[2]) for x in s]
    if kind == "ident":
        return list(s)
    if kind == "reverse":
        return list(reversed(s))
    if kind == "cumsum":
        out, acc = [], Fraction(0)
        for x in s:
            acc += x
            out.append(acc)
        return out
    if kind == "square":
        return [x * x for x in s]
    raise ValueError(kind)


def coq_filter(tok):
    if tok is None:
        return "None"
    kind = tok[0]
    if kind in ("affine", "memoaffine"):
        return f"(Some (FAffine {cq(tok[1])} {cq(tok[2])}))"
    if kind == "ident":
        return "(Some (FAffine 1 0))"
    return {"reverse": "(Some FReverse)", "cumsum": "(Some FCumsum)", "square": "(Some FSquare)"}[kind]


def token_class():
    from black_it.loss_functions.base import BaseLoss

    class TokenLoss(BaseLoss):
        def __init__(self, w, f):
            super().__init__(w, f)
            self.log = []
            self.tlog = {}          # per calling thread (round 4: concurrent evaluations of one object)
            self.barrier = None

        def compute_loss_1d(self, sim_data_ensemble, real_data):
            entry = (np.array(sim_data_ensemble, dtype=float, copy=True), np.array(real_data, dtype=float, copy=True))
            self.log.append(entry)
            tid = threading.current_thread().name     # (the harness names its threads; get_ident() values are reused)
            first = tid not in self.tlog
            self.tlog.setdefault(tid, []).append(entry)
            ens = [[fr(x) for x in s] for s in np.asarray(sim_data_ensemble)]
            v = token_l1_exact(ens, [fr(x) for x in np.asarray(real_data)])
            f = float(v)
            assert Fraction(f) == v, "token value not representable"
            if first and self.barrier is not None:
                # every thread stops inside its first single-coordinate evaluation until all the others are inside theirs: each
                # evaluation has then started (weights / filters checked, data filtered) before any of them has accumulated anything
                try:
                    self.barrier.wait(timeout=1.0)
                except threading.BrokenBarrierError:
                    pass            # an implementation that serialises evaluations is still pure
            return f

    return TokenLoss


def dy(rng, lo, hi, den):
    return rng.randint(lo * den, hi * den) / den


TOKEN_FILTER_KINDS = ["reverse", "cumsum", "square"]


def _token_wlist(rng, n):
    return [dy(rng, -2, 2, 8) if rng.below(6) else 0.0 for _ in range(n)]


def _token_flist(rng, n, new=False):
    out = []
    for _ in range(n):
        if new and out and rng.below(4) == 0:
            out.append(rng.choice(out))          # the same filter (object) for several coordinates
            continue
        k = rng.below(9 if new else 7)
        out.append(None if k < 2 else ("affine", dy(rng, -2, 2, 4), dy(rng, -2, 2, 4)) if k < 4
                   else ("reverse",) if k == 4 else ("cumsum",) if k == 5 else ("square",) if k == 6
                   else ("ident",) if k == 7 else ("memoaffine", dy(rng, -2, 2, 4), dy(rng, -2, 2, 4)))
    return out


def gen_token_case(rng):
    D = 0 if rng.below(25) == 0 else rng.randint(1, 5)
    E, N = rng.randint(1, 4), rng.randint(3, 12)
    sim = [[[dy(rng, -4, 4, 8) for _ in range(D)] for _ in range(N)] for _ in range(E)]  # (E,N,D)
    real = [[dy(rng, -4, 4, 8) for _ in range(D)] for _ in range(N)]  # (N,D)

    def wlist(n):
        return _token_wlist(rng, n)

    def flist(n):
        return _token_flist(rng, n)

    def wrong(n):
        c = [x for x in (n - 1, n + 1, n + 2, 0) if x >= 0 and x != n]
        return rng.choice(c)

    mode = rng.below(10)
    wm = rng.below(4)  # 0: None, else given
    fm = rng.below(4)
    weights = None if wm == 0 else wlist(D)
    filters = None if fm == 0 else flist(D)
    if mode == 0:
        weights = wlist(wrong(D))
    elif mode == 1:
        filters = flist(wrong(D))
    elif mode == 2:
        weights, filters = wlist(wrong(D)), flist(wrong(D))
    w_as = rng.choice(["array", "list", "intarray", "intlist"])
    if w_as.startswith("int") and weights is not None:
        weights = [float(round(x)) for x in weights]          # whole numbers, so that they can be given with an integer dtype
    case = {"part": "token", "D": D, "E": E, "N": N, "sim": sim, "real": real, "weights": weights, "filters": filters,
            "w_as": w_as, "f_as": rng.choice(["list", "tuple"]),
            "rel": rng.choice(["perm", "onehot", "zero", "linear"]),
            "perm": _perm(rng, D), "w2": wlist(D), "a": dy(rng, -2, 2, 4), "b": dy(rng, -2, 2, 4),
            "j": rng.below(max(D, 1))}
    if rng.below(3):
        case = widen_token_case(rng, case)
    return case


def widen_token_case(rng, case):
    """Round 4: the same logical case in one of the other representations the property quantifies over - data as float32 /
    float16 / int64 / int32, Fortran-ordered / strided / transposed / reversed views, read-only arrays, at a level (65536) that is
    large relative to its O(1) variation, signed zeros; weights as tuple / float32 array / list of numpy scalars / read-only or
    strided array, all of them tiny (2^-40: nothing an `isclose` would still call non-zero) or huge (2^30), -0.0 for a zero
    weight, more than ten coordinates; filters as an object array, identity filters that hand back the caller's own view,
    memoising filters.  Every variant is kept only when the user-side arithmetic (the filters, the token loss, the products and
    their sums) is EXACT on it, so that the comparison stays an equality."""
    import copy

    c = copy.deepcopy(case)
    D, E, N = c["D"], c["E"], c["N"]
    c["rep_sim"], c["rep_real"] = gen_repr(rng), gen_repr(rng)
    if rng.below(10) == 0 and D >= 1:                                   # more than ten coordinates
        D2 = rng.randint(11, 13)
        c["N"] = N = rng.randint(3, 5)
        c["sim"] = [[[dy(rng, -4, 4, 8) for _ in range(D2)] for _ in range(N)] for _ in range(E)]
        c["real"] = [[dy(rng, -4, 4, 8) for _ in range(D2)] for _ in range(N)]
        if c["weights"] is not None and len(c["weights"]) == D:
            c["weights"] = _token_wlist(rng, D2)
        if c["filters"] is not None and len(c["filters"]) == D:
            c["filters"] = _token_flist(rng, D2, new=True)
        c["w2"], c["perm"], c["j"] = _token_wlist(rng, D2), _perm(rng, D2), rng.below(D2)
        c["D"] = D = D2
    if c["filters"] is not None:
        c["filters"] = [t if rng.below(4) else rng.choice([("ident",), ("memoaffine", dy(rng, -2, 2, 4), dy(rng, -2, 2, 4))])
                        for t in c["filters"]]
        if len(c["filters"]) >= 2 and rng.below(3) == 0:      # the same filter (object) for two coordinates
            a_, b_ = rng.below(len(c["filters"])), rng.below(len(c["filters"]))
            c["filters"][b_] = c["filters"][a_]
    for key, rp in (("sim", c["rep_sim"]), ("real", c["rep_real"])):
        if rp["dtype"] in ("i8", "i4"):
            c[key] = (np.round(np.array(c[key], dtype=float))).tolist()
    level = 65536.0 if rng.below(4) == 0 and c["rep_sim"]["dtype"] in ("f8", "i8") and c["rep_real"]["dtype"] in ("f8", "i8") else 0.0
    if level:
        c["level"] = level
        c["sim"] = (np.array(c["sim"], dtype=float).reshape(E, N, D) + level).tolist()
        c["real"] = (np.array(c["real"], dtype=float).reshape(N, D) + level).tolist()
    if rng.below(5) == 0:                                               # signed zeros in the data
        for key in ("sim", "real"):
            a = np.array(c[key], dtype=float)
            a[a == 0.0] = -0.0
            c[key] = a.tolist()
    ws = rng.choice([1.0, 1.0, 2.0 ** -40, 2.0 ** 30])
    if ws != 1.0:
        c["wscale"] = ws
        if c["weights"] is not None:
            c["weights"] = [x * ws for x in c["weights"]]
        c["w2"] = [x * ws for x in c["w2"]]
    if rng.below(4) == 0:
        if c["weights"] is not None:
            c["weights"] = [(-0.0 if x == 0.0 else x) for x in c["weights"]]
    c["w_as"] = rng.choice(W_AS)
    if c["w_as"].startswith("int") and c["weights"] is not None:
        c["weights"] = [float(round(x)) for x in c["weights"]]
    c["f_as"] = rng.choice(["list", "tuple", "objarray"])
    if token_case_exact(c):
        return c
    return case


def _perm(rng, n):
    p = list(range(n))
    rng.shuffle(p)
    return p


def _arrays2(case):
    """(sim, real, sim buffer, real buffer) in the case's representation"""
    D, E, N = case["D"], case["E"], case["N"]
    sim, bs = represent(np.array(case["sim"], dtype=float).reshape(E, N, D), case.get("rep_sim"))
    real, br = represent(np.array(case["real"], dtype=float).reshape(N, D), case.get("rep_real"))
    return sim, real, bs, br


def _arrays(case):
    return _arrays2(case)[:2]


def _as_weights(case, w):
    """weights as the caller may legitimately give them: float array, list of floats, or - when every weight is a whole number -
    an INTEGER-typed array / list of Python ints (e.g. np.array([2, 1, 3]) or a 0/1 mask); round 4: a tuple, a float32 array
    (when it holds the values exactly), a list of numpy scalars of mixed types, a read-only array, a strided view"""
    if w is None:
        return None
    kind = case.get("w_as", "array")
    if kind.startswith("int") and all(float(x).is_integer() for x in w):
        return np.array([int(x) for x in w], dtype=np.int64) if kind == "intarray" else [int(x) for x in w]
    if kind == "tuple":
        return tuple(float(x) for x in w)
    if kind == "f4array" and all(float(np.float32(x)) == float(x) for x in w):
        return np.array(w, dtype=np.float32)
    if kind == "npscalars":
        out = []
        for k, x in enumerate(w):
            if k % 3 == 1 and float(np.float32(x)) == float(x):
                out.append(np.float32(x))
            elif k % 3 == 2 and float(x).is_integer() and abs(x) < 2 ** 31:
                out.append(np.int32(int(x)))
            else:
                out.append(np.float64(x))
        return out
    if kind == "roarray":
        a = np.array(w, dtype=float)
        a.setflags(write=False)
        return a
    if kind == "stridedarray":
        base = np.full(2 * len(w) + 1, 77.0)
        base[1::2] = w
        return base[1::2]
    return np.array(w, dtype=float) if kind in ("array", "intarray", "f4array") else list(w)


def _mk_w(case, w):
    return _as_weights(case, w)


def _mk_f(case, f):
    if f is None:
        return None
    same = {}                # one filter OBJECT for equal filter tokens: the same callable may be given for several coordinates
    fl = [None if t is None else same.setdefault(json.dumps(t), py_filter(t)) for t in f]
    if case["f_as"] == "objarray":
        a = np.empty(len(fl), dtype=object)
        for k, x in enumerate(fl):
            a[k] = x
        return a
    return fl if case["f_as"] == "list" else tuple(fl)


def _snap_w(w):
    if isinstance(w, np.ndarray):
        return snap_arr(w, w.base if isinstance(w.base, np.ndarray) else None)
    return (type(w).__name__, repr([(type(x).__name__, repr(x)) for x in w])) if w is not None else None


MSG = re.compile(r"the length of coordinate_(weights|filters) should be equal to the number of coordinates, got (\d+) and (\d+)")


def _outcome(fn):
    try:
        v = float(fn())
        if not np.isfinite(v):      # impossible for finite weights and the (finite) token values
            return ("err", "non-finite value", None, -1, -1, repr(v))
        return ("val", v)
    except Exception as e:  # noqa: BLE001
        m = MSG.search(str(e))
        return ("err", type(e).__name__, m.group(1) if m else None, int(m.group(2)) if m else -1,
                int(m.group(3)) if m else -1, str(e)[:120])


def eval_token(case, weights, filters, sim, real, bases=(None, None)):
    """one evaluation of the real compute_loss with the token loss; returns (outcome, log, purity_ok)"""
    Token = token_class()
    w = _mk_w(case, weights)
    obj = Token(w, _mk_f(case, filters))
    before = (snap_arr(sim, bases[0]), snap_arr(real, bases[1]), _snap_w(w))
    out = _outcome(lambda: obj.compute_loss(sim, real))
    pure = before == (snap_arr(sim, bases[0]), snap_arr(real, bases[1]), _snap_w(w))
    return out, obj.log, pure


def _token_weight_vectors(case, rel=True):
    """every weight vector the evaluations of run_token use on the case (for the exactness pre-check)"""
    D, ws = case["D"], case["weights"]
    if ws is not None and len(ws) != D:
        return []
    out = [[Fraction(1, max(D, 1))] * D if ws is None else [fr(x) for x in ws]]
    if D >= 1 and rel:
        w1 = list(ws) if ws is not None else [1.0] * D
        w2, a, b = case["w2"], case["a"], case["b"]
        w3 = [a * x + b * y for x, y in zip(w1, w2)]
        if any(fr(z) != fr(a) * fr(x) + fr(b) * fr(y) for x, y, z in zip(w1, w2, w3)):
            return None
        w0 = list(ws) if ws is not None else list(w2)
        w0[case["j"]] = 0.0
        out += [[fr(x) for x in v] for v in (w1, w2, w3, w0)]
    return out


def token_case_exact(case, rel=True):
    """True when the user-side arithmetic is exact on the case in its representation: the numpy filters give the mathematical
    filter on the represented columns, the token values are floats, every product weight * value lies on one binary grid on
    which all their sums (in any order) are floats.  Judges the harness's own ingredients only - never the code under test."""
    D, E, N = case["D"], case["E"], case["N"]
    fs = case["filters"]
    if fs is not None and len(fs) != D:
        fs = None
    try:
        sim, real, _, _ = _arrays2(case)
    except AssertionError:
        return False
    l1 = []
    with np.errstate(all="ignore"):
        for i in range(D):
            tok = None if fs is None else fs[i]
            ens = []
            for e in range(E):
                col = sim[e, :, i]
                want = exact_filter(tok, [fr(x) for x in col])
                f = py_filter(tok)
                got = col if f is None else np.asarray(f(col))
                if [fr(x) for x in got] != want:
                    return False
                ens.append(want)
            v = token_l1_exact(ens, [fr(x) for x in real[:, i]])
            if Fraction(float(v)) != v:
                return False
            l1.append(v)
    wvs = _token_weight_vectors(case, rel)
    if wvs is None:
        return False
    for k, wv in enumerate(wvs):
        prods = [w * v for w, v in zip(wv, l1)]
        nz = [p for p in prods if p != 0]
        if not nz:
            continue
        if k == 0 and case["weights"] is None and D not in (1, 2, 4, 8):
            continue                                   # 1/D is rounded: judged with the 1e-12 tolerance of token_tol
        g = max(p.denominator for p in nz)             # denominators are powers of two
        if g & (g - 1):
            return False
        if sum(abs(p) for p in nz) * g >= 2 ** 52 or any(Fraction(float(p)) != p for p in nz):
            return False
    return True


def run_token(case):
    sim, real, bs, br = _arrays2(case)
    out, log, pure = eval_token(case, case["weights"], case["filters"], sim, real, (bs, br))
    obs = {"out": list(out), "log": [(e.tolist(), r.tolist()) for e, r in log], "pure": pure, "rel": None}
    D = case["D"]
    # one relational run per case (only meaningful when the base evaluation returned - and was right to: a wrong-length list
    # that was accepted is the oracle's business)
    lengths_ok = all(x is None or len(x) == D for x in (case["weights"], case["filters"]))
    if out[0] == "val" and D >= 1 and lengths_ok:
        ws = case["weights"] if case["weights"] is not None else None
        fs = case["filters"]
        rel = case["rel"]
        if rel == "perm":
            p = case["perm"]
            o2, _, _ = eval_token(case, None if ws is None else [ws[i] for i in p], None if fs is None else [fs[i] for i in p],
                                  np.ascontiguousarray(sim[:, :, p]), np.ascontiguousarray(real[:, p]))
            obs["rel"] = ["perm", list(o2)]
        elif rel == "onehot":
            j = case["j"]
            oh = [1.0 if i == j else 0.0 for i in range(D)]
            o2, _, _ = eval_token(case, oh, fs, sim, real, (bs, br))
            o3, _, _ = eval_token(case, [1.0], None if fs is None else [fs[j]], sim[:, :, j:j + 1], real[:, j:j + 1])
            obs["rel"] = ["onehot", list(o2), list(o3)]
        elif rel == "zero" and D >= 2:
            j = case["j"]
            w0 = list(ws) if ws is not None else list(case["w2"])
            w0[j] = 0.0
            keep = [i for i in range(D) if i != j]
            o2, _, _ = eval_token(case, w0, fs, sim, real, (bs, br))
            o3, _, _ = eval_token(case, [w0[i] for i in keep], None if fs is None else [fs[i] for i in keep],
                                  np.ascontiguousarray(sim[:, :, keep]), np.ascontiguousarray(real[:, keep]))
            obs["rel"] = ["zero", list(o2), list(o3)]
        elif rel == "linear":
            w1 = list(ws) if ws is not None else [1.0] * D
            w2, a, b = case["w2"], case["a"], case["b"]
            w3 = [a * x + b * y for x, y in zip(w1, w2)]
            o1, _, _ = eval_token(case, w1, fs, sim, real, (bs, br))
            o2, _, _ = eval_token(case, w2, fs, sim, real, (bs, br))
            o3, _, _ = eval_token(case, w3, fs, sim, real, (bs, br))
            obs["rel"] = ["linear", list(o1), list(o2), list(o3)]
    return obs


# ====================================================================================================
# part (i''), round 4: ONE token loss object used again - reassigned attributes, other shapes, arrays changed in place by the
# caller, rejected evaluations in between, concurrent evaluations
# ====================================================================================================
def _token_step(rng, D, E, N, weights, filters, w_as, f_as, reps, how):
    ints_s, ints_r = reps[0]["dtype"] in ("i8", "i4"), reps[1]["dtype"] in ("i8", "i4")

    def val(ints):
        return float(rng.randint(-4, 4)) if ints else dy(rng, -4, 4, 8)

    return {"part": "token", "D": D, "E": E, "N": N, "how": how,
            "sim": [[[val(ints_s) for _ in range(D)] for _ in range(N)] for _ in range(E)],
            "real": [[val(ints_r) for _ in range(D)] for _ in range(N)],
            "weights": weights, "filters": filters, "w_as": w_as, "f_as": f_as, "rep_sim": reps[0], "rep_real": reps[1]}


def gen_tokenseq_case(rng):
    """a history of evaluations of one object; every step records the weights / filters IN FORCE at that step"""
    def reps():
        return (gen_repr(rng, ("f8", "f4", "i8", "i4")), gen_repr(rng, ("f8", "f4", "i8", "i4")))

    def pick_w(D, allow_wrong=True):
        k = rng.below(8)
        if k == 0:
            return None
        if k == 1 and allow_wrong:
            return _token_wlist(rng, rng.choice([x for x in (D - 1, D + 1, D + 2, 0) if x >= 0 and x != D]))
        return _token_wlist(rng, D)

    def pick_f(D, allow_wrong=True):
        k = rng.below(8)
        if k < 2:
            return None
        if k == 2 and allow_wrong:
            return _token_flist(rng, rng.choice([x for x in (D - 1, D + 1, D + 2, 0) if x >= 0 and x != D]), new=True)
        return _token_flist(rng, D, new=True)

    for _ in range(50):
        threads = rng.below(4) == 0
        w_as, f_as = rng.choice(W_AS), rng.choice(["list", "tuple", "objarray"])
        steps = []
        if threads:
            K = rng.randint(2, 3)
            shared_none = rng.below(2) == 0
            D0 = rng.randint(1, 4)
            w = None if shared_none else _token_wlist(rng, D0)
            f = None if shared_none or rng.below(2) else _token_flist(rng, D0, new=True)
            for k in range(K):
                D = rng.randint(1, 5) if shared_none else D0
                steps.append(_token_step(rng, D, rng.randint(1, 3), rng.randint(3, 8), w, f, w_as, f_as, reps(), "thread"))
        else:
            D = rng.randint(1, 4)
            st = _token_step(rng, D, rng.randint(1, 3), rng.randint(3, 8), pick_w(D), pick_f(D), w_as, f_as, reps(), "new")
            steps.append(st)
            for _k in range(rng.randint(2, 5)):
                prev = steps[-1]
                how = rng.choice(["keep", "keep", "inplace", "reassign_w", "reassign_f", "reassign_both"])
                w, f, D = prev["weights"], prev["filters"], prev["D"]
                if how == "inplace":
                    st = _token_step(rng, D, prev["E"], prev["N"], w, f, w_as, f_as, (prev["rep_sim"], prev["rep_real"]), how)
                elif how == "keep":
                    # the attributes are left alone; the data have another ensemble size and length - and, when neither weights
                    # nor filters were given, another number of coordinates
                    D2 = rng.randint(1, 5) if w is None and f is None and rng.below(2) else D
                    st = _token_step(rng, D2, rng.randint(1, 3), rng.randint(3, 8), w, f, w_as, f_as, reps(), how)
                else:
                    D2 = rng.randint(1, 5) if rng.below(2) else D
                    if how in ("reassign_w", "reassign_both"):
                        w = pick_w(D2)
                    if how in ("reassign_f", "reassign_both"):
                        f = pick_f(D2)
                    st = _token_step(rng, D2, rng.randint(1, 3), rng.randint(3, 8), w, f, w_as, f_as, reps(), how)
                steps.append(st)
        if all(token_case_exact(st, rel=False) for st in steps):
            return {"part": "tokenseq", "threads": threads, "steps": steps}
    raise AssertionError("harness: no exact token sequence in 50 draws")


def run_tokenseq(case):
    Token = token_class()
    steps = case["steps"]
    s0 = steps[0]
    obj = Token(_mk_w(s0, s0["weights"]), _mk_f(s0, s0["filters"]))
    obs = []

    def one(st, sim, real, bs, br, log_of):
        w = obj.coordinate_weights
        before = (snap_arr(sim, bs), snap_arr(real, br), _snap_w(w))
        out = _outcome(lambda: obj.compute_loss(sim, real))
        pure = before == (snap_arr(sim, bs), snap_arr(real, br), _snap_w(obj.coordinate_weights))
        return {"out": list(out), "log": [(e.tolist(), r.tolist()) for e, r in log_of()], "pure": pure, "rel": None}

    if case["threads"]:
        obj.barrier = threading.Barrier(len(steps))
        res = [None] * len(steps)
        arrs = [_arrays2(st) for st in steps]

        def work(k):
            res[k] = one(steps[k], *arrs[k], lambda: obj.tlog.get(f"c08-step-{k}", []))

        ts = [threading.Thread(target=work, args=(k,), name=f"c08-step-{k}") for k in range(len(steps))]
        for t in ts:
            t.start()
        for t in ts:
            t.join()
        return res
    arrs = None
    for k, st in enumerate(steps):
        how = st["how"]
        if k and how in ("reassign_w", "reassign_both"):
            obj.coordinate_weights = _mk_w(st, st["weights"])
        if k and how in ("reassign_f", "reassign_both"):
            obj.coordinate_filters = _mk_f(st, st["filters"])
        if how == "inplace":
            # the caller writes the new data into the very arrays of the previous evaluation
            overwrite(arrs[0], np.array(st["sim"], dtype=float).reshape(arrs[0].shape))
            overwrite(arrs[1], np.array(st["real"], dtype=float).reshape(arrs[1].shape))
        else:
            arrs = _arrays2(st)
        n0 = len(obj.log)
        obs.append(one(st, *arrs, lambda: obj.log[n0:]))
    return obs


def token_tol(case, obs):
    """0 (exact) unless the default weights 1/D are not dyadic"""
    D = case["D"]
    if case["weights"] is None and D not in (0, 1, 2, 4) and obs["out"][0] == "val":
        s = sum(abs(float(token_l1_exact([[fr(x) for x in s] for s in e], [fr(x) for x in r]))) for e, r in obs["log"])
        return 1e-12 * (1.0 + s)
    return 0.0


def oracle_token(case, obs):
    """the property statement on the implementation's observations, independent of the Coq model"""
    fails = []
    D, E, N = case["D"], case["E"], case["N"]
    ws, fs = case["weights"], case["filters"]
    out = obs["out"]
    if not obs["pure"]:
        fails.append("purity: an input array / the weight vector changed during compute_loss")
    bad_w = ws is not None and len(ws) != D
    bad_f = fs is not None and len(fs) != D
    if bad_w or bad_f:
        if out[0] != "err" or out[1] != "ValueError":
            fails.append(f"wrong_length: weights {None if ws is None else len(ws)}, filters {None if fs is None else len(fs)}, "
                         f"D={D} not rejected with ValueError: {out}")
        else:
            want = "weights" if bad_w else "filters"
            if out[2] != want:
                fails.append(f"wrong_length: the first failing check should be coordinate_{want}, message was about {out[2]}")
        if obs["log"]:
            fails.append("wrong_length: compute_loss_1d was called before the length checks")
        return fails
    if out[0] != "val":
        return [f"unexpected exception {out}"]
    # arguments seen by compute_loss_1d: filter_i(sim[e,:,i]) for every member, real[:,i] untouched
    sim = [[[fr(case["sim"][e][t][i]) for t in range(N)] for i in range(D)] for e in range(E)]  # e,i,t
    real = [[fr(case["real"][t][i]) for t in range(N)] for i in range(D)]
    if len(obs["log"]) != D:
        fails.append(f"compute_loss_1d called {len(obs['log'])} times for {D} coordinates")
        return fails
    total = Fraction(0)
    for i in range(D):
        want_ens = [exact_filter(None if fs is None else fs[i], sim[e][i]) for e in range(E)]
        got_ens = [[fr(x) for x in s] for s in obs["log"][i][0]] if np.ndim(obs["log"][i][0]) == 2 else obs["log"][i][0]
        got_real = [fr(x) for x in np.ravel(obs["log"][i][1])]
        if got_ens != want_ens:
            fails.append(f"filters: coordinate {i}: compute_loss_1d did not receive filter_i(sim[:, :, i])")
        if got_real != real[i]:
            fails.append(f"filters: coordinate {i}: compute_loss_1d did not receive real[:, i] verbatim")
        w = Fraction(1, D) if ws is None else fr(ws[i])
        total += w * token_l1_exact(want_ens, real[i])
    tol = token_tol(case, obs)
    if abs(fr(out[1]) - total) > fr(tol):
        fails.append(f"weighted_sum: value {out[1]!r} != sum_i w_i * single_i = {float(total)!r}")
    rel = obs["rel"]
    if rel:
        def val(o):
            return fr(o[1]) if o[0] == "val" else None
        if rel[0] == "perm":
            if val(rel[1]) is None or abs(val(rel[1]) - fr(out[1])) > 2 * fr(tol):
                fails.append(f"coord_perm: permuted evaluation {rel[1]} != {out[1]!r}")
        elif rel[0] == "onehot":
            if val(rel[1]) is None or val(rel[1]) != val(rel[2]):
                fails.append(f"onehot: one-hot evaluation {rel[1]} != single-coordinate evaluation {rel[2]}")
        elif rel[0] == "zero":
            if val(rel[1]) is None or val(rel[1]) != val(rel[2]):
                fails.append(f"zero_weight: {rel[1]} != evaluation without the coordinate {rel[2]}")
        elif rel[0] == "linear":
            v1, v2, v3 = val(rel[1]), val(rel[2]), val(rel[3])
            if None in (v1, v2, v3) or v3 != fr(case["a"]) * v1 + fr(case["b"]) * v2:
                fails.append(f"linear: L(a w + b w') = {rel[3]} != a L(w) + b L(w') with {rel[1]}, {rel[2]}")
    return fails


def cser(s):
    return clist([cq(x) for x in s])


def emit_token(case, obs):
    D, E, N = case["D"], case["E"], case["N"]
    ws, fs = case["weights"], case["filters"]
    cw = "None" if ws is None else f"(Some {cser(ws)})"
    cf = "None" if fs is None else f"(Some {clist([coq_filter(t) for t in fs])})"
    sim = clist([clist([cser([case["sim"][e][t][i] for t in range(N)]) for i in range(D)]) for e in range(E)])
    real = clist([cser([case["real"][t][i] for t in range(N)]) for i in range(D)])
    out = obs["out"]
    if out[0] == "val":
        o = f"(ObsVal {cq(out[1])})"
    elif out[1] == "ValueError" and out[2] == "weights":
        o = f"(ObsErr (WeightsLen {cnat(out[3])} {cnat(out[4])}))"
    elif out[1] == "ValueError" and out[2] == "filters":
        o = f"(ObsErr (FiltersLen {cnat(out[3])} {cnat(out[4])}))"
    else:
        o = "(ObsErr (WeightsLen 0%nat 0%nat))"  # never produced by the model: forces a mismatch
    # (an argument of the wrong rank - possible only on a changed tree - is emitted flattened: it cannot match the model's)
    args = clist([f"({clist([cser(s) for s in np.atleast_2d(np.array(e, dtype=float)).reshape(-1, max(1, np.shape(e)[-1] if np.ndim(e) else 1)).tolist()])}, "
                  f"{cser(np.ravel(np.array(r, dtype=float)).tolist())})" for e, r in obs["log"]])
    return f"({cw}, {cf}, {sim}, {real}, {o}, {args}, {cq(token_tol(case, obs))})"


# ====================================================================================================
# part (i'): exact specs of built-in single-coordinate losses
# ====================================================================================================
def token_moments_np(s):
    s = np.asarray(s, dtype=float)
    k = np.arange(1, len(s) + 1, dtype=float)
    return np.array([np.mean(s), np.mean(s * s), s[0] * s[-1], np.sum(k * s)])


def gen_spec_case(rng):
    kind = rng.below(4)
    E, N = rng.randint(1, 4), rng.randint(3, 12)
    if kind == 3:
        E = rng.randint(2, 4)
    ens = [[dy(rng, -4, 4, 8) for _ in range(N)] for _ in range(E)]
    real = [dy(rng, -4, 4, 8) for _ in range(N)]
    if rng.below(8) == 0 and kind != 3:
        ens = [list(real) for _ in range(E)]  # zero-when-equal instance
    elif kind <= 1 and rng.below(3) == 0:
        # round 4: Minkowski far from the origin - series at the level 2^26 (6.7e7) with O(1) dyadic variation, 1, 2 or 4 members
        # (their mean is then exact): the definition |mean_e s_e - r|_p loses nothing (the differences are exact, measured error
        # of the class <= 2e-16 relative), a |x|^2 + |y|^2 - 2 x.y shortcut rounds 2^52-sized squares and is off by O(N)
        E = rng.choice([1, 2, 4])
        lvl = 2.0 ** 26
        same = rng.below(4) == 0
        real = [lvl + dy(rng, -4, 4, 8) for _ in range(N)]
        ens = [[x if same else lvl + dy(rng, -4, 4, 8) for x in real] for _ in range(E)]
        return {"part": "spec", "kind": kind, "ens": ens, "real": real, "style": "far-from-origin"}
    elif kind >= 2 and rng.below(3) == 0:
        # series at a level that is large relative to the spread of the ensemble, members that nearly coincide (all values
        # dyadic, so that the moments are exact up to one rounding): E[m^2] - E[m]^2 style shortcuts lose everything here,
        # the definition mean_j (r - s_j)^2 loses nothing
        base = [64.0 + dy(rng, -4, 4, 8) for _ in range(N)]
        ens = [[b + rng.randint(-2, 2) / 256.0 for b in base] for _ in range(E)]
        real = [b + rng.randint(-3, 3) / 256.0 for b in base]   # the data are as close to the members as they are to each other
        # measured: the definition evaluated in binary64 is within 4e-12 (relative) of the exact value on these data, a one-pass
        # variance is off by 2e-9 and more
        return {"part": "spec", "kind": kind, "ens": ens, "real": real, "rtol": 1e-10, "style": "near-coincident"}
    if rng.below(4) == 0:
        # round 4: whole numbers handed over as int64 / int32 arrays
        return {"part": "spec", "kind": kind, "ens": [[float(round(x)) for x in s] for s in ens], "real": [float(round(x)) for x in real],
                "dtype": rng.choice(["i8", "i4"]), "style": "integer-dtype"}
    return {"part": "spec", "kind": kind, "ens": ens, "real": real}


def run_spec(case):
    from black_it.loss_functions.minkowski import MinkowskiLoss
    from black_it.loss_functions.msm import MethodOfMomentsLoss

    dt = DTYPES[case.get("dtype", "f8")]
    ens = np.array(case["ens"], dtype=float).astype(dt)[:, :, None]
    real = np.array(case["real"], dtype=float).astype(dt)[:, None]
    k = case["kind"]
    obj = (MinkowskiLoss(p=1) if k == 0 else MinkowskiLoss(p=2) if k == 1
           else MethodOfMomentsLoss(covariance_mat="identity", moment_calculator=token_moments_np) if k == 2
           else MethodOfMomentsLoss(covariance_mat="inverse_variance", moment_calculator=token_moments_np))
    with np.errstate(all="ignore"):
        v = float(obj.compute_loss(ens, real))
    return {"v": v}


def emit_spec(case, obs):
    v = obs["v"]
    scale = v * v if case["kind"] == 1 else abs(v)
    tol = case.get("rtol", 1e-11) * (1.0 + scale)
    return f"({cnat(case['kind'])}, {clist([cser(s) for s in case['ens']])}, {cser(case['real'])}, {cq(v)}, {cq(tol)})"


# ====================================================================================================
# part (ii): relational runs of the built-in losses
# ====================================================================================================
NAMED_FILTERS = {
    "affine": lambda x: 2.0 * x + 1.0,
    "cumsum": lambda x: np.cumsum(x),
    "demean": lambda x: x - np.mean(x),
    "cube": lambda x: x ** 3 / 4.0,
    "halve": lambda x: 0.5 * x,
}


def custom_moments(s):
    s = np.asarray(s, dtype=float)
    return np.array([np.mean(s), np.std(s), np.mean(np.abs(np.diff(s))), np.max(s) - np.min(s), np.mean(s ** 3)])


def view_moments(s):
    """a user moment calculator whose result ALIASES its argument (a view): the loss must not write into it"""
    return np.asarray(s)[:5]


_MEMO = {}


def memo_moments(s):
    """a memoising user moment calculator: returns its cached array object on a repeated series"""
    s = np.asarray(s, dtype=float)
    key = s.tobytes()
    v = _MEMO.get(key)
    if v is None:
        if len(_MEMO) > 4000:
            _MEMO.clear()
        v = _MEMO[key] = custom_moments(s)
    return v


def sym_matrix(seed, k):
    r = np.random.RandomState(seed)  # data only; seed comes from the check's PRNG and is stored in the case
    a = r.uniform(-1, 1, size=(k, k))
    return (a + a.T) / 2.0


LOSS_KINDS = [
    # name, uses base compute_loss (weights honoured), nonneg claimed, zero-when-equal claimed
    ("minkowski_p1", True, True, True), ("minkowski_p2", True, True, True), ("minkowski_p3", True, True, True),
    ("msm_identity_default", True, True, True), ("msm_identity_custom", True, True, True),
    ("msm_identity_custom_std", True, True, True),
    ("msm_identity_view_std", True, True, True), ("msm_identity_memo_std", True, True, True),
    ("msm_invvar_view", True, True, False), ("msm_identity_memo", True, True, True),
    ("msm_invvar_custom", True, True, False), ("msm_invvar_default", True, True, False),
    ("msm_invvar_custom_std", True, True, False),
    ("msm_W_custom", True, False, False), ("msm_W_default", True, False, False),
    ("fourier_gauss", True, True, True), ("fourier_ideal", True, True, True),
    ("gsl_default", True, False, False), ("gsl_small", True, False, False),
    ("likelihood_silverman", False, False, False), ("likelihood_scott", False, False, False),
    ("likelihood_h", False, False, False),
]
KIND_INFO = {k[0]: k for k in LOSS_KINDS}
HEAVY = {"msm_identity_default", "msm_invvar_default", "msm_W_default"}


def make_loss(case, weights, filters):
    """a fresh loss object of the case's kind with the given weights / filter list"""
    from black_it.loss_functions.fourier import FourierLoss, gaussian_low_pass_filter, ideal_low_pass_filter
    from black_it.loss_functions.gsl_div import GslDivLoss
    from black_it.loss_functions.likelihood import LikelihoodLoss
    from black_it.loss_functions.minkowski import MinkowskiLoss
    from black_it.loss_functions.msm import MethodOfMomentsLoss

    k = case["kind"]
    kw = {"coordinate_weights": weights, "coordinate_filters": filters}
    opt = public_options(case)
    if k.startswith("minkowski_p"):
        return MinkowskiLoss(p=opt["p"], **kw)
    if k == "msm_identity_default":
        return MethodOfMomentsLoss(covariance_mat="identity", **kw)
    if k == "msm_identity_custom":
        return MethodOfMomentsLoss(covariance_mat="identity", moment_calculator=custom_moments, **kw)
    if k == "msm_identity_custom_std":
        return MethodOfMomentsLoss(covariance_mat="identity", moment_calculator=custom_moments, standardise_moments=True, **kw)
    if k == "msm_identity_view_std":
        return MethodOfMomentsLoss(covariance_mat="identity", moment_calculator=view_moments, standardise_moments=True, **kw)
    if k == "msm_identity_memo_std":
        return MethodOfMomentsLoss(covariance_mat="identity", moment_calculator=memo_moments, standardise_moments=True, **kw)
    if k == "msm_identity_memo":
        return MethodOfMomentsLoss(covariance_mat="identity", moment_calculator=memo_moments, **kw)
    if k == "msm_invvar_view":
        return MethodOfMomentsLoss(covariance_mat="inverse_variance", moment_calculator=view_moments, **kw)
    if k == "msm_invvar_custom":
        return MethodOfMomentsLoss(covariance_mat="inverse_variance", moment_calculator=custom_moments, **kw)
    if k == "msm_invvar_custom_std":
        return MethodOfMomentsLoss(covariance_mat="inverse_variance", moment_calculator=custom_moments, standardise_moments=True, **kw)
    if k == "msm_invvar_default":
        return MethodOfMomentsLoss(covariance_mat="inverse_variance", **kw)
    if k == "msm_W_custom":
        return MethodOfMomentsLoss(covariance_mat=sym_matrix(case["wseed"], 5), moment_calculator=custom_moments, **kw)
    if k == "msm_W_default":
        return MethodOfMomentsLoss(covariance_mat=sym_matrix(case["wseed"], 18), **kw)
    if k in ("fourier_gauss", "fourier_ideal"):
        return FourierLoss(frequency_filter=opt["frequency_filter"], f=opt["f"], **kw)
    if k in ("gsl_default", "gsl_small"):
        return GslDivLoss(nb_values=opt["nb_values"], nb_word_lengths=opt["nb_word_lengths"], **kw)
    if k.startswith("likelihood_"):
        return LikelihoodLoss(h=opt["h"], **kw)
    raise ValueError(k)


def public_options(case, decoy=False):
    """the PUBLIC option attributes of the case's loss (name -> value), in the type the case asks for (round 4: numpy scalars,
    an int where a float is usual and vice versa); decoy=True gives other values of the same options - an object built with the
    decoy values and then reassigned the real ones must behave like one built with the real ones"""
    from black_it.loss_functions.fourier import gaussian_low_pass_filter, ideal_low_pass_filter

    k, how = case["kind"], case.get("opt_as", "plain")
    if k.startswith("minkowski_p"):
        p = int(k[-1])
        if decoy:
            p = p % 3 + 1
        return {"p": np.int64(p) if how == "np" else float(p) if how == "alt" else p}
    if k.startswith("fourier_"):
        f = case["f"]
        ff = gaussian_low_pass_filter if k == "fourier_gauss" else ideal_low_pass_filter
        if decoy:
            f = 0.6 if f != 0.6 else 0.4
            ff = ideal_low_pass_filter if k == "fourier_gauss" else gaussian_low_pass_filter
        return {"frequency_filter": ff, "f": np.float64(f) if how == "np" else 1 if how == "alt" and f == 1.0 else f}
    if k.startswith("gsl_"):
        nv, nw = (None, None) if (k == "gsl_default") != decoy else (3, 2)
        if how == "np" and nv is not None:
            nv, nw = np.int64(nv), np.int32(nw)
        return {"nb_values": nv, "nb_word_lengths": nw}
    if k.startswith("likelihood_"):
        h = {"likelihood_silverman": "silverman", "likelihood_scott": "scott", "likelihood_h": 0.9}[k]
        if decoy:
            h = "scott" if h != "scott" else 1.3
        elif k == "likelihood_h":
            h = np.float64(0.9) if how == "np" else 1 if how == "alt" else 0.9
        return {"h": h}
    return {}


def gen_builtin_case(rng, kind=None):
    kind = kind or rng.choice([k[0] for k in LOSS_KINDS if k[0] not in HEAVY] * 4 + sorted(HEAVY))
    D, E = rng.randint(1, 4), rng.randint(1, 4)
    N = rng.randint(9, 20) if kind in HEAVY else rng.randint(6, 24)
    scale = rng.choice([1.0, 1.0, 10.0, 0.1])

    def arr(*shape):
        n = int(np.prod(shape))
        return (np.array([rng.uniform(-1, 1) + 0.3 * rng.uniform(-1, 1) for _ in range(n)]) * scale).reshape(shape).tolist()

    fm = rng.below(3)
    filters = None if fm == 0 else [None if rng.below(3) == 0 else rng.choice(sorted(NAMED_FILTERS)) for _ in range(D)]
    wm = rng.below(4)
    weights = None if wm == 0 else [round(rng.uniform(0, 2), 3) if rng.below(5) else 0.0 for _ in range(D)]
    E2, N2 = rng.randint(1, 4), (rng.randint(9, 20) if kind in HEAVY else rng.randint(6, 24))
    w_as = rng.choice(["array", "list", "intarray", "intlist"])
    if w_as.startswith("int") and weights is not None:
        weights = [float(rng.randint(0, 3)) for _ in range(D)]
    wide = rng.below(3) > 0                    # round 4: two cases in three leave the plain representation / configuration
    Nsim = N
    if wide:
        if kind not in HEAVY and rng.below(4) == 0:
            N = rng.randint(3, 5)                                              # series of length 3-5
            Nsim = N
        if kind.split("_")[0] in ("msm", "gsl", "likelihood") and "view" not in kind and rng.below(3) == 0:
            Nsim = rng.randint(9, 20) if kind in HEAVY else rng.randint(max(3, N - 4), N + 6)   # sim_length != data length
        if rng.below(8) == 0 and kind not in HEAVY:
            D = rng.randint(11, 12)                                            # more than ten coordinates
            N = Nsim = min(N, 8)
            filters = None if filters is None else [None if rng.below(3) == 0 else rng.choice(sorted(NAMED_FILTERS)) for _ in range(D)]
            weights = None if weights is None else [round(rng.uniform(0, 2), 3) if rng.below(5) else 0.0 for _ in range(D)]
        w_as = rng.choice(W_AS)
        if w_as.startswith("int") and weights is not None:
            weights = [float(rng.randint(0, 3)) for _ in range(D)]
    wscale = rng.choice([1.0, 1.0, 1e-9, 1e6]) if wide else 1.0   # all weights tiny (below any `isclose` threshold) or huge
    if weights is not None:
        weights = [x * wscale for x in weights]
        if w_as == "f4array":
            weights = [float(np.float32(x)) for x in weights]
        if wide and rng.below(4) == 0:
            weights = [(-0.0 if x == 0.0 else x) for x in weights]
    extra = {}
    if wide:
        dts = ("f4", "i8", "i4")
        extra = {"rep_sim": gen_repr(rng, dts), "rep_real": gen_repr(rng, dts), "opt_as": rng.choice(["plain", "np", "alt"]),
                 "Nsim": Nsim, "scale": scale, "wscale": wscale}
    return {"part": "builtin", "kind": kind, "D": D, "E": E, "N": N, "sim": arr(E, Nsim, D), "real": arr(N, D),
            "weights": weights, "filters": filters, "w_as": w_as, **extra,
            "f": rng.choice([0.1, 0.3, 0.5, 0.8, 1.0]), "wseed": rng.below(1 << 30),
            "other_sim": arr(E2, N2, D), "other_real": arr(N2, D), "other_wrongD_real": arr(N2, D + 1),
            "other_wrongD_sim": arr(E2, N2, D + 1),
            "w1": [round(rng.uniform(-2, 2), 3) * wscale for _ in range(D)],
            "w2": [round(rng.uniform(-2, 2), 3) * wscale for _ in range(D)],
            "a": round(rng.uniform(-2, 2), 3), "b": round(rng.uniform(-2, 2), 3),
            "j": rng.below(D), "perm": _perm(rng, D), "eperm": _perm(rng, E),
            "wrong_w": rng.choice([x for x in (D - 1, D + 1, D + 2, 0) if x != D and x >= 0]),
            "wrong_f": rng.choice([x for x in (D - 1, D + 1, D + 2, 0) if x != D and x >= 0])}


def bits(x):
    return struct.pack("<d", float(x))


def snap_obj(obj):
    out = {}
    for k, v in sorted(vars(obj).items()):
        if isinstance(v, np.ndarray):
            out[k] = ("nd", v.dtype.str, v.shape, v.tobytes())
        elif isinstance(v, (list, tuple)):
            out[k] = ("seq", tuple(id(x) if callable(x) else repr(x) for x in v))
        elif callable(v):
            out[k] = ("fn", id(v))
        else:
            out[k] = ("val", repr(v))
    return out


class Rel:
    """collects relation results for one built-in case"""

    def __init__(self):
        self.n = 0
        self.fails = []
        self.skipped = Counter()
        self.done = Counter()

    def check(self, name, ok, detail):
        self.n += 1
        self.done[name] += 1
        if not ok:
            self.fails.append((name, detail))


def close(a, b, scale, rtol=RTOL):
    if not (np.isfinite(a) and np.isfinite(b)):
        return (np.isnan(a) and np.isnan(b)) or a == b
    return abs(a - b) <= rtol * max(scale, 1e-300)


def quantise(a, rep, scale=1.0):
    """the logical float64 values the representation holds exactly: rounded to float32, or to whole numbers (eighths of the
    case's scale) for the integer dtypes"""
    a = np.asarray(a, dtype=float)
    dt = (rep or {}).get("dtype", "f8")
    if dt == "f4":
        return a.astype(np.float32).astype(float)
    if dt in ("i8", "i4"):
        return np.round(a * 8.0 / scale)
    return a


def run_builtin(case):
    """all relations of the property statement that apply to the case's loss; returns (Rel, info)"""
    kind = case["kind"]
    _, base, nonneg, zero_eq = KIND_INFO[kind]
    D, E, N = case["D"], case["E"], case["N"]
    Nsim = case.get("Nsim", N)
    rs, rr, sc = case.get("rep_sim"), case.get("rep_real"), case.get("scale", 1.0)
    sim = quantise(np.array(case["sim"], dtype=float).reshape(E, Nsim, D), rs, sc)
    real = quantise(np.array(case["real"], dtype=float).reshape(N, D), rr, sc)
    f4 = "f4" in ((rs or {}).get("dtype"), (rr or {}).get("dtype"))
    # float32 data: the built-in losses compute in float32 (mean / minkowski / fft of float32 arrays), two mathematically equal
    # evaluation orders then differ by <= 7.7e-8 of (values + data magnitude) (measured over 800 cases); float64 / integer data: 1e-9
    # (measured 4.3e-15)
    rtol = 1e-5 if f4 else RTOL
    mag = float(max(np.max(np.abs(sim), initial=0.0), np.max(np.abs(real), initial=0.0))) if f4 else 0.0
    fnames = case["filters"]

    def mkf(names):
        return None if names is None else [None if n is None else NAMED_FILTERS[n] for n in names]

    def mkw(w):
        return _as_weights(case, w)

    R = Rel()
    info = {}
    pure_fail = []

    def snap_in(obj, s, bs, r, br):
        cov = getattr(obj, "_covariance_mat", None)
        return (snap_arr(s, bs), snap_arr(r, br), _snap_w(obj.coordinate_weights),
                cov.tobytes() if isinstance(cov, np.ndarray) else repr(cov))

    def ev_raw(obj, s, bs, r, br, tag):
        """one evaluation on arrays that are already in their representation, with snapshots of every input"""
        before = snap_in(obj, s, bs, r, br)
        with warnings.catch_warnings(), np.errstate(all="ignore"):
            warnings.simplefilter("ignore")
            try:
                v = float(obj.compute_loss(s, r))
                err = None
            except Exception as e:  # noqa: BLE001
                v, err = None, e
        after = snap_in(obj, s, bs, r, br)
        if before != after:
            which = [n for n, x, y in zip(("sim", "real", "weights", "covariance_mat"), before, after) if x != y]
            pure_fail.append(f"{tag}: {which} changed")
        if err is not None:
            raise err
        return v

    def ev(obj, s, r, tag):
        """one evaluation of logical arrays handed over in the case's representation"""
        s, bs = represent(s, rs)
        r, br = represent(r, rr)
        return ev_raw(obj, s, bs, r, br, tag)

    ws, fs = case["weights"], mkf(fnames)
    obj = make_loss(case, mkw(ws), fs)
    snap0 = snap_obj(obj)
    v = ev(obj, sim, real, "main")
    info["value"] = v
    R.check("purity", not pure_fail, "; ".join(pure_fail))

    # ---- history independence: same object, unrelated evaluations (incl. a failing one) in between
    osim = quantise(np.array(case["other_sim"], dtype=float).reshape(-1, len(case["other_real"]), D), rs, sc)
    oreal = quantise(np.array(case["other_real"], dtype=float).reshape(-1, D), rr, sc)
    for s, r in ((osim, oreal), (quantise(np.array(case["other_wrongD_sim"], dtype=float).reshape(osim.shape[0], osim.shape[1], D + 1), rs, sc),
                                  quantise(np.array(case["other_wrongD_real"], dtype=float).reshape(-1, D + 1), rr, sc))):
        try:
            ev(obj, s, r, "unrelated")
        except Exception:  # noqa: BLE001
            pass
    v_again = ev(obj, sim, real, "again")
    v_fresh = ev(make_loss(case, mkw(ws), fs), sim, real, "fresh")
    R.check("history", bits(v_again) == bits(v) and bits(v_fresh) == bits(v),
            f"first {v!r}, after unrelated evaluations {v_again!r}, fresh object {v_fresh!r}")
    snap1 = snap_obj(obj)
    R.check("object_state", snap0 == snap1, f"attributes changed: {sorted(k for k in set(snap0) | set(snap1) if snap0.get(k) != snap1.get(k))}")

    def quiet(f):
        try:
            return f()
        except Exception:  # noqa: BLE001
            return None

    # ---- round 4: data holding nan / inf / -0.0 (a diverged simulation).  Whatever the value (or the exception), the arrays come
    # back untouched - "cleaning" the caller's array in place is a modification that ordinary data never reveal
    if (rs or {}).get("dtype", "f8") in ("f8", "f4") and (rr or {}).get("dtype", "f8") in ("f8", "f4") and sim.size >= 3:
        s_nf, r_nf = sim.copy(), real.copy()
        s_nf.flat[0], s_nf.flat[s_nf.size // 2], s_nf.flat[-1] = np.nan, -0.0, np.inf
        r_nf.flat[r_nf.size // 2] = -np.inf if case["j"] % 2 else np.nan
        n_before = len(pure_fail)
        quiet(lambda: ev(make_loss(case, mkw(ws), fs), s_nf, r_nf, "non-finite data"))
        R.check("purity_nonfinite_data", len(pure_fail) == n_before, "; ".join(pure_fail[n_before:]))

    # ---- round 4: the unrelated data FIRST on a fresh object, then the case's data
    o2 = make_loss(case, mkw(ws), fs)
    quiet(lambda: ev(o2, osim, oreal, "other_first"))
    v_of = ev(o2, sim, real, "after_other")
    R.check("history_other_first", bits(v_of) == bits(v), f"first evaluation of an object {v!r}, as second evaluation (other data first) {v_of!r}")

    # ---- round 4: attributes reassigned after construction - the value in force is the assigned one.  An object built with OTHER
    # weights, filters and public options (and used once with them) is given the case's weights / filters / options through
    # its public attributes
    o3 = make_loss(case, mkw(case["w1"]), [NAMED_FILTERS["cube"]] * D if fs is None else None)
    for k_, v_ in public_options(case, decoy=True).items():
        setattr(o3, k_, v_)
    quiet(lambda: ev(o3, osim, oreal, "decoy"))
    o3.coordinate_weights = mkw([0.5] * case["wrong_w"])          # a rejected evaluation in between
    quiet(lambda: ev(o3, sim, real, "decoy_rejected"))
    o3.coordinate_weights = mkw(ws)
    o3.coordinate_filters = fs
    for k_, v_ in public_options(case).items():
        setattr(o3, k_, v_)
    v_re = ev(o3, sim, real, "reassigned")
    R.check("reassigned_attributes", bits(v_re) == bits(v),
            f"object constructed with the options {v!r}; options assigned after construction (and after an evaluation with other "
            f"options and a rejected one) {v_re!r}")

    # ---- round 4: the caller reuses its arrays: other values first, then the case's data written into the same arrays in place
    o4 = make_loss(case, mkw(ws), fs)
    s4, bs4 = represent(np.roll(sim, 1, axis=1)[::-1], dict(rs or {}, readonly=False))
    r4, br4 = represent(np.roll(real, 2, axis=0), dict(rr or {}, readonly=False))
    quiet(lambda: ev_raw(o4, s4, bs4, r4, br4, "reused_arrays_before"))
    overwrite(s4, sim)
    overwrite(r4, real)
    v_ip = ev_raw(o4, s4, bs4, r4, br4, "reused_arrays")
    R.check("arrays_changed_in_place", bits(v_ip) == bits(v), f"{v!r} on fresh arrays, {v_ip!r} on arrays that held other values at "
            "the previous evaluation of the same object and were overwritten in place")

    # ---- round 4: two evaluations of one object at the same time (the statement makes every evaluation a function of its
    # arguments and the options only).  The first user filter call of each thread waits for the other thread's: both evaluations
    # are then in progress together
    bar = [None]
    seen = set()

    def gate(f0):
        def g(x):
            tid = threading.current_thread().name
            if bar[0] is not None and tid not in seen:
                seen.add(tid)
                try:
                    bar[0].wait(timeout=1.0)
                except threading.BrokenBarrierError:
                    pass
            return x if f0 is None else f0(x)
        return g

    fs_g = [gate(None if fs is None else fs[i]) if i == 0 else (None if fs is None else fs[i]) for i in range(D)]
    o5 = make_loss(case, mkw(ws), fs_g)
    ser = [quiet(lambda: ev(o5, sim, real, "serial_a")), quiet(lambda: ev(o5, osim, oreal, "serial_b"))]
    bar[0] = threading.Barrier(2)
    par = [None, None]

    def work(k, s, r):
        par[k] = quiet(lambda: ev(o5, s, r, f"concurrent_{k}"))

    ts = [threading.Thread(target=work, args=(0, sim, real), name="c08-a"), threading.Thread(target=work, args=(1, osim, oreal), name="c08-b")]
    for t in ts:
        t.start()
    for t in ts:
        t.join()
    bar[0] = None
    R.check("concurrent", all((a is None and b is None) or (a is not None and b is not None and bits(a) == bits(b)) for a, b in zip(ser, par)),
            f"one after the other {ser}, at the same time from two threads {par}")
    R.check("purity_all", not pure_fail, "; ".join(pure_fail))

    finite = np.isfinite(v)
    if not finite:
        R.skipped["nonfinite_value"] += 1

    # ---- ensemble permutation
    ep = case["eperm"]
    v_ep = ev(make_loss(case, mkw(ws), fs), np.ascontiguousarray(sim[ep]), real, "ensemble_perm")
    singles = None
    if base:
        singles = []
        for i in range(D):
            o1 = make_loss(case, mkw([1.0]), None if fs is None else [fs[i]])
            singles.append(ev(o1, np.ascontiguousarray(sim[:, :, i:i + 1]), np.ascontiguousarray(real[:, i:i + 1]), f"single{i}"))
        info["singles"] = singles
    w_eff = [1.0 / D] * D if ws is None else list(ws)
    wmag = max([abs(x) for x in w_eff] + [0.0])
    scale = sum(abs(w * s) for w, s in zip(w_eff, singles)) if base and all(np.isfinite(singles)) else abs(v)
    scale_p = max(scale, abs(v) if finite else 0.0) + mag * wmag      # permutations change the float32 means by ~6e-8 * |data|
    R.check("ensemble_perm", close(v, v_ep, scale_p, rtol), f"{v!r} vs permuted ensemble {ep}: {v_ep!r}")

    # ---- joint permutation of coordinates + weights + filters
    p = case["perm"]
    v_cp = ev(make_loss(case, mkw(None if ws is None else [ws[i] for i in p]), None if fs is None else [fs[i] for i in p]),
              np.ascontiguousarray(sim[:, :, p]), np.ascontiguousarray(real[:, p]), "coord_perm")
    R.check("coord_perm", close(v, v_cp, scale_p, rtol), f"{v!r} vs coordinates permuted by {p}: {v_cp!r}")

    if base:
        if all(np.isfinite(singles)):
            # weighted sum of single-coordinate evaluations
            tot = sum(w * s for w, s in zip(w_eff, singles))
            R.check("weighted_sum", close(v, tot, scale, rtol), f"{v!r} vs sum_i w_i single_i = {tot!r} (singles {singles}, weights {w_eff})")
            # one-hot
            j = case["j"]
            v_oh = ev(make_loss(case, mkw([1.0 if i == j else 0.0 for i in range(D)]), fs), sim, real, "onehot")
            R.check("onehot", close(v_oh, singles[j], abs(singles[j]), rtol), f"one-hot({j}) {v_oh!r} vs single {singles[j]!r}")
            # linearity
            w1, w2, a, b = case["w1"], case["w2"], case["a"], case["b"]
            l1v = ev(make_loss(case, mkw(w1), fs), sim, real, "lin1")
            l2v = ev(make_loss(case, mkw(w2), fs), sim, real, "lin2")
            l3v = ev(make_loss(case, mkw([a * x + b * y for x, y in zip(w1, w2)]), fs), sim, real, "lin3")
            lsc = sum((abs(a * x) + abs(b * y)) * abs(s) for x, y, s in zip(w1, w2, singles))
            R.check("linear", close(l3v, a * l1v + b * l2v, lsc, rtol), f"L(a w+b w')={l3v!r} vs a L(w)+b L(w')={a * l1v + b * l2v!r}")
            # zero weight removes the coordinate
            if D >= 2:
                w0 = list(w1)
                w0[j] = -0.0 if case.get("wscale") else 0.0
                keep = [i for i in range(D) if i != j]
                z1 = ev(make_loss(case, mkw(w0), fs), sim, real, "zero1")
                z2 = ev(make_loss(case, mkw([w0[i] for i in keep]), None if fs is None else [fs[i] for i in keep]),
                        np.ascontiguousarray(sim[:, :, keep]), np.ascontiguousarray(real[:, keep]), "zero2")
                R.check("zero_weight", close(z1, z2, sum(abs(w0[i] * singles[i]) for i in keep), rtol),
                        f"weight 0 on {j}: {z1!r} vs without the coordinate: {z2!r}")
        else:
            R.skipped["nonfinite_single"] += 1
        # honours weights / filters at all? (recorded, not judged here)
        info["weights_honoured"] = None
        if D >= 2 and all(np.isfinite(singles)) and len({round(s, 9) for s in singles}) > 1:
            wa = ev(make_loss(case, mkw([1.0] + [0.0] * (D - 1)), fs), sim, real, "hon_w1")
            wb = ev(make_loss(case, mkw([0.0] * (D - 1) + [1.0]), fs), sim, real, "hon_w2")
            info["weights_honoured"] = bool(wa != wb)
    else:
        wa = ev(make_loss(case, mkw([1.0] + [0.0] * (D - 1)), fs), sim, real, "hon_w1")
        info["weights_honoured"] = bool(bits(wa) != bits(ev(make_loss(case, None, fs), sim, real, "hon_w0")))
    fa = ev(make_loss(case, mkw(ws), [NAMED_FILTERS["cube"]] + [None] * (D - 1)), sim, real, "hon_f1")
    fb = ev(make_loss(case, mkw(ws), None), sim, real, "hon_f0")
    if ws is None or ws[0] != 0.0:
        info["filters_honoured"] = bool(bits(fa) != bits(fb)) if np.isfinite(fa) and np.isfinite(fb) else None

    # ---- non-negativity (weights >= 0 by construction of case["weights"])
    if nonneg:
        if finite:
            R.check("nonneg", v >= 0.0, f"value {v!r} < 0 with weights {w_eff}")
        else:
            R.skipped["nonneg_nonfinite"] += 1
    # ---- zero when every member equals the real data (no filters)
    # (a configuration whose value is non-finite on generic data too - e.g. the Gaussian Fourier mask with
    #  round(f * n_freq) = 0, i.e. sigma = 0 - is degenerate for every input and left to C07)
    if zero_eq:
        # values that both representations hold exactly
        dts = {(rs or {}).get("dtype", "f8"), (rr or {}).get("dtype", "f8")}
        real_c = np.array(case["real"], dtype=float).reshape(N, D)
        real_c = (np.round(real_c * 8.0 / sc) if dts & {"i8", "i4"} else real_c.astype(np.float32).astype(float) if "f4" in dts else real_c)
        eq = np.ascontiguousarray(np.broadcast_to(real_c, (E, N, D)))
        vz = ev(make_loss(case, mkw(ws), None), eq, real_c, "equal")
        tolz = (rtol * wmag if case.get("wscale") else RTOL) * (1.0 + float(np.max(np.abs(real_c)))) ** 2
        # standardised moments divide by |real moment|: a real moment that is exactly 0 (whole-number data) makes 0/0
        zero_mom = kind.endswith("_std") and any(
            np.any(np.asarray((view_moments if "view" in kind else custom_moments)(real_c[:, i]), dtype=float) == 0.0) for i in range(D))
        if zero_mom:
            R.skipped["zero_when_equal_standardised_by_a_zero_moment"] += 1
        elif finite and np.isfinite(fb):
            R.check("zero_when_equal", np.isfinite(vz) and abs(vz) <= tolz, f"every member equals the real data but the loss is {vz!r}")
        else:
            R.skipped["zero_when_equal_degenerate_configuration"] += 1

    # ---- wrong lengths
    def rejected(w, f):
        try:
            r = ev(make_loss(case, w, f), sim, real, "wrong_length")
            return ("ok", r)
        except ValueError as e:
            return ("ValueError", str(e)[:100])
        except Exception as e:  # noqa: BLE001
            return (type(e).__name__, str(e)[:100])

    rw = rejected(mkw([0.5] * case["wrong_w"]), fs)
    rf = rejected(mkw(ws), [None] * case["wrong_f"])
    info["wrong_weights"] = rw
    info["wrong_filters"] = rf
    if base:
        R.check("wrong_length_weights", rw[0] == "ValueError", f"{case['wrong_w']} weights for D={D}: {rw}")
    else:
        info["likelihood_ignores_weights"] = rw[0] == "ok"
    R.check("wrong_length_filters", rf[0] == "ValueError", f"{case['wrong_f']} filters for D={D}: {rf}")
    return R, info


# ====================================================================================================
def case_key(case):
    return json.dumps(case, sort_keys=True, default=str)


def illconditioned_nonneg(chk, dist):
    """Non-negativity where it is numerically hard: series at a large level, ensemble members that nearly coincide (the
    inverse-variance weights 1/mean_j (r - s_j)^2 are sums of squares, so are the Minkowski / Fourier / identity-MSM values:
    none of them may come out negative, whatever the rounding)."""
    from black_it.loss_functions.fourier import FourierLoss
    from black_it.loss_functions.minkowski import MinkowskiLoss
    from black_it.loss_functions.msm import MethodOfMomentsLoss

    rng = chk.rng
    np_rng = np.random.default_rng(rng.below(2**31))
    n = 0
    mk = {"msm_invvar_default": lambda: MethodOfMomentsLoss(covariance_mat="inverse_variance"),
          "msm_invvar_custom": lambda: MethodOfMomentsLoss(covariance_mat="inverse_variance", moment_calculator=custom_moments),
          "msm_identity_default": lambda: MethodOfMomentsLoss(covariance_mat="identity"),
          "minkowski_p2": lambda: MinkowskiLoss(p=2), "fourier_gauss": lambda: FourierLoss(),
          "minkowski_p1": lambda: MinkowskiLoss(p=1)}
    eps = 2.0 ** -52
    for i in range(60 if chk.tier == "quick" else 480):
        kind = sorted(mk)[(i // 2) % len(mk)] if i % 2 else "msm_invvar_default"
        level = rng.choice([1e4, 1e6, 1e8, 1e8])
        jitter = rng.choice([1e-3, 1e-5, 1e-2])
        # (three members: the float mean of three numbers depends on their order and the mean of three equal floats need not be
        #  that float - with two or four members both are exact)
        E, N = rng.choice([3, 3, 2, 4]), rng.randint(30, 60)
        base = level + np.cumsum(np_rng.standard_normal(N))
        sim = np.stack([base + jitter * np_rng.standard_normal(N) for _ in range(E)])[:, :, None]
        real = (base + rng.uniform(0.0, 3.0))[:, None]
        try:
            v = float(mk[kind]().compute_loss(sim, real))
        except Exception as e:  # noqa: BLE001
            chk.violation({"kind": "builtin", "loss": kind, "relation": "exception"},
                          {"failed": f"oracle:unexpected exception {type(e).__name__}: {e}",
                           "case": {"illconditioned": {"kind": kind, "level": level, "jitter": jitter, "E": E, "N": N}}})
            continue
        n += 1
        dist["relation:nonneg_illconditioned"] += 1
        if np.isfinite(v) and v < 0.0:
            chk.violation({"kind": "builtin", "loss": kind, "relation": "nonneg"},
                          {"failed": f"oracle:nonneg: value {v!r} < 0 for series at level {level:g} whose {E} ensemble members differ by {jitter:g}",
                           "case": {"illconditioned": {"kind": kind, "level": level, "jitter": jitter, "E": E, "N": N,
                                                       "sim": sim.tolist(), "real": real.tolist()}}})
        # round 4: the other relations far from the origin.  Reordering the members moves their float mean by an ulp of the level:
        # measured on the unchanged tree |v - v'| <= 0.25 eps L N (Minkowski, Fourier), <= 0.4 eps L N |v| (identity MSM), <= 2e-3
        # eps L / jitter |v| (inverse variance: the deviations r - s_j are differences of nearly equal numbers); a shortcut that
        # squares the series first (|x|^2 + |y|^2 - 2 x.y, E[m^2] - E[m]^2) is off by eps L^2, i.e. 1e4 ... 1e8 times more.
        # Members equal to the data: measured <= 0.22 eps L N (the mean of three equal floats is not always that float).
        case_ = {"illconditioned": {"kind": kind, "level": level, "jitter": jitter, "E": E, "N": N, "sim": sim.tolist(), "real": real.tolist()}}
        ep = list(range(E))
        rng.shuffle(ep)
        with np.errstate(all="ignore"):
            v_ep = float(mk[kind]().compute_loss(np.ascontiguousarray(sim[ep]), real))
        n += 1
        dist["relation:ensemble_perm_illconditioned"] += 1
        if np.isfinite(v) and not (np.isfinite(v_ep) and abs(v - v_ep) <= 64 * eps * level * max(N, 1.0 / jitter) * max(1.0, abs(v))):
            chk.violation({"kind": "builtin", "loss": kind, "relation": "ensemble_perm"},
                          {"failed": f"oracle:ensemble_perm: {v!r} vs members reordered by {ep}: {v_ep!r} (series at level {level:g}, "
                                     f"members differing by {jitter:g})", "case": case_})
        if kind in ("minkowski_p1", "minkowski_p2", "fourier_gauss", "msm_identity_default"):
            with np.errstate(all="ignore"):
                vz = float(mk[kind]().compute_loss(np.ascontiguousarray(np.broadcast_to(real, (E, N, 1))), real))
            n += 1
            dist["relation:zero_when_equal_illconditioned"] += 1
            if not (np.isfinite(vz) and abs(vz) <= 16 * eps * level * N):
                chk.violation({"kind": "builtin", "loss": kind, "relation": "zero_when_equal"},
                              {"failed": f"oracle:zero_when_equal: every member equals the real data (level {level:g}) but the loss is {vz!r}",
                               "case": case_})
    return n


def run(chk, replay=None):
    warnings.filterwarnings("ignore")
    chk.proof_gate()
    quick = chk.tier == "quick"
    rng = chk.rng
    if replay:
        cases = [json.loads(open(replay).read())["case"]]
    else:
        cases = []
        corpus = common.CORPUS / "C08"
        for f in sorted(corpus.glob("*.json")):
            cases.append(json.loads(f.read_text())["case"])
        n_token, n_spec, n_builtin = (260, 120, 64) if quick else (3000, 1200, 620)
        n_seq = 60 if quick else 600
        cases += [gen_token_case(rng) for _ in range(n_token)]
        cases += [gen_tokenseq_case(rng) for _ in range(n_seq)]
        cases += [gen_spec_case(rng) for _ in range(n_spec)]
        kinds = [k[0] for k in LOSS_KINDS]
        # every kind at least twice, then random
        cases += [gen_builtin_case(rng, k) for k in kinds for _ in range(2)]
        cases += [gen_builtin_case(rng) for _ in range(n_builtin - 2 * len(kinds))]

    dist = Counter()
    relations = 0
    nontrivial = set()
    samples = []
    honours = {}
    skipped = Counter()

    # ---------------- token part (single cases, then the steps of the one-object histories: every step is judged - by the oracle
    # and by the model - as the evaluation of a fresh object holding the weights / filters in force at that step)
    tok = [c for c in cases if c["part"] == "token"]
    tobs = [run_token(c) for c in tok]
    seq_of = [None] * len(tok)
    for sc_ in [c for c in cases if c["part"] == "tokenseq"]:
        so = run_tokenseq(sc_)
        dist["tokenseq:" + ("threads" if sc_["threads"] else "one-after-the-other")] += 1
        for k_, (st, o) in enumerate(zip(sc_["steps"], so)):
            tok.append(st)
            tobs.append(o)
            seq_of.append((sc_, k_))
            dist[f"tokenseq:step={st['how']}"] += 1
    lits = [emit_token(c, o) for c, o in zip(tok, tobs)]
    bad, errors = chk.coq_mismatches("C08", IMPORTS, "check_case", CASE_T, lits, shard=20) if tok else ([], [])
    for i, (c, o) in enumerate(zip(tok, tobs)):
        fails = oracle_token(c, o)
        relations += 1 + (1 if o["rel"] else 0)
        dist[f"token:D={c['D']}"] += 1
        dist[f"token:E={c['E']}"] += 1
        dist["token:weights=" + ("None" if c["weights"] is None else "ok" if len(c["weights"]) == c["D"] else "wrong")] += 1
        dist["token:filters=" + ("None" if c["filters"] is None else "ok" if len(c["filters"]) == c["D"] else "wrong")] += 1
        dist["token:outcome=" + ("value" if o["out"][0] == "val" else f"{o['out'][1]}:{o['out'][2]}")] += 1
        if o["rel"]:
            dist["token:rel=" + o["rel"][0]] += 1
        for key in ("rep_sim", "rep_real"):
            if c.get(key):
                dist[f"token:{key[4:]}:dtype={c[key]['dtype']}"] += 1
                dist[f"token:{key[4:]}:layout={c[key]['layout']}" + (",read-only" if c[key]["readonly"] else "")] += 1
        dist[f"token:w_as={c['w_as']}"] += 1
        dist[f"token:f_as={c['f_as']}"] += 1
        if c.get("level"):
            dist["token:far-from-origin(65536)"] += 1
        if c.get("wscale"):
            dist[f"token:wscale={c['wscale']:g}"] += 1
        if c["D"] >= 2 and (c["weights"] is not None or c["filters"] is not None):
            nontrivial.add(case_key(c))
        whole = c if seq_of[i] is None else dict(seq_of[i][0], failing_step=seq_of[i][1])
        if fails:
            chk.violation({"kind": "token" if seq_of[i] is None else "token-history", "clause": fails[0].split(":")[0]},
                          {"failed": "oracle:" + fails[0], "all": fails, "case": whole, "observed": o})
        elif i in bad:
            chk.violation({"kind": "correspondence", "name": "compute_loss token_l1"},
                          {"failed": "correspondence:check_case (model and implementation disagree; the property oracle "
                                     "found no failing input)", "case": whole, "observed": o, "coq_case": lits[i]}, no_input=True)
    if tok:
        samples.append({"case": {k: tok[0][k] for k in ("D", "E", "N", "weights", "filters")}, "observed": tobs[0]["out"]})
    validated = len(tok) - len(bad)

    # ---------------- spec part
    spec = [c for c in cases if c["part"] == "spec"]
    sobs = []
    for c in spec:
        try:
            sobs.append(run_spec(c))
        except Exception as e:  # noqa: BLE001
            sobs.append({"v": float("nan")})
            chk.violation({"kind": "builtin", "loss": f"spec kind {c['kind']}", "relation": "exception"},
                          {"failed": f"oracle:unexpected exception {type(e).__name__}: {e}", "case": c})
    keep = [i for i, o in enumerate(sobs) if np.isfinite(o["v"])]
    skipped["spec_nonfinite(inverse variance with a zero variance)"] = len(spec) - len(keep)
    slits = [emit_spec(spec[i], sobs[i]) for i in keep]
    sbad, serrors = chk.coq_mismatches("C08spec", IMPORTS, "check_spec_case", SPEC_T, slits, shard=40) if slits else ([], [])
    for b in sbad:
        i = keep[b]
        chk.violation({"kind": "correspondence", "name": f"spec kind {spec[i]['kind']}"},
                      {"failed": "correspondence:check_spec_case (exact spec of a built-in 1-d loss differs from the class)",
                       "case": spec[i], "observed": sobs[i], "coq_case": slits[b]}, no_input=True)
    for c in spec:
        dist[f"spec:kind={c['kind']}"] += 1
        if c.get("style"):
            dist[f"spec:{c['style']}"] += 1
    validated += len(keep) - len(sbad)
    errors += serrors

    # ---------------- built-in part
    blt = [c for c in cases if c["part"] == "builtin"]
    for c in blt:
        try:
            R, info = run_builtin(c)
        except Exception as e:  # noqa: BLE001
            chk.violation({"kind": "builtin", "loss": c["kind"], "relation": "exception"},
                          {"failed": f"oracle:unexpected exception {type(e).__name__}: {e}", "case": c})
            continue
        relations += R.n
        skipped.update(R.skipped)
        dist[f"builtin:{c['kind']}"] += 1
        for key in ("rep_sim", "rep_real"):
            if c.get(key):
                dist[f"builtin:{key[4:]}:dtype={c[key]['dtype']}"] += 1
                dist[f"builtin:{key[4:]}:layout={c[key]['layout']}" + (",read-only" if c[key]["readonly"] else "")] += 1
        dist[f"builtin:w_as={c['w_as']}"] += 1
        if c.get("Nsim", c["N"]) != c["N"]:
            dist["builtin:sim_length!=data_length"] += 1
        if c["N"] <= 5:
            dist["builtin:N<=5"] += 1
        if c["D"] > 10:
            dist["builtin:D>10"] += 1
        if c.get("wscale", 1.0) != 1.0:
            dist[f"builtin:wscale={c['wscale']:g}"] += 1
        if c.get("opt_as", "plain") != "plain":
            dist[f"builtin:options_as={c['opt_as']}"] += 1
        for k, n in R.done.items():
            dist[f"relation:{k}"] += n
        cls = c["kind"].split("_")[0]
        h = honours.setdefault(cls, {"weights_honoured": set(), "filters_honoured": set(), "wrong_weights": set(), "wrong_filters": set()})
        for k in ("weights_honoured", "filters_honoured"):
            if info.get(k) is not None:
                h[k].add(info[k])
        h["wrong_weights"].add(info["wrong_weights"][0])
        h["wrong_filters"].add(info["wrong_filters"][0])
        if c["D"] >= 2:
            nontrivial.add(case_key(c))
        for name, detail in R.fails:
            if name == "wrong_length_filters" and c["kind"].startswith("minkowski"):
                desc = {"kind": "wrong_length_accepted", "loss": "MinkowskiLoss", "arg": "coordinate_filters"}
            else:
                desc = {"kind": "builtin", "loss": c["kind"], "relation": name}
            chk.violation(desc, {"failed": f"oracle:{name}: {detail}", "case": c, "observed": {k: (v if not isinstance(v, tuple) else list(v)) for k, v in info.items()}})
        if len(samples) < 4:
            samples.append({"case": {k: c[k] for k in ("kind", "D", "E", "N", "weights", "filters")}, "value": info.get("value")})
    for e in errors:
        chk.violation({"kind": "correspondence", "name": "coqc"}, {"failed": "correspondence:coqc", "detail": e}, no_input=True)
    if not replay:
        relations += illconditioned_nonneg(chk, dist)

    cov = {
        "evaluations": relations,
        "distinct_nontrivial": len(nontrivial),
        "rule": "evaluations = relations checked (token: value/arguments/exception case + one relational run, every step of a "
                "one-object history counted as a case; built-in: each relation of the statement that applies to the class); "
                "non-trivial = D >= 2 and (token) weights or filters given",
        "samples": samples,
        "traces_validated_against_impl": validated,
        "model_impl_disagreements": len(bad) + len(sbad),
        "token_cases": len(tok), "spec_cases": len(keep), "builtin_cases": len(blt),
        "distribution": dict(sorted(dist.items())),
        "skipped": dict(skipped),
        "honours": {k: {a: sorted(map(str, b)) for a, b in v.items()} for k, v in sorted(honours.items())},
        "clause_applicability": "weighted-sum / linearity / zero-weight / one-hot / wrong-length-weights apply to the classes that "
                                "inherit BaseLoss.compute_loss (Minkowski, MethodOfMoments, Fourier, GslDiv, user losses); "
                                "LikelihoodLoss overrides compute_loss, has no single-coordinate value (compute_loss_1d raises "
                                "NotImplementedError) and documents that weights are ignored with a RuntimeWarning: only purity, "
                                "history independence, ensemble / joint coordinate permutation and the filter-length check apply",
    }
    return chk.finish(
        cov,
        assumptions=["arrays are well shaped: sim (E,N,D) and real (N,D) with the same D (numpy raises IndexError otherwise)",
                     "filters return series of one common length (np.array of a ragged list raises)",
                     "the weighted sum is modelled over Q: float rounding is outside the theorems; on the dyadic correspondence "
                     "data every float operation of compute_loss is exact (except 1/D for D in {3,5}: tolerance 1e-12)",
                     "non-finite single-coordinate values (0*inf, nan) are outside the statement: a zero weight does not "
                     "remove a nan coordinate in IEEE arithmetic",
                     "float32 data: the built-in losses compute in float32, relations between two evaluation orders are judged at "
                     "1e-5 of (values + weight * data magnitude) (measured <= 7.7e-8); far-from-origin probe: 64 eps L max(N, 1/jitter)",
                     "concurrent evaluations are interleaved through the user callbacks (barrier, 1 s timeout): on a machine that "
                     "does not schedule both threads within the timeout the two evaluations run one after the other",
                     "data are numpy arrays (compute_loss reads .shape); Python lists are accepted for weights and filters only"],
        trusted=["modelled, not verified: numpy slicing / np.array stacking in _filter_data, len() of lists and arrays",
                 "the built-in losses' numerics (scipy minkowski, numpy fft, statsmodels acf) are only observed relationally"],
    )
