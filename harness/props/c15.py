"""C15 - search-space specifications are validated and discretised as documented.

Model: coq/Model/SearchSpace.v   Theorems: coq/Properties/C15.v
Correspondence (evaluated inside Coq, `check_case`):
  * validation: the exception class and every attribute raised by the real SearchSpace._check_bounds /
    SearchSpace(...) equal, exactly, what `check_bounds_F` (the cascade over IEEE binary64, PrimFloat) returns;
  * discretisation: len(param_grid[j]) equals ceil((fl(u+1e-7)-l)/p) computed in exact rationals (unless that quotient is
    within the rounding slack of an integer: "borderline", then +-1 is accepted) and the elements equal l+i*p within
    the rounding envelope of numpy's arange; space_size is the product of the observed lengths; dims.
Direct oracle (Python, on the implementation's observations, independent of the Coq model): the property statement.
"""
from __future__ import annotations

import json

import common
import math
from collections import Counter
from fractions import Fraction

import numpy as np

from common import cfloat, clist, cnat, cz

IMPORTS = "From Coq Require Import List ZArith QArith Floats.\nFrom BlackIt Require Import Model.SearchSpace."
CASE_T = "list (list float) * list float * obs"

EPS = 0.0000001  # the constant of search_space.py:77
EPSF = Fraction(EPS)
LATTICE = [-2.0, -1.0, -1e-9, 0.0, 1e-9, 1.0, 1.0 + 2.0 ** -52, 2.0, 1e300]
SPECIAL = [float("nan"), float("inf"), float("-inf"), -0.0,
           5e-324, -5e-324, 2.2250738585072014e-308, 1.7976931348623157e308]  # round 4: subnormals, min normal, max finite
MAX_POINTS = 1.0e6  # per parameter; larger grids are not constructed (validated through _check_bounds only)

# documented classes: Coq constructor, attributes in constructor order with their kinds
ERR_SPEC = {
    "BoundsNotOfSizeTwoError": ("BoundsNotOfSizeTwo", [("count_bounds_subarrays", "int")]),
    "BoundsOfDifferentLengthError": ("BoundsOfDifferentLength",
                                     [("lower_bounds_length", "int"), ("upper_bounds_length", "int")]),
    "BadPrecisionLengthError": ("BadPrecisionLength", [("precisions_length", "int"), ("bounds_length", "int")]),
    "SameLowerAndUpperBoundError": ("SameLowerAndUpperBound", [("param_index", "int"), ("bound_value", "float")]),
    "LowerBoundGreaterThanUpperBoundError": ("LowerBoundGreaterThanUpperBound",
                                             [("param_index", "int"), ("lower_bound", "float"), ("upper_bound", "float")]),
    "PrecisionZeroError": ("PrecisionZero", [("param_index", "int")]),
    "PrecisionGreaterThanBoundsRangeError": ("PrecisionGreaterThanBoundsRange",
                                             [("param_index", "int"), ("lower_bound", "float"), ("upper_bound", "float"),
                                              ("precision", "float")]),
}


def hx(x) -> str:
    x = float(x)
    return "nan" if math.isnan(x) else x.hex()


def fx(h: str) -> float:
    return float.fromhex(h)


NAMES = {hx(v): f"v{i}" for i, v in enumerate(LATTICE)}
NAMES.update({hx(v): f"s{i}" for i, v in enumerate(SPECIAL)})
PREAMBLE = "\n".join(
    [f"Definition v{i} : float := {cfloat(v)}." for i, v in enumerate(LATTICE)]
    + [f"Definition s{i} : float := {cfloat(v)}." for i, v in enumerate(SPECIAL)]
)


def cf(h: str) -> str:
    return NAMES.get(h) or cfloat(fx(h))


def mk_case(bounds, prec, flavour="list", family="?", ragged="seq"):
    return {"bounds": [[hx(v) for v in row] for row in bounds], "prec": [hx(v) for v in prec],
            "flavour": flavour, "family": family, "ragged": ragged}


# ------------------------------------------------------------------------------------------- implementation side
INT_DTYPES = {"int64": np.int64, "int32": np.int32, "int16": np.int16, "int8": np.int8, "uint8": np.uint8}
NARROW_FLOATS = {"f32": np.float32, "f16": np.float16}
# representations of the same numbers (round 4).  "list" and "ndarray" stay the most frequent ones.
EXTRA_FLAVOURS = ["tuple", "mixed", "int64", "readonly", "strided", "fortran", "negstride", "npscalars", "zerod", "object",
                  "f32", "int32", "f16", "list+ndarray", "ndarray+list", "int16", "uint8", "tuple+ndarray", "mixed+ndarray"]
# flavours whose entries may be integers: an integer in a payload field is then the offending value itself
INT_FLAVOURS = {"mixed", "mixed+ndarray", "intwrap"} | set(INT_DTYPES)


def int_ok(v) -> bool:
    """the float v can be handed over as an integer without changing anything the property looks at"""
    return math.isfinite(v) and v == int(v) and abs(v) <= 2.0 ** 52 and not (v == 0 and math.copysign(1.0, v) < 0)


def narrow_ok(b, p, dt) -> bool:
    """every entry, every range u-l and every l+p is exactly representable in the narrow float type dt: the
    implementation then computes with these scalars exactly what it computes with the same numbers in binary64
    (numpy subtracts / adds two float32 scalars in float32: with an inexact l+p the step np.arange uses is the
    float32-rounded one, a legitimate consequence of handing over single-precision data)"""
    def rep(x):
        if not math.isfinite(x):
            return False
        with np.errstate(all="ignore"):
            y = float(dt(x))
        return y == x
    if not (all(rep(v) for r in b for v in r) and all(rep(v) for v in p)):
        return False
    if len(b) >= 2:
        for l, u, pr in zip(b[0], b[1], p):
            for x in (Fraction(u) - Fraction(l), Fraction(l) + Fraction(pr)):
                f = float(x)
                if Fraction(f) != x or not rep(f):
                    return False
    return True


def int_array_ok(b, p, dt, allow_wrap=False):
    info = np.iinfo(dt)
    vals = [v for r in b for v in r]
    if not vals or not all(int_ok(v) and info.min <= int(v) <= info.max for v in vals):
        return False
    if not allow_wrap and len(b) >= 2:
        # the only arithmetic the cascade does on two entries is upper - lower (after lower < upper): keep it in range
        for l, u in zip(b[0], b[1]):
            if l < u and int(u) - int(l) > info.max:
                return False
    return True


def build_inputs(case):
    """(values of the bounds, values of the precisions, the two objects handed to the implementation, effective flavour)"""
    b = [[fx(h) for h in row] for row in case["bounds"]]
    p = [fx(h) for h in case["prec"]]
    fl = case["flavour"]
    conv = lambda v: int(v) if int_ok(v) else v  # noqa: E731
    if fl == "list":
        return b, p, [list(r) for r in b], list(p), fl
    if fl == "tuple":
        return b, p, tuple(tuple(r) for r in b), tuple(p), fl
    if fl == "mixed":          # what users write: [[0, 0.5], [1, 2]], [0.25, 1]
        return b, p, [[conv(v) for v in r] for r in b], [conv(v) for v in p], fl
    if fl == "mixed+ndarray":
        return b, p, [[conv(v) for v in r] for r in b], np.array(p, dtype=np.float64), fl
    if fl == "npscalars":
        return b, p, [[np.float64(v) for v in r] for r in b], [np.float64(v) for v in p], fl
    if fl == "zerod":
        return b, p, [[np.array(v) for v in r] for r in b], [np.array(v) for v in p], fl
    if fl == "list+ndarray":
        return b, p, [list(r) for r in b], np.array(p, dtype=np.float64), fl
    if fl == "tuple+ndarray":
        return b, p, tuple(tuple(r) for r in b), np.array(p, dtype=np.float64), fl
    rect = len({len(r) for r in b}) <= 1
    if not rect:
        if case.get("ragged") == "obj":
            B = np.empty(len(b), dtype=object)
            for i, r in enumerate(b):
                B[i] = np.array(r, dtype=np.float64)
            return b, p, B, np.array(p, dtype=np.float64), "ragged-object-array"
        return b, p, [np.array(r, dtype=np.float64) for r in b], np.array(p, dtype=np.float64), "ragged-list-of-arrays"
    n = len(b[0]) if b else 0
    A = np.array(b, dtype=np.float64).reshape(len(b), n)
    Pa = np.array(p, dtype=np.float64)
    if fl in NARROW_FLOATS and narrow_ok(b, p, NARROW_FLOATS[fl]):
        # narrow arrays holding exactly the same numbers (data read from a float32 file, a GPU pipeline, ...)
        return b, p, A.astype(NARROW_FLOATS[fl]), Pa.astype(NARROW_FLOATS[fl]), fl
    if fl in INT_DTYPES or fl == "intwrap":
        dt = INT_DTYPES[case.get("int_dtype", fl)] if fl == "intwrap" else INT_DTYPES[fl]
        if int_array_ok(b, p, dt, allow_wrap=(fl == "intwrap")):
            info = np.iinfo(dt)
            if p and all(int_ok(v) and info.min <= int(v) <= info.max for v in p):
                return b, p, A.astype(dt), Pa.astype(dt), fl
            return b, p, A.astype(dt), Pa, fl + "+float-precision"
    if fl == "ndarray+list":
        return b, p, A, list(p), fl
    if fl == "readonly":
        A.flags.writeable = False
        Pa.flags.writeable = False
        return b, p, A, Pa, fl
    if fl == "strided":        # every other column of a wider table; the columns in between would be malformed
        big = np.full((len(b), 2 * n), 7.25)
        big[:, 0::2] = A
        bigp = np.zeros(2 * len(p))
        bigp[0::2] = Pa
        return b, p, big[:, 0::2], bigp[0::2], fl
    if fl == "fortran":        # column-major storage (a transposed (n, 2) table)
        return b, p, np.asfortranarray(A), Pa, fl
    if fl == "negstride":
        return b, p, np.ascontiguousarray(A[:, ::-1])[:, ::-1], np.ascontiguousarray(Pa[::-1])[::-1], fl
    if fl == "object":
        return b, p, A.astype(object), Pa.astype(object), fl
    return b, p, A, Pa, "ndarray"


def safe_to_construct(b, p) -> bool:
    """False when SearchSpace(...) could try to allocate a huge grid (whatever _check_bounds says)."""
    if len(b) < 2:
        return True
    total = 0.0
    for l, u, pr in zip(b[0], b[1], p):
        if not (math.isfinite(l) and math.isfinite(u) and math.isfinite(pr)):
            return False
        if pr == 0:
            continue  # arange raises ZeroDivisionError at once
        n = (u + EPS - l) / pr
        if not abs(n) <= MAX_POINTS:  # numpy refuses (ValueError) or allocates: either way not part of the property
            return False
        # what is allocated is the SUM of the grid lengths; the product (space_size) is a Python int of any size
        # (round 4: the version of round 3 bounded the product, so that of the "big space" cases only 2^64 was built)
        total += max(n, 1.0)
        if total > 4 * MAX_POINTS:
            return False
    return True


def exc_record(e):
    from black_it import search_space as ss

    attrs = {}
    for k, v in vars(e).items():
        if isinstance(v, np.ndarray) and v.ndim == 0:
            v = v[()]  # a 0-d array entry is the scalar it holds
        if isinstance(v, (bool, np.bool_)):
            attrs[k] = ["other", repr(v)]
        elif isinstance(v, (int, np.integer)):
            attrs[k] = ["int", int(v)]
        elif isinstance(v, (float, np.floating)):
            attrs[k] = ["float", hx(v)]
        else:
            attrs[k] = ["other", repr(v)[:80]]
    return {
        "ok": False,
        "exc": type(e).__name__,
        "exact_class": getattr(ss, type(e).__name__, None) is type(e),
        "is_sse": isinstance(e, ss.SearchSpaceError) and isinstance(e, ValueError),
        "attrs": attrs,
        "msg": str(e)[:300],
    }


def sample_indices(n):
    if n <= 24:
        return list(range(n))
    idx = set(range(4)) | set(range(n - 4, n)) | {round(j * (n - 1) / 15) for j in range(16)}
    return sorted(idx)


def spec_values(spec):
    return [[fx(h) for h in row] for row in spec["bounds"]], [fx(h) for h in spec["prec"]]


def write_in_place(B, P, spec):
    """the caller overwrites its own arrays / lists with another specification"""
    b, p = spec_values(spec)
    if isinstance(B, np.ndarray):
        B[...] = np.array(b, dtype=np.float64).reshape(B.shape)
    else:
        B[:] = [list(r) for r in b]
    if isinstance(P, np.ndarray):
        P[...] = np.array(p, dtype=np.float64)
    else:
        P[:] = list(p)


def scribble(B, P):
    """the caller reuses its arrays / lists for something else after the construction; True if anything was changed"""
    done = False
    for X, val in ((B, 3.5), (P, -1.0)):
        if isinstance(X, np.ndarray):
            if X.dtype == object:
                for i in range(len(X)):
                    if isinstance(X[i], np.ndarray):
                        X[i][...] = val
                    else:
                        X[i] = val
                    done = True
            elif X.flags.writeable and X.size:
                X[...] = val
                done = True
        elif isinstance(X, list):
            for i, r in enumerate(X):
                if isinstance(r, list):
                    r[:] = [val] * (len(r) + 1)
                elif isinstance(r, np.ndarray) and r.ndim == 1 and r.flags.writeable:
                    r[...] = val
                else:
                    X[i] = val
            if X is P:
                X.append(val)
            done = True
    return done


class mem_cap:
    """While the implementation runs, the address space of this process may grow by at most 400 MiB (2 GiB for the thread pool; the largest
    specification constructed here needs 32 MB): an implementation that pairs the wrong entries (say -2, 2 and a
    precision of 1e-9: 32 GB) gets a MemoryError, recorded like any other exception, instead of taking the machine
    down.  The limit is lifted again before anything else (coqc, the oracle) runs."""

    def __init__(self, extra=400 * 2 ** 20):
        self.extra = extra   # (worker threads reserve address space for stacks and malloc arenas: the pool gets 2 GiB)

    def __enter__(self):
        import resource

        self.res = resource
        self.old = resource.getrlimit(resource.RLIMIT_AS)
        try:
            with open("/proc/self/statm") as f:
                cur = int(f.read().split()[0]) * resource.getpagesize()
            cap = cur + self.extra
            if self.old[1] != resource.RLIM_INFINITY:
                cap = min(cap, self.old[1])
            resource.setrlimit(resource.RLIMIT_AS, (cap, self.old[1]))
        except (OSError, ValueError):
            self.old = None
        return self

    def __exit__(self, *a):
        if self.old is not None:
            self.res.setrlimit(self.res.RLIMIT_AS, self.old)
        return False


def grids_equal(ga, gb):
    return len(ga) == len(gb) and all(
        isinstance(x, np.ndarray) and isinstance(y, np.ndarray) and x.dtype == y.dtype and x.shape == y.shape
        and x.tobytes() == y.tobytes() for x, y in zip(ga, gb))


def run_impl(case, quiet_threads=False):
    """Run the real code on one specification; returns the observation (JSON-able but for '_grids')."""
    import contextlib
    import io
    import re

    from black_it.search_space import SearchSpace

    hist = case.get("history")
    if hist:
        # one pair of caller-owned objects lives through the whole sequence (earlier specifications, accepted or
        # rejected, then this one written over them in place)
        _, _, B, P, eff = build_inputs(dict(case, bounds=hist[0]["bounds"], prec=hist[0]["prec"]))
        for h in hist:
            write_in_place(B, P, h)
            try:
                SearchSpace(B, P, False)
            except BaseException:  # noqa: BLE001
                pass
        write_in_place(B, P, case)
        b, p = spec_values(case)
    else:
        b, p, B, P, eff = build_inputs(case)
    verbose = bool(case.get("verbose", False)) and not quiet_threads
    obs = {"cb": None, "ctor": None, "constructed": False, "effective_flavour": eff}
    try:
        SearchSpace._check_bounds(B, P)
        obs["cb"] = {"ok": True}
    except BaseException as e:  # noqa: BLE001
        obs["cb"] = exc_record(e)
    def snap(x):
        if isinstance(x, np.ndarray) and x.dtype != object:
            return x.tobytes()
        if isinstance(x, (list, tuple, np.ndarray)):
            return tuple(snap(y) for y in x)
        return repr(x)

    before = (snap(B), snap(P))
    s = s0 = None
    if safe_to_construct(b, p):
        out = io.StringIO()
        try:
            with (contextlib.nullcontext() if quiet_threads else contextlib.redirect_stdout(out)), \
                    (contextlib.nullcontext() if quiet_threads else mem_cap()):
                s0 = SearchSpace(B, P, False)         # the caller's arrays are reused for a second construction: the result below
                                                      # must not depend on that (and the arrays must come back untouched);
                                                      # nothing of s0 is read until the caller has overwritten its arrays
                s = SearchSpace(B, P, verbose)
        except BaseException as e:  # noqa: BLE001
            obs["ctor"] = exc_record(e)
            s = None
        else:
            with (contextlib.nullcontext() if quiet_threads else mem_cap()):
                try:
                    grids = s.param_grid
                except BaseException as e:  # noqa: BLE001
                    grids = None
                    obs["ctor"] = exc_record(e)
        if s is not None and grids is not None:
            ok_shape = isinstance(grids, list) and all(
                isinstance(g, np.ndarray) and g.ndim == 1 and g.dtype == np.float64 for g in grids)
            obs["ctor"] = {"ok": True, "grid_types_ok": bool(ok_shape)}
            if ok_shape:
                obs["constructed"] = True
                obs["lens"] = [int(len(g)) for g in grids]
                obs["samples"] = [[[i, hx(g[i])] for i in sample_indices(len(g))] for g in grids]
                obs["space_size"] = s.space_size if type(s.space_size) is int else repr(s.space_size)
                obs["dims"] = s.dims if type(s.dims) is int else repr(s.dims)
                obs["_grids"] = [g.copy() for g in grids]
                if verbose:
                    m = re.search(r"space size:\s*(-?\d+)", out.getvalue())
                    obs["printed_size"] = int(m.group(1)) if m else None
    obs["inputs_untouched"] = bool(before == (snap(B), snap(P)))
    if obs["constructed"] and not quiet_threads:
        # the caller goes on using its own arrays / lists for something else: the constructed object must not follow
        if scribble(B, P):
            try:
              with mem_cap():
                obs["stable_after_caller_reuse"] = bool(
                    grids_equal(obs["_grids"], s.param_grid) and s.space_size == obs["space_size"] and s.dims == obs["dims"])
            except BaseException:  # noqa: BLE001
                obs["stable_after_caller_reuse"] = False
    if obs["constructed"] and s0 is not None:
        # the first object built from the same arrays, looked at only now
        try:
          with (contextlib.nullcontext() if quiet_threads else mem_cap()):
            obs["same_as_first_construction"] = bool(
                grids_equal(s0.param_grid, obs["_grids"]) and s0.space_size == obs["space_size"] and s0.dims == obs["dims"])
        except BaseException:  # noqa: BLE001
            obs["same_as_first_construction"] = False
    return obs


def public(obs):
    return {k: v for k, v in obs.items() if not k.startswith("_")}


# ------------------------------------------------------------------------------------------- model side (literals)
def emit_err(rec):
    spec = ERR_SPEC.get(rec["exc"])
    if spec is None or not rec["exact_class"]:
        return "ObsOther"
    ctor, fields = spec
    if set(rec["attrs"]) != {f for f, _ in fields}:
        return "ObsOther"
    args = []
    for f, kind in fields:
        k, v = rec["attrs"][f]
        if kind == "float" and k == "int" and abs(v) <= 2 ** 53:
            k, v = "float", float(v).hex()  # an integer entry reported as the offending value (same number)
        if k != kind:
            return "ObsOther"
        if kind == "int":
            if v < 0:
                return "ObsOther"
            args.append(cnat(v))
        else:
            args.append(cf(v))
    return f"ObsErr ({ctor} {' '.join(args)})"


def emit(case, obs):
    bl = clist([clist([cf(h) for h in row]) for row in case["bounds"]])
    pl = clist([cf(h) for h in case["prec"]])
    cb, ctor = obs["cb"], obs["ctor"]
    if not cb["ok"]:
        o = emit_err(cb)
    elif ctor is None:
        o = "ObsOk"
    elif obs["constructed"] and type(obs["space_size"]) is int and type(obs["dims"]) is int:
        gs = clist([
            "(" + cz(n) + ", " + clist(["(" + cz(i) + ", " + cf(h) + ")" for i, h in smp]) + ")"
            for n, smp in zip(obs["lens"], obs["samples"])
        ])
        o = f"ObsGrid {gs} {cz(obs['space_size'])} {cnat(obs['dims'])}"
    else:
        o = "ObsOther"
    return f"({bl}, {pl}, {o})"


# ------------------------------------------------------------------------------------------- direct oracle
def all_violations(b, p):
    """Every violated documented condition with its place in the documented order (structural first, then
    index-major: same, inverted, zero precision, precision larger than the range)."""
    if len(b) != 2:
        # bounds[0] / bounds[1] are not meaningful; the documented first check decides alone
        return [((0, 0), "BoundsNotOfSizeTwoError", {"count_bounds_subarrays": ["int", len(b)]})]
    v = []
    n0, n1 = len(b[0]), len(b[1])
    if n0 != n1:
        v.append(((0, 1), "BoundsOfDifferentLengthError",
                  {"lower_bounds_length": ["int", n0], "upper_bounds_length": ["int", n1]}))
    if len(p) != n0:
        v.append(((0, 2), "BadPrecisionLengthError", {"precisions_length": ["int", len(p)], "bounds_length": ["int", n0]}))
    for i, (l, u, pr) in enumerate(zip(b[0], b[1], p)):
        if l == u:
            v.append(((i + 1, 0), "SameLowerAndUpperBoundError", {"param_index": ["int", i], "bound_value": ["float", hx(l)]}))
        if l > u:
            v.append(((i + 1, 1), "LowerBoundGreaterThanUpperBoundError",
                      {"param_index": ["int", i], "lower_bound": ["float", hx(l)], "upper_bound": ["float", hx(u)]}))
        if pr == 0:
            v.append(((i + 1, 2), "PrecisionZeroError", {"param_index": ["int", i]}))
        if pr > u - l:  # the documented comparison is on the float difference (it is printed in the message)
            v.append(((i + 1, 3), "PrecisionGreaterThanBoundsRangeError",
                      {"param_index": ["int", i], "lower_bound": ["float", hx(l)], "upper_bound": ["float", hx(u)],
                       "precision": ["float", hx(pr)]}))
    return v


def ulp_ub(x: Fraction) -> Fraction:
    if x == 0:
        return Fraction(0)
    e = (abs(x.numerator).bit_length() - 1) - (x.denominator.bit_length() - 1) - 52
    return Fraction(2) ** e


def len_slack_abs(l, u):
    """absolute slack (in units of the parameter) of the end-point rule: roundings of u+1e-7, of the difference and of
    the quotient (the latter widened to 2^-48 relative), cf. Model/SearchSpace.v len_slack (times |p|)."""
    s = Fraction(u) + EPSF
    return ulp_ub(s) + 2 * ulp_ub(s - Fraction(l)) + abs(s - Fraction(l)) / 2 ** 48


def is_borderline(l, u, pr):
    L, U, P = Fraction(l), Fraction(u), Fraction(pr)
    r = (U + EPSF - L) / P
    d = min(r - math.floor(r), math.ceil(r) - r)
    return d <= len_slack_abs(l, u) / abs(P)


def oracle_grid(b, p, obs, stats, absorbed):
    fails = []
    grids = obs["_grids"]
    if obs["dims"] != len(p):
        fails.append(f"dims: {obs['dims']} != number of parameters {len(p)}")
    if len(grids) != len(p):
        fails.append(f"param_grid has {len(grids)} columns for {len(p)} parameters")
        return fails
    prod = 1
    for g in grids:
        prod *= len(g)
    if obs["space_size"] != prod:
        fails.append(f"space_size: {obs['space_size']} != product of grid lengths {prod}")
    for j, (l, u, pr) in enumerate(zip(b[0], b[1], p)):
        a = grids[j]
        n = len(a)
        if pr < 0:
            stats["negative_precision_accepted(empty grid, outside the property's well-formed class)"] += 1
            continue
        if n == 0:
            fails.append(f"grid: parameter {j} has an empty grid")
            continue
        if not bool(np.isfinite(a).all()):
            fails.append(f"grid: parameter {j} has non-finite elements")
            continue
        if float(a[0]).hex() != float(l).hex() and not (a[0] == l):
            fails.append(f"grid: parameter {j} starts at {a[0]!r}, not at the lower bound {l!r}")
        i = np.arange(n, dtype=np.longdouble)
        ref = np.longdouble(l) + i * np.longdouble(pr)
        big = max(abs(l), abs(pr), abs(l + pr))
        sp = np.spacing(np.abs(a))
        sp[~np.isfinite(sp)] = math.ulp(1.7976931348623157e308)  # (np.spacing of the largest double is inf)
        tol = (2 * i + 8) * 2 * np.longdouble(math.ulp(big)) + 8 * sp.astype(np.longdouble)
        err = np.abs(a.astype(np.longdouble) - ref)
        badi = np.nonzero(err > tol)[0]
        if len(badi):
            k = int(badi[0])
            fails.append(f"grid: parameter {j} element {k} = {float(a[k])!r} is not lower + {k}*precision")
        if n >= 2 and not bool((np.diff(a) > 0).all()):
            fails.append(f"grid: parameter {j} is not increasing")
        L, U, P = Fraction(l), Fraction(u), Fraction(pr)
        last = Fraction(float(a[-1]))
        tol_last = Fraction(float(tol[-1]))
        slack = 2 * len_slack_abs(l, u) + tol_last
        stop = U + EPSF
        if not last < stop + slack:
            fails.append(f"grid: parameter {j} last element {float(a[-1])!r} is beyond upper + 1e-7")
        if not last + P >= stop - slack:
            fails.append(f"grid: parameter {j} stops early: {float(a[-1])!r} + precision is still below upper + 1e-7")
        # the same end-point rule on indices, in exact rationals: lower + i*precision < upper + 1e-7 holds for exactly
        # ceil((upper + 1e-7 - lower) / precision) indices (round 4: the two clauses above carry the element envelope,
        # which exceeds 1e-7 for bounds far from the origin; this one does not)
        n_exact = max(0, math.ceil((stop - L) / P))
        if n != n_exact:
            if is_borderline(l, u, pr) and abs(n - n_exact) <= 1:
                stats["grid_length_off_by_one_within_rounding_of_the_stop_value"] += 1
            else:
                fails.append(f"grid: parameter {j} has {n} points; lower + i*precision < upper + 1e-7 for exactly {n_exact} indices")
        if P <= U - L and n < 2 and not is_borderline(l, u, pr):
            fails.append(f"grid: parameter {j} has {n} point(s) although precision <= range")
        r0 = (U - L) / P
        if (r0.denominator == 1 and r0 >= 1 and P > 4 * EPSF
                and P >= 64 * max(ulp_ub(U), ulp_ub(L), ulp_ub(U - L))):
            # the range is EXACTLY k steps (no rounding is involved in saying so) and the step is neither below the
            # nudge nor near the resolution of the bounds: the statement says k+1 points, the last one the upper bound.
            # (np.arange then returns k or k+1 points: the surviving nudge is in [0, 1e-7 + 2 ulp] < precision.)
            k = int(r0)
            stats["range_is_exactly_k_steps(judged without slack)"] += 1
            if n != k + 1 or abs(last - U) > tol_last:
                q = ((u + EPS) - l) / pr  # the expression of search_space.py:77 / np.arange's count, in binary64
                if n == k and q == k and abs(last - (U - P)) <= tol_last:
                    absorbed.append(f"grid-nudge-absorbed: parameter {j}: range = exactly {k} steps of {pr!r} but {n} points, "
                                    f"the last one {float(a[-1])!r} instead of the upper bound {u!r} "
                                    f"(((upper + 1e-7) - lower) / precision evaluates to exactly {k} in binary64)")
                    stats["nudge_absorbed(upper bound dropped)"] += 1
                else:
                    fails.append(f"grid: parameter {j}: range = exactly {k} steps but {n} points ending at {float(a[-1])!r} "
                                 f"(expected {k + 1} ending at the upper bound {u!r})")
            continue
        k = round(r0)
        d = r0 - k
        if k >= 1 and abs(d) <= r0 / 2 ** 44:
            e = EPSF / P
            B = 2 * len_slack_abs(l, u) / P
            if d + e > B and d + e < 1 - B:
                stats["range_is_multiple_of_precision"] += 1
                if n != k + 1:
                    fails.append(f"grid: parameter {j}: range = {k} steps but {n} points (expected {k + 1})")
                elif abs(last - U) > tol_last + abs(d) * P:
                    fails.append(f"grid: parameter {j}: range = {k} steps but the last point {float(a[-1])!r} is not upper {u!r}")
    return fails


def attrs_match(observed, expected, ints_allowed):
    """payload comparison: indices exact; values bit for bit (sign of zero included) - or, when the caller handed over
    integers, that same integer"""
    if set(observed) != set(expected):
        return False
    for k, (kind, val) in expected.items():
        okind, oval = observed[k]
        if kind == "int":
            if okind != "int" or oval != val:
                return False
        elif okind == "float":
            if oval != val:
                return False
        elif okind == "int" and ints_allowed and abs(oval) <= 2 ** 53:
            if float(oval).hex() != val:
                return False
        else:
            return False
    return True


def int_wrap_case(case, b, p):
    """the specification is handed over as a signed integer array in which upper - lower does not fit the element type"""
    return case["flavour"] == "intwrap" and len(b) == 2 and any(
        l < u and int(u) - int(l) > np.iinfo(INT_DTYPES[case["int_dtype"]]).max for l, u in zip(b[0], b[1]))


def oracle(case, obs, stats):
    """The property statement on the implementation's observations."""
    b = [[fx(h) for h in row] for row in case["bounds"]]
    p = [fx(h) for h in case["prec"]]
    viol = all_violations(b, p)
    stats[f"simultaneous_violations={min(len(viol), 4)}{'+' if len(viol) >= 4 else ''}"] += 1
    fails, absorbed = [], []
    cb, ctor = obs["cb"], obs["ctor"]
    ints_allowed = case["flavour"] in INT_FLAVOURS
    if viol:
        _, cls, attrs = min(viol, key=lambda t: t[0])
        for who, rec in (("_check_bounds", cb), ("SearchSpace()", ctor)):
            if rec is None:
                continue
            if rec["ok"]:
                fails.append(f"accepted: {who} accepted a malformed specification (expected {cls})")
            elif rec["exc"] != cls or not rec["exact_class"]:
                fails.append(f"class: {who} raised {rec['exc']} instead of {cls}")
            elif not rec["is_sse"]:
                fails.append(f"class: {cls} is not a SearchSpaceError/ValueError")
            elif not attrs_match(rec["attrs"], attrs, ints_allowed):
                fails.append(f"payload: {who} {cls} carries {rec['attrs']} instead of {attrs}")
    else:
        wrap = int_wrap_case(case, b, p)
        tag = "rejected-int-wrap" if wrap else "rejected"
        if not cb["ok"]:
            fails.append(f"{tag}: _check_bounds raised {cb['exc']} on a well-formed specification")
        if ctor is not None:
            if not ctor["ok"]:
                fails.append(f"{tag}: SearchSpace() raised {ctor['exc']} on a well-formed specification")
            elif not obs["constructed"]:
                fails.append("grid: param_grid is not a list of one-dimensional float64 arrays")
            elif type(obs["space_size"]) is not int or type(obs["dims"]) is not int:
                fails.append("space_size: space_size/dims are not Python ints")
            else:
                fails += oracle_grid(b, p, obs, stats, absorbed)
                if obs.get("printed_size", None) is not None:
                    prod = 1
                    for g in obs["_grids"]:
                        prod *= len(g)
                    if obs["printed_size"] != prod:
                        fails.append(f"space_size: the size printed with verbose=True is {obs['printed_size']}, the "
                                     f"product of the grid lengths is {prod}")
    if obs.get("inputs_untouched") is False:
        fails.append("inputs: the bounds / precision arrays given by the caller were modified")
    if obs.get("same_as_first_construction") is False:
        fails.append("reuse: another object constructed from the same caller-owned arrays, first looked at after the "
                     "caller had overwritten them, has different grids / size / dims")
    if obs.get("stable_after_caller_reuse") is False:
        fails.append("reuse: param_grid / space_size / dims changed when the caller overwrote its own arrays "
                     "after the construction")
    # the known way the unchanged code drops the upper bound is reported last: any other failure decides the descriptor
    return fails + absorbed


# ------------------------------------------------------------------------------------------- generators
def flav(k):
    """two cases in three keep the two representations of rounds 1-3; the third cycles through the others"""
    if k % 3 == 2:
        return EXTRA_FLAVOURS[(k // 3) % len(EXTRA_FLAVOURS)]
    return "list" if (k - k // 3) % 2 == 0 else "ndarray"


def lattice_specs(nparams, triples=None):
    """all specs over `triples` (default: the whole lattice^3) for nparams parameters, as index tuples"""
    import itertools

    tr = triples if triples is not None else list(itertools.product(range(len(LATTICE)), repeat=3))
    return itertools.product(tr, repeat=nparams)


def lat(ts, flavour, family):
    """compact form of a lattice case (expanded on demand by get_case)"""
    return ("L", tuple(tuple(t) for t in ts), flavour, family)


def get_case(c):
    if isinstance(c, tuple):
        return case_of_triples(c[1], c[2], c[3])
    return c


def case_of_triples(ts, flavour, family, values=LATTICE):
    return mk_case([[values[t[0]] for t in ts], [values[t[1]] for t in ts]], [values[t[2]] for t in ts], flavour, family)


def signature(t, values=LATTICE):
    l, u, p = values[t[0]], values[t[1]], values[t[2]]
    huge = p != 0 and (u + EPS - l) / p > MAX_POINTS
    return (l == u, l > u, p == 0, p > u - l, p < 0, huge)


def representative_triples(rng, per_sig):
    import itertools

    groups = {}
    for t in itertools.product(range(len(LATTICE)), repeat=3):
        groups.setdefault(signature(t), []).append(t)
    reps = []
    for sig in sorted(groups):
        g = groups[sig]
        rng.shuffle(g)
        reps += g[:per_sig]
    return reps, len(groups)


def rand_value(rng):
    k = rng.below(10)
    if k < 2:
        return float(rng.randint(-5, 5))
    if k < 4:
        return rng.randint(-4096, 4096) / 2.0 ** rng.randint(0, 10)
    s = -1.0 if rng.below(2) else 1.0
    return s * rng.uniform(1.0, 10.0) * 10.0 ** rng.randint(-6, 5)


def rand_param(rng, kind):
    """(l, u, p) exhibiting the requested combination of conditions"""
    l = rand_value(rng)
    span = abs(rand_value(rng)) + 2.0 ** -20
    if kind == "ok":
        u = l + span
        p = (u - l) / rng.uniform(1.0, 40.0)
    elif kind == "ok_equal_range":
        u = l + span
        p = u - l
    elif kind == "same":
        u, p = l, abs(rand_value(rng)) + 1e-3
    elif kind == "same_zero":
        u, p = l, 0.0
    elif kind == "inverted":
        u = l - span
        p = span / 3
    elif kind == "inverted_zero":
        u, p = l - span, 0.0
    elif kind == "zero":
        u, p = l + span, 0.0 if rng.below(2) else -0.0
    elif kind == "too_large":
        u = l + span
        p = (u - l) * rng.choice([1.0 + 2.0 ** -40, 1.5, 1e6])
        if not p > u - l:
            p = (u - l) * 2
    elif kind == "too_large_by_one_ulp":
        u = l + span
        p = math.nextafter(u - l, math.inf)
    elif kind == "negative":
        u = l + span
        p = -(u - l) / rng.uniform(1.0, 40.0)
    else:
        raise ValueError(kind)
    return l, u, p


KINDS = ["ok", "ok", "ok", "ok_equal_range", "same", "same_zero", "inverted", "inverted_zero", "zero", "too_large",
         "too_large_by_one_ulp", "negative"]


def random_validation_case(rng, k):
    dims = rng.randint(1, 4)
    # mostly-valid stream and malformed stream
    allok = rng.below(3) == 0
    ps = [rand_param(rng, "ok" if allok else rng.choice(KINDS)) for _ in range(dims)]
    return mk_case([[t[0] for t in ps], [t[1] for t in ps]], [t[2] for t in ps], flav(k), "random_validation")


def shape_cases(rng, fills):
    """every small shape: k sub-lists of lengths 0..3, precision length 0..3; entries from the lattice (so that value
    violations coexist with shape violations)"""
    import itertools

    out = []
    vals = LATTICE
    n = 0
    for k in (0, 1, 2, 3):
        for lens in itertools.product(range(4), repeat=k):
            for plen in range(4):
                if k == 3 and rng.below(4):
                    continue
                for f in range(fills if k == 2 else 1):
                    rows = [[rng.choice(vals) for _ in range(m)] for m in lens]
                    if k >= 2 and f % 2 == 1:
                        # make the per-index part clean so that only the shape decides
                        rows[0] = [0.0] * lens[0]
                        rows[1] = [1.0] * lens[1]
                    prec = [rng.choice(vals) for _ in range(plen)]
                    n += 1
                    out.append(mk_case(rows, prec, flav(n), f"shape_k{k}", ragged="obj" if n % 4 == 1 else "seq"))
    return out


def grid_param(rng, family, kmax):
    big = kmax
    if family == "dyadic_multiple":
        j = rng.randint(0, 10)
        p = rng.randint(1, 16) / 2.0 ** j
        l = rng.randint(-4096, 4096) / 2.0 ** j
        k = rng.randint(1, big)
        return l, l + k * p, p
    if family == "decimal_multiple":
        p = rng.choice([0.1, 0.01, 0.001, 0.05, 0.25, 0.2, 0.5, 1e-4, 2.5, 10.0, 1e3, 0.3, 0.7])
        l = round(rng.uniform(-100, 100) * p * 10, 6)
        k = rng.randint(1, big)
        return l, float(repr(round(l + k * p, 9))), p
    if family == "generic":
        l = rand_value(rng)
        p = abs(rand_value(rng)) * 10.0 ** rng.randint(-2, 2) + 1e-6
        rho = rng.uniform(1.0, float(big))
        return l, l + rho * p, p
    if family == "near_multiple":
        j = rng.randint(0, 8)
        p = rng.randint(1, 16) / 2.0 ** j
        l = rng.randint(-1024, 1024) / 2.0 ** j
        k = rng.randint(2, big)
        d = rng.choice([-3e-7, -1.001e-7, -1e-7, -0.999e-7, -5e-8, -1e-9, 1e-9, 5e-8, 1e-7, 3e-7, 1e-6])
        return l, l + k * p + d, p
    if family == "tiny_precision":
        p = rng.uniform(1.0, 100.0) * 1e-9
        l = rng.choice([0.0, 1e-6, -1e-6, 0.5])
        k = rng.randint(1, 50)
        return l, l + k * p, p
    if family == "negative_precision":
        l, u, p = rand_param(rng, "negative")
        return l, u, p
    if family == "equal_range":
        l, u, p = rand_param(rng, "ok_equal_range")
        return l, u, p
    raise ValueError(family)


GRID_FAMILIES = ["dyadic_multiple", "dyadic_multiple", "decimal_multiple", "decimal_multiple", "generic", "generic",
                 "generic", "near_multiple", "near_multiple", "tiny_precision", "negative_precision", "equal_range"]


def random_grid_case(rng, k, kmax):
    dims = rng.randint(1, 3)
    per = max(2, int(round(kmax ** (1.0 / dims)))) if kmax > 400 else kmax
    fam = [rng.choice(GRID_FAMILIES) for _ in range(dims)]
    ps = [grid_param(rng, f, per) for f in fam]
    return mk_case([[t[0] for t in ps], [t[1] for t in ps]], [t[2] for t in ps], flav(k), "grid:" + "+".join(fam))


def random_f32_case(rng, k):
    dims = rng.randint(1, 3)
    ps = [grid_param(rng, "dyadic_multiple", 60) for _ in range(dims)]
    return mk_case([[t[0] for t in ps], [t[1] for t in ps]], [t[2] for t in ps], "f32", "grid:float32-arrays")


def big_space_cases(rng):
    """Well-formed specifications whose number of grid points does not fit a machine integer, a float mantissa, or
    sits exactly on a power of two (2^31, 2^32, 2^53, 2^63, 2^64)."""
    out = []
    for dims, npts in ((10, 101), (64, 2), (13, 33), (21, 9), (9, 101), (4, 256), (7, 512), (8, 256), (9, 128), (63, 2),
                       (53, 2), (31, 2), (32, 2), (2, 65536), (2, 46341), (3, 2097152 // 8), (17, 13), (40, 3)):
        lo = [float(rng.randint(-3, 3)) for _ in range(dims)]
        out.append(mk_case([lo, [x + (npts - 1) * 0.5 for x in lo]], [0.5] * dims, flav(dims + npts),
                           f"grid:big-space-{npts}^{dims}"))
    # unequal factors: 3 * 5 * 7 * ... (the product is not a power; a float product is inexact)
    for dims in (12, 16, 23):
        lo = [float(rng.randint(-3, 3)) for _ in range(dims)]
        ns = [rng.randint(2, 60) | 1 for _ in range(dims)]
        out.append(mk_case([lo, [x + (m - 1) * 0.25 for x, m in zip(lo, ns)]], [0.25] * dims, flav(dims),
                           f"grid:big-space-mixed-{dims}"))
    return out


def many_param_case(rng, k):
    """11-40 parameters; the malformed ones (0-3 of them) sit preferably at indices >= 10 and, when there are two, on
    both sides of 10 (an index compared or sorted as text puts 10 before 2)."""
    dims = rng.randint(11, 40)
    ps = [rand_param(rng, "ok") for _ in range(dims)]
    nbad = rng.choice([0, 1, 1, 2, 2, 2, 3])
    idx = set()
    if nbad >= 1:
        idx.add(rng.randint(10, dims - 1))
    if nbad >= 2:
        idx.add(rng.randint(1, 9) if rng.below(3) else rng.randint(0, dims - 1))
    if nbad >= 3:
        idx.add(rng.randint(0, dims - 1))
    bad_kinds = [x for x in KINDS if not x.startswith("ok") and x != "negative"]
    for i in idx:
        ps[i] = rand_param(rng, rng.choice(bad_kinds))
    return mk_case([[t[0] for t in ps], [t[1] for t in ps]], [t[2] for t in ps], flav(k), "many_params")


def small_int_param(rng, kind, top):
    """integer-valued (l, u, p) of the requested kind; the precision is an integer or a dyadic fraction"""
    l = float(rng.randint(-top, top - 2) if top > 100 else rng.randint(-top // 2, top // 2))
    span = float(rng.randint(1, max(1, top // 4)))
    frac = rng.choice([1.0, 1.0, 0.5, 0.25, 2.0, 3.0])
    if kind == "ok":
        u = l + span
        p = min(frac, span) if rng.below(2) else float(rng.randint(1, int(span)))
    elif kind == "ok_equal_range":
        u, p = l + span, span
    elif kind == "same":
        u, p = l, 1.0
    elif kind == "same_zero":
        u, p = l, 0.0
    elif kind == "inverted":
        u, p = l - span, 1.0
    elif kind == "inverted_zero":
        u, p = l - span, 0.0
    elif kind == "zero":
        u, p = l + span, 0.0
    elif kind == "too_large":
        u = l + span
        p = span + rng.choice([1.0, 0.5, 7.0])
    else:
        raise ValueError(kind)
    return l, u, p


INT_KINDS = ["ok", "ok", "ok", "ok", "ok_equal_range", "same", "same_zero", "inverted", "inverted_zero", "zero", "too_large"]
INT_FAMILY_FLAVOURS = ["mixed", "int64", "int32", "int16", "int8", "uint8", "mixed+ndarray", "tuple", "object", "f32", "f16",
                       "npscalars", "zerod"]


def int_family_case(rng, k):
    """what users write most often: integers (lists of Python ints, integer arrays of every width), sometimes with a
    fractional precision; all kinds of violations"""
    fl = INT_FAMILY_FLAVOURS[k % len(INT_FAMILY_FLAVOURS)]
    top = {"int8": 60, "uint8": 100, "int16": 15000, "f16": 500}.get(fl, 100000 if rng.below(2) else 40)
    dims = rng.randint(1, 4)
    allok = rng.below(2) == 0
    ps = []
    for _ in range(dims):
        l, u, p = small_int_param(rng, "ok" if allok else rng.choice(INT_KINDS), top)
        if fl == "uint8":
            sh = max(0.0, -min(l, u))
            l, u = l + sh, u + sh
        ps.append((l, u, p))
    return mk_case([[t[0] for t in ps], [t[1] for t in ps]], [t[2] for t in ps], fl, "grid:integers")


def narrow_float_case(rng, k):
    """float32 / float16 arrays: dyadic numbers exactly representable in the narrow type, all kinds of violations"""
    fl = "f16" if k % 3 == 0 else "f32"
    dims = rng.randint(1, 3)
    ps = []
    for _ in range(dims):
        j = rng.randint(0, 3 if fl == "f16" else 8)
        sc = 2.0 ** -j
        kind = rng.choice(INT_KINDS)
        l, u, p = small_int_param(rng, kind, 60 if fl == "f16" else 4000)
        ps.append((l * sc, u * sc, p * sc))
    return mk_case([[t[0] for t in ps], [t[1] for t in ps]], [t[2] for t in ps], fl, "grid:narrow-floats")


def int_wrap_cases():
    """well-formed integer specifications whose range upper - lower does not fit the array's element type"""
    out = []
    for dt, l, u, p in (("int8", -100, 100, 10), ("int8", -128, 127, 5), ("int16", -30000, 30000, 1000),
                        ("int32", -2_000_000_000, 2_000_000_000, 1_000_000), ("int32", -2 ** 31, 2 ** 31 - 1, 2 ** 20)):
        c = mk_case([[float(l), 0.0], [float(u), 1.0]], [float(p), 1.0], "intwrap", "grid:int-range-wraps")
        c["int_dtype"] = dt
        out.append(c)
    return out


def far_param(rng, family):
    """bounds far from the origin relative to their spread (1e5 ... 5e8: below the 2^29 where the 1e-7 nudge is still
    more than an ulp) - or beyond 2^30, where the nudge is absorbed"""
    if family == "far_multiple":          # exact multiple, everything exactly representable
        j = rng.randint(0, 4)
        p = rng.randint(1, 16) / 2.0 ** j
        base = float(rng.randint(100000, 500000000)) * (-1.0 if rng.below(2) else 1.0)
        k = rng.randint(1, 200)
        l = base if rng.below(2) else base - k * p
        return l, l + k * p, p
    if family == "far_generic":
        base = rng.uniform(1e5, 5e8) * (-1.0 if rng.below(2) else 1.0)
        p = rng.uniform(0.01, 50.0)
        rho = rng.uniform(1.0, 300.0)
        return base, base + rho * p, p
    if family == "far_near_multiple":     # k steps +- a little more / less than the nudge; |bounds| < 2^26: ulp < 1.5e-8
        p = rng.randint(1, 16) / 4.0
        base = float(rng.randint(100000, 60000000)) * (-1.0 if rng.below(2) else 1.0)
        k = rng.randint(2, 200)
        d = rng.choice([-3e-7, -1.5e-7, -5e-8, 5e-8, 1.5e-7, 3e-7, 1e-6])
        return base, base + k * p + d, p
    if family == "beyond_2^30_multiple":  # the nudge is absorbed: the unchanged code drops the upper bound here
        e = rng.randint(30, 60)
        p = float(rng.randint(1, 16)) * 2.0 ** rng.randint(max(0, e - 44), e - 5)
        k = rng.randint(1, 60)
        sgn = -1.0 if rng.below(2) else 1.0
        kind = rng.below(3)
        if kind == 0:      # both bounds huge
            l = sgn * float(rng.randint(2 ** 10, 2 ** 11)) * 2.0 ** (e - 10)
            return l, l + k * p, p
        if kind == 1:      # range huge, from the origin
            return 0.0, k * p * 2.0 ** 6, p * 2.0 ** 6
        return -k * p * 2.0 ** 6, k * p * 2.0 ** 6, p * 2.0 ** 6   # symmetric
    if family == "beyond_2^30_generic":
        base = rng.uniform(2e9, 1e15) * (-1.0 if rng.below(2) else 1.0)
        p = abs(base) * rng.uniform(1e-4, 1e-2)
        return base, base + rng.uniform(1.2, 80.0) * p, p
    if family == "signed_zero":
        p = rng.randint(1, 8) / 4.0
        k = rng.randint(1, 40)
        return rng.choice([(-0.0, k * p, p), (-k * p, -0.0, p), (-k * p, 0.0, p), (0.0, k * p, p)])
    raise ValueError(family)


FAR_FAMILIES = ["far_multiple", "far_multiple", "far_generic", "far_near_multiple", "beyond_2^30_multiple",
                "beyond_2^30_generic", "signed_zero"]


def far_case(rng, k):
    dims = rng.randint(1, 3)
    fam = [rng.choice(FAR_FAMILIES) for _ in range(dims)]
    ps = [far_param(rng, f) for f in fam]
    return mk_case([[t[0] for t in ps], [t[1] for t in ps]], [t[2] for t in ps], flav(k), "grid:" + "+".join(fam))


def scaled_validation_case(rng, k):
    """a random specification multiplied by a power of two (exact: every comparison keeps its outcome) so that all the
    entries are near the bottom or the top of the binary64 range"""
    c = random_validation_case(rng, k)
    sc = 2.0 ** rng.choice([-900, -700, -400, 900])  # (grids are built at the top scale only: big rationals in Coq)
    b, p = spec_values(c)
    return mk_case([[v * sc for v in r] for r in b], [v * sc for v in p], flav(k), "scaled_validation")


def sequence_cases(rng, nseq):
    """One pair of caller-owned arrays / lists lives through a sequence of constructions: rejected specifications
    followed by accepted ones, the values overwritten in place in between (lists: also another number of parameters).
    Each step is an ordinary case that carries the earlier steps as its history."""
    out = []
    for q in range(nseq):
        fl = "ndarray" if q % 2 == 0 else "list"
        dims = rng.randint(1, 3)
        hist = []
        for step in range(rng.randint(3, 5)):
            if fl == "list" and step and rng.below(2):
                dims = rng.randint(1, 4)
            kind_pool = KINDS if step % 2 == 0 else ["ok", "ok_equal_range"]
            ps = [grid_param(rng, "dyadic_multiple", 40) if rng.below(2) else rand_param(rng, rng.choice(kind_pool))
                  for _ in range(dims)]
            c = mk_case([[t[0] for t in ps], [t[1] for t in ps]], [t[2] for t in ps], fl, "sequence")
            if hist:
                c["history"] = [dict(bounds=h["bounds"], prec=h["prec"]) for h in hist]
                out.append(c)
            hist.append(c)
    return out


def generate(chk):
    rng = chk.rng
    quick = chk.tier == "quick"
    cases = []
    corpus = common.CORPUS / "C15"
    for f in sorted(corpus.glob("*.json")):
        cases.append(json.loads(f.read_text())["case"])
    # (i) lattice, exhaustive
    n = 0
    for ts in lattice_specs(1):
        for fl in ("list", "ndarray"):
            cases.append(lat(ts, fl, "lattice1"))
    reps, nsig = representative_triples(rng, 6 if quick else 4)
    if quick:
        for ts in lattice_specs(2, reps):
            n += 1
            cases.append(lat(ts, flav(n), "lattice2_signature_pairs"))
        import itertools

        full = list(itertools.product(range(len(LATTICE)), repeat=3))
        for _ in range(5000):
            n += 1
            cases.append(lat([rng.choice(full), rng.choice(full)], flav(n), "lattice2_sampled"))
    else:
        for ts in lattice_specs(2):
            n += 1
            cases.append(lat(ts, flav(n), "lattice2_full"))
        for ts in lattice_specs(3, reps):
            n += 1
            cases.append(lat(ts, flav(n), "lattice3_signature_triples"))
        import itertools

        full = list(itertools.product(range(len(LATTICE)), repeat=3))
        for _ in range(40000):
            n += 1
            cases.append(lat([rng.choice(full) for _ in range(3)], flav(n), "lattice3_sampled"))
    # IEEE specials: validation only (never constructed)
    ext = LATTICE + SPECIAL
    import itertools

    for t in itertools.product(range(len(ext)), repeat=3):
        if any(i >= len(LATTICE) for i in t):
            n += 1
            cases.append(case_of_triples([t], flav(n), "special1", values=ext))
    # (ii) shapes
    cases += shape_cases(rng, 6 if quick else 30)
    # (iii) random validation specs
    for k in range(3000 if quick else 60000):
        cases.append(random_validation_case(rng, k))
    # (iv) random grids
    for k in range(700 if quick else 12000):
        cases.append(random_grid_case(rng, k, 60))
    for k in range(120 if quick else 1500):
        cases.append(random_grid_case(rng, k, 2000))
    for k in range(10 if quick else 120):
        cases.append(random_grid_case(rng, k, 100000))
    for k in range(60 if quick else 600):
        cases.append(random_f32_case(rng, k))
    cases += big_space_cases(rng)
    # round 4 (generator sweep): representations, sizes, scales, sequences
    for k in range(400 if quick else 6000):
        cases.append(many_param_case(rng, k))
    for k in range(900 if quick else 12000):
        cases.append(int_family_case(rng, k))
    for k in range(300 if quick else 4000):
        cases.append(narrow_float_case(rng, k))
    for k in range(600 if quick else 8000):
        cases.append(far_case(rng, k))
    for k in range(300 if quick else 4000):
        cases.append(scaled_validation_case(rng, k))
    cases += sequence_cases(rng, 60 if quick else 800)
    cases += int_wrap_cases()
    # verbose=True must not change anything (one dict case in four; lattice cases stay quiet)
    nv = 0
    for c in cases:
        if isinstance(c, dict) and "verbose" not in c:
            nv += 1
            if nv % 4 == 0:
                c["verbose"] = True
    return cases, nsig


def concurrent_failures(rng, pool_cases, copies, workers=8):
    """SearchSpace(...) / _check_bounds are functions of their arguments: the same specifications constructed from
    several threads at once (short switch interval) must each give what the statement says"""
    import sys
    from concurrent.futures import ThreadPoolExecutor

    jobs = [c for c in pool_cases for _ in range(copies)]
    rng.shuffle(jobs)
    old = sys.getswitchinterval()
    sys.setswitchinterval(1e-5)
    try:
        with ThreadPoolExecutor(workers) as ex, mem_cap(2 * 2 ** 30):
            results = list(ex.map(lambda c: run_impl(c, quiet_threads=True), jobs))
    finally:
        sys.setswitchinterval(old)
    out, st = [], Counter()
    for c, obs in zip(jobs, results):
        f = [x for x in oracle(c, obs, st) if not x.startswith(("grid-nudge-absorbed", "rejected-int-wrap"))]
        if f:
            out.append((c, obs, f))
    return out, len(jobs)


# ------------------------------------------------------------------------------------------- driver
def classify(obs):
    if not obs["cb"]["ok"]:
        return "raised:" + obs["cb"]["exc"]
    if obs["ctor"] is None:
        return "accepted:checked_only(grid too large or non-finite)"
    if obs["constructed"]:
        return "accepted:constructed"
    return "accepted:constructor_failed"


def run(chk, replay=None):
    chk.proof_gate()
    import black_it

    nsig = None
    if replay:
        cases = [json.loads(open(replay).read())["case"]]
    else:
        cases, nsig = generate(chk)
    stats = Counter()
    lits, fails_by_case, keys, nontrivial = [], {}, set(), set()
    samples = []
    borderline = 0
    for i, c0 in enumerate(cases):
        c = get_case(c0)
        obs = run_impl(c)
        lits.append(emit(c, obs))
        fails = oracle(c, obs, stats)
        if fails:
            fails_by_case[i] = fails
        cls = classify(obs)
        stats[cls] += 1
        stats["flavour=" + obs["effective_flavour"]] += 1
        if c.get("verbose"):
            stats["verbose=True"] += 1
        if c.get("history"):
            stats["constructed_after_earlier_specifications_on_the_same_arrays"] += 1
        if c["flavour"] != obs["effective_flavour"]:
            stats["flavour_requested_but_not_representable(fell back)"] += 1
        stats["family=" + c["family"].split(":")[0]] += 1
        key = c0[1] if isinstance(c0, tuple) else json.dumps([c["bounds"], c["prec"]])
        keys.add(key)
        if cls.startswith("raised") or (obs["constructed"] and any(n >= 2 for n in obs["lens"])):
            nontrivial.add(key)
        if obs["constructed"]:
            b = [[fx(h) for h in row] for row in c["bounds"]]
            p = [fx(h) for h in c["prec"]]
            for l, u, pr in zip(b[0], b[1], p):
                stats["grid_points<=64" if (u + EPS - l) / pr <= 64 else "grid_points>64"] += 1
                if is_borderline(l, u, pr):
                    borderline += 1
        if len(samples) < 5 and i % max(1, len(cases) // 5) == 0:
            pub = public(obs)
            pub.pop("samples", None)
            samples.append({"case": c, "observed": pub})
    bad, errors = chk.coq_mismatches("C15", IMPORTS, "check_case", CASE_T, lits,
                                     shard=500 if chk.tier == "quick" else 4000, preamble=PREAMBLE)
    bad = set(bad)
    reported = 0
    SPECIFIC = {"grid-nudge-absorbed": {"kind": "oracle", "clause": "grid", "input": "upper-bound-nudge-absorbed"},
                "rejected-int-wrap": {"kind": "oracle", "clause": "rejected", "input": "integer-range-wraps"}}

    def clause_of(i):
        return fails_by_case[i][0].split(":")[0][:40] if i in fails_by_case else ""

    # cases failing in one of the two ways listed as findings are reported once each and never use up the report
    # budget: anything else comes first
    order = sorted(set(fails_by_case) | bad, key=lambda i: (clause_of(i) in SPECIFIC, i))
    seen_specific = Counter()
    for i in order:
        if reported >= 25:
            break
        if clause_of(i) in SPECIFIC:
            seen_specific[clause_of(i)] += 1
            if seen_specific[clause_of(i)] > 2:
                continue
        c = get_case(cases[i])
        obs = run_impl(c)
        pub = public(obs)
        if i in fails_by_case:
            fails = fails_by_case[i]
            clause = clause_of(i)
            chk.violation(SPECIFIC.get(clause, {"kind": "oracle", "clause": clause}),
                          {"failed": "oracle:" + fails[0], "all": fails, "case": c, "observed": pub,
                           "model_disagrees_too": i in bad})
            if clause in SPECIFIC:
                continue
        else:
            vals, _ = chk.coq_eval("C15_diag", IMPORTS, [f"let c := {lits[i]} in check_bounds_F (fst (fst c)) (snd (fst c))"],
                                   preamble=PREAMBLE)
            chk.violation({"kind": "correspondence", "name": "check_case"},
                          {"failed": "correspondence:check_case (Model/SearchSpace.v and the implementation disagree; the "
                                     "property oracle found no failing input)", "case": c, "observed": pub,
                           "coq_case": lits[i], "model_check_bounds_F": vals[0]}, no_input=True)
        reported += 1
    for e in errors:
        chk.violation({"kind": "correspondence", "name": "coqc"}, {"failed": "correspondence:coqc", "detail": e}, no_input=True)

    # several threads at once
    if replay:
        pool = [get_case(c) for c in cases if isinstance(c, dict) and c.get("concurrent")]
        copies = 64
    else:
        dicts = [c for c in cases if isinstance(c, dict) and not c.get("history") and c["flavour"] != "intwrap"
                 and len(c["prec"]) <= 4 and c["family"] in ("random_validation", "grid:integers", "grid:narrow-floats")]
        pool = dicts[:: max(1, len(dicts) // (250 if chk.tier == "quick" else 1500))]
        copies = 6
    conc_runs = 0
    if pool:
        conc, conc_runs = concurrent_failures(chk.rng, pool, copies)
        for c, obs, fails in conc[:5]:
            chk.violation({"kind": "oracle", "clause": "threads"},
                          {"failed": "oracle:threads: constructed concurrently from 8 threads: " + fails[0], "all": fails,
                           "case": dict(c, concurrent=True), "observed": public(obs)})

    # diagnostic (never gates): where does the exact-rational cascade decide differently from the binary64 one?
    diag = {}
    if not replay:
        import itertools

        dl, dc = [], []
        for t in itertools.product(range(len(LATTICE)), repeat=3):
            c = case_of_triples([t], "list", "diag")
            dc.append(c)
            dl.append("(" + clist([clist([cf(h) for h in row]) for row in c["bounds"]]) + ", "
                      + clist([cf(h) for h in c["prec"]]) + ")")
        dbad, derr = chk.coq_mismatches("C15_exact", IMPORTS, "exact_agrees", "list (list float) * list float", dl,
                                        shard=400, preamble=PREAMBLE)
        diag = {"lattice1_specs_where_exact_rational_cascade_differs_from_binary64": len(dbad),
                "examples": [{"bounds": [[fx(h) for h in r] for r in dc[i]["bounds"]], "prec": [fx(h) for h in dc[i]["prec"]]}
                             for i in dbad[:4]],
                "errors": derr[:2]}

    cov = {
        "evaluations": len(cases),
        "distinct": len(keys),
        "distinct_nontrivial": len(nontrivial),
        "rule": "one evaluation = one specification run through the real SearchSpace._check_bounds and (unless a grid would "
                "exceed 1e6 points or an entry is non-finite) the real SearchSpace(...) constructor; distinct = distinct "
                "(bounds, precision) values; non-trivial = an exception was raised or a grid with >= 2 points was built. "
                "Generators: the whole 9-value lattice for 1 parameter x {list, ndarray}; 2 parameters: all pairs of "
                "signature representatives + 5000 sampled (quick) / all 531441 (thorough); 3 parameters (thorough): all "
                "triples of signature representatives + 40000 sampled; IEEE specials (nan, +-inf, -0.0) for 1 parameter; every "
                "small shape (0-3 sub-lists of length 0-3, precision length 0-3, ragged arrays); random specifications "
                "mixing the documented violations; random grids (dyadic/decimal multiples, generic, near-multiples at "
                "+-1e-7, precision < 1e-7, negative precision, precision = range) with up to 1e5 points. Round 4: the same "
                "numbers in 19 further representations (tuples, int/float mixes, integer arrays of 5 widths, float32/float16, "
                "read-only, strided, Fortran-ordered, negative-stride, numpy scalars, 0-d arrays, object arrays, mixed "
                "list/array), integer and narrow-float families with all violations, 11-40 parameters with the malformed "
                "ones at indices >= 10, bounds far from the origin (1e5-5e8) and beyond 2^30, signed zeros, subnormals, "
                "specifications scaled by 2^-900..2^900, space sizes at 2^31/2^32/2^53/2^63/2^64 and non-power products, "
                "verbose=True, every construction done twice from the same caller-owned objects which are then overwritten "
                "in place, sequences of rejected/accepted specifications on one pair of arrays, construction from 8 threads",
        "samples": samples,
        "traces_validated_against_impl": len(cases) - len(bad),
        "model_impl_disagreements": len(bad),
        "oracle_failures": len(fails_by_case),
        "borderline_grid_lengths(counted, +-1 accepted)": borderline,
        "constructions_from_8_concurrent_threads": conc_runs,
        "lattice_signatures": nsig,
        "distribution": dict(sorted(stats.items())),
        "diagnostic_exact_vs_binary64": diag,
        "implementation_module": str(black_it.__file__),
        "exhaustive": False,
        "exhaustive_part": "1-parameter specifications over the 9-value lattice (and its extension by nan/inf/-0.0), both "
                           "input flavours; thorough: all 2-parameter lattice specifications",
    }
    return chk.finish(
        cov,
        assumptions=[
            "entries are numbers whose comparisons and difference are exact or binary64 operations: Python floats / float64 "
            "(any container), Python ints and integer arrays up to 2^52 whose range fits the dtype, float32/float16 "
            "arrays whose entries, ranges and first steps are exact in the narrow type",
            "CPython/numpy ==, > and - on float64 are IEEE-754 binary64 operations, as PrimFloat's are",
            "np.arange(l, s, p) has ceil((s-l)/p) elements l + i*((l+p)-l) (checked as an envelope: elements within "
            "(2i+8) ulp_ub(max(|l|,|p|,|l+p|)) + 4 ulp_ub(x_i) of l+i*p; length exact unless the quotient is within the "
            "rounding slack of an integer)",
            "the grid theorems are over exact rationals: they describe the binary64 grid up to that envelope",
        ],
        trusted=["modelled, not verified: numpy.arange, len() of lists/arrays, zip/enumerate",
                 "non-gating observation: a negative precision passes the documented cascade and yields an empty grid "
                 "(theorem C15_negative_precision_accepted_empty; counted in the distribution)"],
    )
