"""C15 - search-space specifications are validated and discretised as documented.

Model: coq/Model/SearchSpace.v   Theorems: coq/Properties/C15.v
Correspondence (evaluated inside Coq, `check_case`):
  * validation: the exception class and every attribute raised by the real SearchSpace._check_bounds /
    SearchSpace(...) equal, exactly, what `check_bounds_F` (the cascade over IEEE binary64, PrimFloat) returns;
  * discretisation: len(param_grid[j]) equals ceil((u+1e-7-l)/p) computed in exact rationals (unless that quotient is
    within the rounding slack of an integer: "borderline", then +-1 is accepted) and the elements equal l+i*p within
    the rounding envelope of numpy's arange; space_size is the product of the observed lengths; dims.
Direct oracle (Python, on the implementation's observations, independent of the Coq model): the property statement.
"""
from __future__ import annotations

import json

import common
import math
from collections import Counter
from fractions import Fraction

import numpy as np

from common import cfloat, clist, cnat, cz

IMPORTS = "From Coq Require Import List ZArith QArith Floats.\nFrom BlackIt Require Import Model.SearchSpace."
CASE_T = "list (list float) * list float * obs"

EPS = 0.0000001  # the constant of search_space.py:77
EPSF = Fraction(EPS)
LATTICE = [-2.0, -1.0, -1e-9, 0.0, 1e-9, 1.0, 1.0 + 2.0 ** -52, 2.0, 1e300]
SPECIAL = [float("nan"), float("inf"), float("-inf"), -0.0]
MAX_POINTS = 1.0e6  # per parameter; larger grids are not constructed (validated through _check_bounds only)

# documented classes: Coq constructor, attributes in constructor order with their kinds
ERR_SPEC = {
    "BoundsNotOfSizeTwoError": ("BoundsNotOfSizeTwo", [("count_bounds_subarrays", "int")]),
    "BoundsOfDifferentLengthError": ("BoundsOfDifferentLength",
                                     [("lower_bounds_length", "int"), ("upper_bounds_length", "int")]),
    "BadPrecisionLengthError": ("BadPrecisionLength", [("precisions_length", "int"), ("bounds_length", "int")]),
    "SameLowerAndUpperBoundError": ("SameLowerAndUpperBound", [("param_index", "int"), ("bound_value", "float")]),
    "LowerBoundGreaterThanUpperBoundError": ("LowerBoundGreaterThanUpperBound",
                                             [("param_index", "int"), ("lower_bound", "float"), ("upper_bound", "float")]),
    "PrecisionZeroError": ("PrecisionZero", [("param_index", "int")]),
    "PrecisionGreaterThanBoundsRangeError": ("PrecisionGreaterThanBoundsRange",
                                             [("param_index", "int"), ("lower_bound", "float"), ("upper_bound", "float"),
                                              ("precision", "float")]),
}


def hx(x) -> str:
    x = float(x)
    return "nan" if math.isnan(x) else x.hex()


def fx(h: str) -> float:
    return float.fromhex(h)


NAMES = {hx(v): f"v{i}" for i, v in enumerate(LATTICE)}
NAMES.update({hx(v): f"s{i}" for i, v in enumerate(SPECIAL)})
PREAMBLE = "\n".join(
    [f"Definition v{i} : float := {cfloat(v)}." for i, v in enumerate(LATTICE)]
    + [f"Definition s{i} : float := {cfloat(v)}." for i, v in enumerate(SPECIAL)]
)


def cf(h: str) -> str:
    return NAMES.get(h) or cfloat(fx(h))


def mk_case(bounds, prec, flavour="list", family="?", ragged="seq"):
    return {"bounds": [[hx(v) for v in row] for row in bounds], "prec": [hx(v) for v in prec],
            "flavour": flavour, "family": family, "ragged": ragged}


# ------------------------------------------------------------------------------------------- implementation side
def build_inputs(case):
    b = [[fx(h) for h in row] for row in case["bounds"]]
    p = [fx(h) for h in case["prec"]]
    if case["flavour"] == "list":
        return b, p, [list(r) for r in b], list(p)
    rect = len({len(r) for r in b}) <= 1
    if case["flavour"] == "f32" and rect and all(float(np.float32(v)) == v for r in b for v in r) and all(float(np.float32(v)) == v for v in p):
        # single-precision arrays holding exactly the same numbers (data read from a float32 file, a GPU pipeline, ...)
        return b, p, np.array(b, dtype=np.float32).reshape(len(b), len(b[0]) if b else 0), np.array(p, dtype=np.float32)
    if rect:
        B = np.array(b, dtype=np.float64).reshape(len(b), len(b[0]) if b else 0)
    elif case.get("ragged") == "obj":
        B = np.empty(len(b), dtype=object)
        for i, r in enumerate(b):
            B[i] = np.array(r, dtype=np.float64)
    else:
        B = [np.array(r, dtype=np.float64) for r in b]
    return b, p, B, np.array(p, dtype=np.float64)


def safe_to_construct(b, p) -> bool:
    """False when SearchSpace(...) could try to allocate a huge grid (whatever _check_bounds says)."""
    if len(b) < 2:
        return True
    total = 1.0
    for l, u, pr in zip(b[0], b[1], p):
        if not (math.isfinite(l) and math.isfinite(u) and math.isfinite(pr)):
            return False
        if pr == 0:
            continue  # arange raises ZeroDivisionError at once
        n = (u + EPS - l) / pr
        if not abs(n) <= MAX_POINTS:  # numpy refuses (ValueError) or allocates: either way not part of the property
            return False
        total *= max(n, 1.0)
        if total > 4 * MAX_POINTS:
            return False
    return True


def exc_record(e):
    from black_it import search_space as ss

    attrs = {}
    for k, v in vars(e).items():
        if isinstance(v, (bool, np.bool_)):
            attrs[k] = ["other", repr(v)]
        elif isinstance(v, (int, np.integer)):
            attrs[k] = ["int", int(v)]
        elif isinstance(v, (float, np.floating)):
            attrs[k] = ["float", hx(v)]
        else:
            attrs[k] = ["other", repr(v)[:80]]
    return {
        "ok": False,
        "exc": type(e).__name__,
        "exact_class": getattr(ss, type(e).__name__, None) is type(e),
        "is_sse": isinstance(e, ss.SearchSpaceError) and isinstance(e, ValueError),
        "attrs": attrs,
        "msg": str(e)[:300],
    }


def sample_indices(n):
    if n <= 24:
        return list(range(n))
    idx = set(range(4)) | set(range(n - 4, n)) | {round(j * (n - 1) / 15) for j in range(16)}
    return sorted(idx)


def run_impl(case):
    """Run the real code on one specification; returns the observation (JSON-able but for '_grids')."""
    from black_it.search_space import SearchSpace

    b, p, B, P = build_inputs(case)
    obs = {"cb": None, "ctor": None, "constructed": False}
    try:
        SearchSpace._check_bounds(B, P)
        obs["cb"] = {"ok": True}
    except BaseException as e:  # noqa: BLE001
        obs["cb"] = exc_record(e)
    def snap(x):
        if isinstance(x, np.ndarray) and x.dtype != object:
            return x.tobytes()
        if isinstance(x, (list, tuple, np.ndarray)):
            return tuple(snap(y) for y in x)
        return repr(x)

    before = (snap(B), snap(P))
    if safe_to_construct(b, p):
        try:
            if case["flavour"] != "list":
                SearchSpace(B, P, False)          # the caller's arrays are reused for a second construction: the result below
                                                  # must not depend on that (and the arrays must come back untouched)
            s = SearchSpace(B, P, False)
        except BaseException as e:  # noqa: BLE001
            obs["ctor"] = exc_record(e)
        else:
            grids = s.param_grid
            ok_shape = isinstance(grids, list) and all(
                isinstance(g, np.ndarray) and g.ndim == 1 and g.dtype == np.float64 for g in grids)
            obs["ctor"] = {"ok": True, "grid_types_ok": bool(ok_shape)}
            if ok_shape:
                obs["constructed"] = True
                obs["lens"] = [int(len(g)) for g in grids]
                obs["samples"] = [[[i, hx(g[i])] for i in sample_indices(len(g))] for g in grids]
                obs["space_size"] = s.space_size if type(s.space_size) is int else repr(s.space_size)
                obs["dims"] = s.dims if type(s.dims) is int else repr(s.dims)
                obs["_grids"] = grids
    obs["inputs_untouched"] = bool(before == (snap(B), snap(P)))
    return obs


def public(obs):
    return {k: v for k, v in obs.items() if not k.startswith("_")}


# ------------------------------------------------------------------------------------------- model side (literals)
def emit_err(rec):
    spec = ERR_SPEC.get(rec["exc"])
    if spec is None or not rec["exact_class"]:
        return "ObsOther"
    ctor, fields = spec
    if set(rec["attrs"]) != {f for f, _ in fields}:
        return "ObsOther"
    args = []
    for f, kind in fields:
        k, v = rec["attrs"][f]
        if k != kind:
            return "ObsOther"
        if kind == "int":
            if v < 0:
                return "ObsOther"
            args.append(cnat(v))
        else:
            args.append(cf(v))
    return f"ObsErr ({ctor} {' '.join(args)})"


def emit(case, obs):
    bl = clist([clist([cf(h) for h in row]) for row in case["bounds"]])
    pl = clist([cf(h) for h in case["prec"]])
    cb, ctor = obs["cb"], obs["ctor"]
    if not cb["ok"]:
        o = emit_err(cb)
    elif ctor is None:
        o = "ObsOk"
    elif obs["constructed"] and type(obs["space_size"]) is int and type(obs["dims"]) is int:
        gs = clist([
            "(" + cz(n) + ", " + clist(["(" + cz(i) + ", " + cf(h) + ")" for i, h in smp]) + ")"
            for n, smp in zip(obs["lens"], obs["samples"])
        ])
        o = f"ObsGrid {gs} {cz(obs['space_size'])} {cnat(obs['dims'])}"
    else:
        o = "ObsOther"
    return f"({bl}, {pl}, {o})"


# ------------------------------------------------------------------------------------------- direct oracle
def all_violations(b, p):
    """Every violated documented condition with its place in the documented order (structural first, then
    index-major: same, inverted, zero precision, precision larger than the range)."""
    if len(b) != 2:
        # bounds[0] / bounds[1] are not meaningful; the documented first check decides alone
        return [((0, 0), "BoundsNotOfSizeTwoError", {"count_bounds_subarrays": ["int", len(b)]})]
    v = []
    n0, n1 = len(b[0]), len(b[1])
    if n0 != n1:
        v.append(((0, 1), "BoundsOfDifferentLengthError",
                  {"lower_bounds_length": ["int", n0], "upper_bounds_length": ["int", n1]}))
    if len(p) != n0:
        v.append(((0, 2), "BadPrecisionLengthError", {"precisions_length": ["int", len(p)], "bounds_length": ["int", n0]}))
    for i, (l, u, pr) in enumerate(zip(b[0], b[1], p)):
        if l == u:
            v.append(((i + 1, 0), "SameLowerAndUpperBoundError", {"param_index": ["int", i], "bound_value": ["float", hx(l)]}))
        if l > u:
            v.append(((i + 1, 1), "LowerBoundGreaterThanUpperBoundError",
                      {"param_index": ["int", i], "lower_bound": ["float", hx(l)], "upper_bound": ["float", hx(u)]}))
        if pr == 0:
            v.append(((i + 1, 2), "PrecisionZeroError", {"param_index": ["int", i]}))
        if pr > u - l:  # the documented comparison is on the float difference (it is printed in the message)
            v.append(((i + 1, 3), "PrecisionGreaterThanBoundsRangeError",
                      {"param_index": ["int", i], "lower_bound": ["float", hx(l)], "upper_bound": ["float", hx(u)],
                       "precision": ["float", hx(pr)]}))
    return v


def ulp_ub(x: Fraction) -> Fraction:
    if x == 0:
        return Fraction(0)
    e = (abs(x.numerator).bit_length() - 1) - (x.denominator.bit_length() - 1) - 52
    return Fraction(2) ** e


def len_slack_abs(l, u):
    """absolute slack (in units of the parameter) of the end-point rule: roundings of u+1e-7, of the difference and of
    the quotient (the latter widened to 2^-48 relative), cf. Model/SearchSpace.v len_slack (times |p|)."""
    s = Fraction(u) + EPSF
    return ulp_ub(s) + 2 * ulp_ub(s - Fraction(l)) + abs(s - Fraction(l)) / 2 ** 48


def is_borderline(l, u, pr):
    L, U, P = Fraction(l), Fraction(u), Fraction(pr)
    r = (U + EPSF - L) / P
    d = min(r - math.floor(r), math.ceil(r) - r)
    return d <= len_slack_abs(l, u) / abs(P)


def oracle_grid(b, p, obs, stats):
    fails = []
    grids = obs["_grids"]
    if obs["dims"] != len(p):
        fails.append(f"dims: {obs['dims']} != number of parameters {len(p)}")
    if len(grids) != len(p):
        fails.append(f"param_grid has {len(grids)} columns for {len(p)} parameters")
        return fails
    prod = 1
    for g in grids:
        prod *= len(g)
    if obs["space_size"] != prod:
        fails.append(f"space_size: {obs['space_size']} != product of grid lengths {prod}")
    for j, (l, u, pr) in enumerate(zip(b[0], b[1], p)):
        a = grids[j]
        n = len(a)
        if pr < 0:
            stats["negative_precision_accepted(empty grid, outside the property's well-formed class)"] += 1
            continue
        if n == 0:
            fails.append(f"grid: parameter {j} has an empty grid")
            continue
        if float(a[0]).hex() != float(l).hex() and not (a[0] == l):
            fails.append(f"grid: parameter {j} starts at {a[0]!r}, not at the lower bound {l!r}")
        i = np.arange(n, dtype=np.longdouble)
        ref = np.longdouble(l) + i * np.longdouble(pr)
        big = max(abs(l), abs(pr), abs(l + pr))
        tol = (2 * i + 8) * 2 * np.longdouble(math.ulp(big)) + 8 * np.spacing(np.abs(a)).astype(np.longdouble)
        err = np.abs(a.astype(np.longdouble) - ref)
        badi = np.nonzero(err > tol)[0]
        if len(badi):
            k = int(badi[0])
            fails.append(f"grid: parameter {j} element {k} = {float(a[k])!r} is not lower + {k}*precision")
        if n >= 2 and not bool((np.diff(a) > 0).all()):
            fails.append(f"grid: parameter {j} is not increasing")
        L, U, P = Fraction(l), Fraction(u), Fraction(pr)
        last = Fraction(float(a[-1]))
        tol_last = Fraction(float(tol[-1]))
        slack = 2 * len_slack_abs(l, u) + tol_last
        stop = U + EPSF
        if not last < stop + slack:
            fails.append(f"grid: parameter {j} last element {float(a[-1])!r} is beyond upper + 1e-7")
        if not last + P >= stop - slack:
            fails.append(f"grid: parameter {j} stops early: {float(a[-1])!r} + precision is still below upper + 1e-7")
        if P <= U - L and n < 2 and not is_borderline(l, u, pr):
            fails.append(f"grid: parameter {j} has {n} point(s) although precision <= range")
        r0 = (U - L) / P
        k = round(r0)
        d = r0 - k
        if k >= 1 and abs(d) <= r0 / 2 ** 44:
            e = EPSF / P
            B = 2 * len_slack_abs(l, u) / P
            if d + e > B and d + e < 1 - B:
                stats["range_is_multiple_of_precision"] += 1
                if n != k + 1:
                    fails.append(f"grid: parameter {j}: range = {k} steps but {n} points (expected {k + 1})")
                elif abs(last - U) > tol_last + abs(d) * P:
                    fails.append(f"grid: parameter {j}: range = {k} steps but the last point {float(a[-1])!r} is not upper {u!r}")
    return fails


def oracle(case, obs, stats):
    """The property statement on the implementation's observations."""
    b = [[fx(h) for h in row] for row in case["bounds"]]
    p = [fx(h) for h in case["prec"]]
    viol = all_violations(b, p)
    stats[f"simultaneous_violations={min(len(viol), 4)}{'+' if len(viol) >= 4 else ''}"] += 1
    fails = []
    cb, ctor = obs["cb"], obs["ctor"]
    if viol:
        _, cls, attrs = min(viol, key=lambda t: t[0])
        for who, rec in (("_check_bounds", cb), ("SearchSpace()", ctor)):
            if rec is None:
                continue
            if rec["ok"]:
                fails.append(f"accepted: {who} accepted a malformed specification (expected {cls})")
            elif rec["exc"] != cls or not rec["exact_class"]:
                fails.append(f"class: {who} raised {rec['exc']} instead of {cls}")
            elif not rec["is_sse"]:
                fails.append(f"class: {cls} is not a SearchSpaceError/ValueError")
            elif rec["attrs"] != attrs:
                fails.append(f"payload: {who} {cls} carries {rec['attrs']} instead of {attrs}")
    else:
        if not cb["ok"]:
            fails.append(f"rejected: _check_bounds raised {cb['exc']} on a well-formed specification")
        if ctor is not None:
            if not ctor["ok"]:
                fails.append(f"rejected: SearchSpace() raised {ctor['exc']} on a well-formed specification")
            elif not obs["constructed"]:
                fails.append("grid: param_grid is not a list of one-dimensional float64 arrays")
            elif type(obs["space_size"]) is not int or type(obs["dims"]) is not int:
                fails.append("space_size: space_size/dims are not Python ints")
            else:
                fails += oracle_grid(b, p, obs, stats)
    if obs.get("inputs_untouched") is False:
        fails.append("inputs: the bounds / precision arrays given by the caller were modified")
    return fails


# ------------------------------------------------------------------------------------------- generators
def flav(k):
    return "list" if k % 2 == 0 else "ndarray"


def lattice_specs(nparams, triples=None):
    """all specs over `triples` (default: the whole lattice^3) for nparams parameters, as index tuples"""
    import itertools

    tr = triples if triples is not None else list(itertools.product(range(len(LATTICE)), repeat=3))
    return itertools.product(tr, repeat=nparams)


def lat(ts, flavour, family):
    """compact form of a lattice case (expanded on demand by get_case)"""
    return ("L", tuple(tuple(t) for t in ts), flavour, family)


def get_case(c):
    if isinstance(c, tuple):
        return case_of_triples(c[1], c[2], c[3])
    return c


def case_of_triples(ts, flavour, family, values=LATTICE):
    return mk_case([[values[t[0]] for t in ts], [values[t[1]] for t in ts]], [values[t[2]] for t in ts], flavour, family)


def signature(t, values=LATTICE):
    l, u, p = values[t[0]], values[t[1]], values[t[2]]
    huge = p != 0 and (u + EPS - l) / p > MAX_POINTS
    return (l == u, l > u, p == 0, p > u - l, p < 0, huge)


def representative_triples(rng, per_sig):
    import itertools

    groups = {}
    for t in itertools.product(range(len(LATTICE)), repeat=3):
        groups.setdefault(signature(t), []).append(t)
    reps = []
    for sig in sorted(groups):
        g = groups[sig]
        rng.shuffle(g)
        reps += g[:per_sig]
    return reps, len(groups)


def rand_value(rng):
    k = rng.below(10)
    if k < 2:
        return float(rng.randint(-5, 5))
    if k < 4:
        return rng.randint(-4096, 4096) / 2.0 ** rng.randint(0, 10)
    s = -1.0 if rng.below(2) else 1.0
    return s * rng.uniform(1.0, 10.0) * 10.0 ** rng.randint(-6, 5)


def rand_param(rng, kind):
    """(l, u, p) exhibiting the requested combination of conditions"""
    l = rand_value(rng)
    span = abs(rand_value(rng)) + 2.0 ** -20
    if kind == "ok":
        u = l + span
        p = (u - l) / rng.uniform(1.0, 40.0)
    elif kind == "ok_equal_range":
        u = l + span
        p = u - l
    elif kind == "same":
        u, p = l, abs(rand_value(rng)) + 1e-3
    elif kind == "same_zero":
        u, p = l, 0.0
    elif kind == "inverted":
        u = l - span
        p = span / 3
    elif kind == "inverted_zero":
        u, p = l - span, 0.0
    elif kind == "zero":
        u, p = l + span, 0.0 if rng.below(2) else -0.0
    elif kind == "too_large":
        u = l + span
        p = (u - l) * rng.choice([1.0 + 2.0 ** -40, 1.5, 1e6])
        if not p > u - l:
            p = (u - l) * 2
    elif kind == "too_large_by_one_ulp":
        u = l + span
        p = math.nextafter(u - l, math.inf)
    elif kind == "negative":
        u = l + span
        p = -(u - l) / rng.uniform(1.0, 40.0)
    else:
        raise ValueError(kind)
    return l, u, p


KINDS = ["ok", "ok", "ok", "ok_equal_range", "same", "same_zero", "inverted", "inverted_zero", "zero", "too_large",
         "too_large_by_one_ulp", "negative"]


def random_validation_case(rng, k):
    dims = rng.randint(1, 4)
    # mostly-valid stream and malformed stream
    allok = rng.below(3) == 0
    ps = [rand_param(rng, "ok" if allok else rng.choice(KINDS)) for _ in range(dims)]
    return mk_case([[t[0] for t in ps], [t[1] for t in ps]], [t[2] for t in ps], flav(k), "random_validation")


def shape_cases(rng, fills):
    """every small shape: k sub-lists of lengths 0..3, precision length 0..3; entries from the lattice (so that value
    violations coexist with shape violations)"""
    import itertools

    out = []
    vals = LATTICE
    n = 0
    for k in (0, 1, 2, 3):
        for lens in itertools.product(range(4), repeat=k):
            for plen in range(4):
                if k == 3 and rng.below(4):
                    continue
                for f in range(fills if k == 2 else 1):
                    rows = [[rng.choice(vals) for _ in range(m)] for m in lens]
                    if k >= 2 and f % 2 == 1:
                        # make the per-index part clean so that only the shape decides
                        rows[0] = [0.0] * lens[0]
                        rows[1] = [1.0] * lens[1]
                    prec = [rng.choice(vals) for _ in range(plen)]
                    n += 1
                    out.append(mk_case(rows, prec, flav(n), f"shape_k{k}", ragged="obj" if n % 4 == 1 else "seq"))
    return out


def grid_param(rng, family, kmax):
    big = kmax
    if family == "dyadic_multiple":
        j = rng.randint(0, 10)
        p = rng.randint(1, 16) / 2.0 ** j
        l = rng.randint(-4096, 4096) / 2.0 ** j
        k = rng.randint(1, big)
        return l, l + k * p, p
    if family == "decimal_multiple":
        p = rng.choice([0.1, 0.01, 0.001, 0.05, 0.25, 0.2, 0.5, 1e-4, 2.5, 10.0, 1e3, 0.3, 0.7])
        l = round(rng.uniform(-100, 100) * p * 10, 6)
        k = rng.randint(1, big)
        return l, float(repr(round(l + k * p, 9))), p
    if family == "generic":
        l = rand_value(rng)
        p = abs(rand_value(rng)) * 10.0 ** rng.randint(-2, 2) + 1e-6
        rho = rng.uniform(1.0, float(big))
        return l, l + rho * p, p
    if family == "near_multiple":
        j = rng.randint(0, 8)
        p = rng.randint(1, 16) / 2.0 ** j
        l = rng.randint(-1024, 1024) / 2.0 ** j
        k = rng.randint(2, big)
        d = rng.choice([-3e-7, -1.001e-7, -1e-7, -0.999e-7, -5e-8, -1e-9, 1e-9, 5e-8, 1e-7, 3e-7, 1e-6])
        return l, l + k * p + d, p
    if family == "tiny_precision":
        p = rng.uniform(1.0, 100.0) * 1e-9
        l = rng.choice([0.0, 1e-6, -1e-6, 0.5])
        k = rng.randint(1, 50)
        return l, l + k * p, p
    if family == "negative_precision":
        l, u, p = rand_param(rng, "negative")
        return l, u, p
    if family == "equal_range":
        l, u, p = rand_param(rng, "ok_equal_range")
        return l, u, p
    raise ValueError(family)


GRID_FAMILIES = ["dyadic_multiple", "dyadic_multiple", "decimal_multiple", "decimal_multiple", "generic", "generic",
                 "generic", "near_multiple", "near_multiple", "tiny_precision", "negative_precision", "equal_range"]


def random_grid_case(rng, k, kmax):
    dims = rng.randint(1, 3)
    per = max(2, int(round(kmax ** (1.0 / dims)))) if kmax > 400 else kmax
    fam = [rng.choice(GRID_FAMILIES) for _ in range(dims)]
    ps = [grid_param(rng, f, per) for f in fam]
    return mk_case([[t[0] for t in ps], [t[1] for t in ps]], [t[2] for t in ps], flav(k), "grid:" + "+".join(fam))


def random_f32_case(rng, k):
    dims = rng.randint(1, 3)
    ps = [grid_param(rng, "dyadic_multiple", 60) for _ in range(dims)]
    return mk_case([[t[0] for t in ps], [t[1] for t in ps]], [t[2] for t in ps], "f32", "grid:float32-arrays")


def big_space_cases(rng):
    """Well-formed specifications whose number of grid points does not fit a machine integer."""
    out = []
    for dims, npts in ((10, 101), (64, 2), (13, 33), (21, 9), (9, 101)):
        lo = [float(rng.randint(-3, 3)) for _ in range(dims)]
        out.append(mk_case([lo, [x + (npts - 1) * 0.5 for x in lo]], [0.5] * dims, flav(dims), f"grid:big-space-{npts}^{dims}"))
    return out


def generate(chk):
    rng = chk.rng
    quick = chk.tier == "quick"
    cases = []
    corpus = common.CORPUS / "C15"
    for f in sorted(corpus.glob("*.json")):
        cases.append(json.loads(f.read_text())["case"])
    # (i) lattice, exhaustive
    n = 0
    for ts in lattice_specs(1):
        for fl in ("list", "ndarray"):
            cases.append(lat(ts, fl, "lattice1"))
    reps, nsig = representative_triples(rng, 6 if quick else 4)
    if quick:
        for ts in lattice_specs(2, reps):
            n += 1
            cases.append(lat(ts, flav(n), "lattice2_signature_pairs"))
        import itertools

        full = list(itertools.product(range(len(LATTICE)), repeat=3))
        for _ in range(5000):
            n += 1
            cases.append(lat([rng.choice(full), rng.choice(full)], flav(n), "lattice2_sampled"))
    else:
        for ts in lattice_specs(2):
            n += 1
            cases.append(lat(ts, flav(n), "lattice2_full"))
        for ts in lattice_specs(3, reps):
            n += 1
            cases.append(lat(ts, flav(n), "lattice3_signature_triples"))
        import itertools

        full = list(itertools.product(range(len(LATTICE)), repeat=3))
        for _ in range(40000):
            n += 1
            cases.append(lat([rng.choice(full) for _ in range(3)], flav(n), "lattice3_sampled"))
    # IEEE specials: validation only (never constructed)
    ext = LATTICE + SPECIAL
    import itertools

    for t in itertools.product(range(len(ext)), repeat=3):
        if any(i >= len(LATTICE) for i in t):
            n += 1
            cases.append(case_of_triples([t], flav(n), "special1", values=ext))
    # (ii) shapes
    cases += shape_cases(rng, 6 if quick else 30)
    # (iii) random validation specs
    for k in range(3000 if quick else 60000):
        cases.append(random_validation_case(rng, k))
    # (iv) random grids
    for k in range(700 if quick else 12000):
        cases.append(random_grid_case(rng, k, 60))
    for k in range(120 if quick else 1500):
        cases.append(random_grid_case(rng, k, 2000))
    for k in range(10 if quick else 120):
        cases.append(random_grid_case(rng, k, 100000))
    for k in range(60 if quick else 600):
        cases.append(random_f32_case(rng, k))
    cases += big_space_cases(rng)
    return cases, nsig


# ------------------------------------------------------------------------------------------- driver
def classify(obs):
    if not obs["cb"]["ok"]:
        return "raised:" + obs["cb"]["exc"]
    if obs["ctor"] is None:
        return "accepted:checked_only(grid too large or non-finite)"
    if obs["constructed"]:
        return "accepted:constructed"
    return "accepted:constructor_failed"


def run(chk, replay=None):
    chk.proof_gate()
    import black_it

    nsig = None
    if replay:
        cases = [json.loads(open(replay).read())["case"]]
    else:
        cases, nsig = generate(chk)
    stats = Counter()
    lits, fails_by_case, keys, nontrivial = [], {}, set(), set()
    samples = []
    borderline = 0
    for i, c0 in enumerate(cases):
        c = get_case(c0)
        obs = run_impl(c)
        lits.append(emit(c, obs))
        fails = oracle(c, obs, stats)
        if fails:
            fails_by_case[i] = fails
        cls = classify(obs)
        stats[cls] += 1
        stats["flavour=" + c["flavour"]] += 1
        stats["family=" + c["family"].split(":")[0]] += 1
        key = c0[1] if isinstance(c0, tuple) else json.dumps([c["bounds"], c["prec"]])
        keys.add(key)
        if cls.startswith("raised") or (obs["constructed"] and any(n >= 2 for n in obs["lens"])):
            nontrivial.add(key)
        if obs["constructed"]:
            b = [[fx(h) for h in row] for row in c["bounds"]]
            p = [fx(h) for h in c["prec"]]
            for l, u, pr in zip(b[0], b[1], p):
                stats["grid_points<=64" if (u + EPS - l) / pr <= 64 else "grid_points>64"] += 1
                if is_borderline(l, u, pr):
                    borderline += 1
        if len(samples) < 5 and i % max(1, len(cases) // 5) == 0:
            pub = public(obs)
            pub.pop("samples", None)
            samples.append({"case": c, "observed": pub})
    bad, errors = chk.coq_mismatches("C15", IMPORTS, "check_case", CASE_T, lits,
                                     shard=500 if chk.tier == "quick" else 4000, preamble=PREAMBLE)
    bad = set(bad)
    reported = 0
    for i in sorted(set(fails_by_case) | bad):
        if reported >= 25:
            break
        c = get_case(cases[i])
        obs = run_impl(c)
        pub = public(obs)
        if i in fails_by_case:
            fails = fails_by_case[i]
            clause = fails[0].split(":")[0][:40]
            chk.violation({"kind": "oracle", "clause": clause},
                          {"failed": "oracle:" + fails[0], "all": fails, "case": c, "observed": pub,
                           "model_disagrees_too": i in bad})
        else:
            vals, _ = chk.coq_eval("C15_diag", IMPORTS, [f"let c := {lits[i]} in check_bounds_F (fst (fst c)) (snd (fst c))"],
                                   preamble=PREAMBLE)
            chk.violation({"kind": "correspondence", "name": "check_case"},
                          {"failed": "correspondence:check_case (Model/SearchSpace.v and the implementation disagree; the "
                                     "property oracle found no failing input)", "case": c, "observed": pub,
                           "coq_case": lits[i], "model_check_bounds_F": vals[0]}, no_input=True)
        reported += 1
    for e in errors:
        chk.violation({"kind": "correspondence", "name": "coqc"}, {"failed": "correspondence:coqc", "detail": e}, no_input=True)

    # diagnostic (never gates): where does the exact-rational cascade decide differently from the binary64 one?
    diag = {}
    if not replay:
        import itertools

        dl, dc = [], []
        for t in itertools.product(range(len(LATTICE)), repeat=3):
            c = case_of_triples([t], "list", "diag")
            dc.append(c)
            dl.append("(" + clist([clist([cf(h) for h in row]) for row in c["bounds"]]) + ", "
                      + clist([cf(h) for h in c["prec"]]) + ")")
        dbad, derr = chk.coq_mismatches("C15_exact", IMPORTS, "exact_agrees", "list (list float) * list float", dl,
                                        shard=400, preamble=PREAMBLE)
        diag = {"lattice1_specs_where_exact_rational_cascade_differs_from_binary64": len(dbad),
                "examples": [{"bounds": [[fx(h) for h in r] for r in dc[i]["bounds"]], "prec": [fx(h) for h in dc[i]["prec"]]}
                             for i in dbad[:4]],
                "errors": derr[:2]}

    cov = {
        "evaluations": len(cases),
        "distinct": len(keys),
        "distinct_nontrivial": len(nontrivial),
        "rule": "one evaluation = one specification run through the real SearchSpace._check_bounds and (unless a grid would "
                "exceed 1e6 points or an entry is non-finite) the real SearchSpace(...) constructor; distinct = distinct "
                "(bounds, precision) values; non-trivial = an exception was raised or a grid with >= 2 points was built. "
                "Generators: the whole 9-value lattice for 1 parameter x {list, ndarray}; 2 parameters: all pairs of "
                "signature representatives + 5000 sampled (quick) / all 531441 (thorough); 3 parameters (thorough): all "
                "triples of signature representatives + 40000 sampled; IEEE specials (nan, +-inf, -0.0) for 1 parameter; every "
                "small shape (0-3 sub-lists of length 0-3, precision length 0-3, ragged arrays); random specifications "
                "mixing the documented violations; random grids (dyadic/decimal multiples, generic, near-multiples at "
                "+-1e-7, precision < 1e-7, negative precision, precision = range) with up to 1e5 points",
        "samples": samples,
        "traces_validated_against_impl": len(cases) - len(bad),
        "model_impl_disagreements": len(bad),
        "oracle_failures": len(fails_by_case),
        "borderline_grid_lengths(counted, +-1 accepted)": borderline,
        "lattice_signatures": nsig,
        "distribution": dict(sorted(stats.items())),
        "diagnostic_exact_vs_binary64": diag,
        "implementation_module": str(black_it.__file__),
        "exhaustive": False,
        "exhaustive_part": "1-parameter specifications over the 9-value lattice (and its extension by nan/inf/-0.0), both "
                           "input flavours; thorough: all 2-parameter lattice specifications",
    }
    return chk.finish(
        cov,
        assumptions=[
            "entries are Python floats / float64 (ints would be compared and subtracted exactly by the interpreter)",
            "CPython/numpy ==, > and - on float64 are IEEE-754 binary64 operations, as PrimFloat's are",
            "np.arange(l, s, p) has ceil((s-l)/p) elements l + i*((l+p)-l) (checked as an envelope: elements within "
            "(2i+8) ulp_ub(max(|l|,|p|,|l+p|)) + 4 ulp_ub(x_i) of l+i*p; length exact unless the quotient is within the "
            "rounding slack of an integer)",
            "the grid theorems are over exact rationals: they describe the binary64 grid up to that envelope",
        ],
        trusted=["modelled, not verified: numpy.arange, len() of lists/arrays, zip/enumerate",
                 "non-gating observation: a negative precision passes the documented cascade and yields an empty grid "
                 "(theorem C15_negative_precision_accepted_empty; counted in the distribution)"],
    )
