"""C04 - a checkpoint restores the calibrator state exactly.

Model: coq/Model/Checkpoint.v (+ CkptTokens.v, shared Calibrator.v)   Theorems: coq/Properties/C04.v
Tie (all on the real code of $VERIF_REPO):
  * folder histories: calibrators built by random operation sequences (scripted "stress" samplers/loss/model whose floats
    come from all binades, and real line-ups of the nine built-in samplers) write checkpoints with the real code into an
    empty folder / a folder holding an earlier checkpoint of the same run / a folder holding a different run; every
    create_checkpoint call is recorded (state saved, raised?, series file created or appended).  The folder is restored and
    compared, component by component and bit for bit, (a) by the direct oracle with the live calibrator, (b) inside Coq with
    the state predicted by Model/Checkpoint.v for that history (check_case).
  * the same for the SQLite back-end (check_sql).
  * float stress through the real to_csv / read_csv, json and np.save paths.
  * token traces of the shared calibrator model with a saving folder (calibrate clause, CalibTokens.check_case).
Round 4 (generator sweep, design.d/C04.md): input representations (repr_inputs; dtype_inputs and np_scalar are recorded findings),
attributes reassigned after construction (reassign, two_folders), two live calibrators / reused sampler and loss objects on one folder
(interleave, reuse), histories of 500-850 rows (long), non-default configuration (config), failing operations followed by normal
ones (sequences), almost-equal stale rows (prefix probe), homogeneous CSV columns (float stress).
"""
from __future__ import annotations

import contextlib
import copy
import hashlib
import io
import json
import os
import pickle
import shutil
import struct
import threading
import time
import types
from collections import Counter
from pathlib import Path

import numpy as np

from common import cbool, clist, cnat, copt, cz
from props import calib_common as cc

IMPORTS = "From Coq Require Import List ZArith.\nFrom BlackIt Require Import Model.CkptTokens."
SCRATCH = Path("/var/tmp/verif-scratch/c04")
NAN_BITS = 0x7FF8000000000000
COMPONENTS = {1: "parameters_bounds", 2: "parameters_precision", 3: "real_data", 4: "ensemble_size", 5: "N", 6: "D",
              7: "convergence_precision", 8: "verbose", 9: "saving_folder", 10: "random_state", 11: "random_generator_state",
              12: "model_name", 13: "scheduler", 14: "loss_function", 15: "current_batch_index", 16: "n_sampled_params",
              17: "n_jobs", 18: "params_samp", 19: "losses_samp", 20: "series_samp", 21: "batch_num_samp", 22: "method_samp",
              23: "samplers_id_table", 24: "dtypes"}


# ------------------------------------------------------------------------------------------------ canonical deep view
def canon(o, stack=()):
    """Attribute-wise, order-preserving, bit-exact structural view of an object graph (all NaNs are one value)."""
    if o is None or isinstance(o, (bool, str, bytes)):
        return (type(o).__name__, o)
    if isinstance(o, int):
        return ("int", o)
    if isinstance(o, float):
        return ("float", "nan" if o != o else struct.pack("<d", o).hex())
    if isinstance(o, np.floating):
        return (type(o).__name__, canon(float(o)))
    if isinstance(o, (np.integer, np.bool_)):
        return (type(o).__name__, int(o))
    if isinstance(o, np.ndarray):
        if o.dtype == object:
            return ("ndobj", o.shape, [canon(x, stack) for x in o.ravel().tolist()])
        a = np.ascontiguousarray(o)
        if a.dtype.kind == "f":
            a = a.copy()
            a[np.isnan(a)] = np.nan
        return ("nd", a.dtype.str, a.shape, hashlib.sha256(a.tobytes()).hexdigest())
    if isinstance(o, np.random.Generator):
        return ("Generator", canon(o.bit_generator.state, stack))
    if isinstance(o, np.random.BitGenerator):
        return ("BitGenerator", canon(o.state, stack))
    if isinstance(o, np.random.RandomState):
        return ("RandomState", canon(o.get_state(legacy=False), stack))
    if isinstance(o, (types.FunctionType, types.BuiltinFunctionType, type, types.ModuleType)):
        return ("ref", getattr(o, "__module__", None), getattr(o, "__qualname__", getattr(o, "__name__", None)))
    if id(o) in stack:
        return ("cycle",)
    stack = (*stack, id(o))
    if isinstance(o, (list, tuple)):
        return (type(o).__name__, [canon(x, stack) for x in o])
    if isinstance(o, dict):
        return (type(o).__name__, [(canon(k, stack), canon(v, stack)) for k, v in o.items()])
    if isinstance(o, (set, frozenset)):
        return (type(o).__name__, sorted(repr(canon(x, stack)) for x in o))
    if isinstance(o, bytearray):
        return ("bytearray", hashlib.sha256(bytes(o)).hexdigest())
    if isinstance(o, types.MethodType):
        return ("method", canon(o.__self__, stack), o.__func__.__qualname__)
    try:
        red = o.__reduce_ex__(4)
    except Exception:  # noqa: BLE001
        return ("unpicklable", type(o).__module__, type(o).__qualname__)
    if isinstance(red, str):
        return ("global", red)
    parts = []
    for x in red[1:]:
        parts.append([canon(y, stack) for y in x] if hasattr(x, "__next__") else canon(x, stack))
    return ("obj", type(o).__module__, type(o).__qualname__, parts)


def obj_view(o):
    try:
        pk = pickle.dumps(o)
    except Exception:  # noqa: BLE001
        pk = None
    c = repr(canon(o))
    return {"digest": hashlib.sha256(c.encode()).hexdigest()[:15], "pickle": pk, "type": type(o).__name__}


def obj_same(a, b):
    return a["digest"] == b["digest"] or (a["pickle"] is not None and a["pickle"] == b["pickle"])


def arr_view(a):
    a = np.asarray(a)
    if a.dtype.kind == "f":
        bits = np.ascontiguousarray(a, dtype=np.float64).view(np.uint64).copy()
        bits[np.isnan(np.ascontiguousarray(a, dtype=np.float64))] = NAN_BITS
        ints = bits
    elif a.dtype.kind in "iub":
        ints = np.ascontiguousarray(a).astype(object)
    else:
        ints = np.asarray([], dtype=object) if a.size == 0 else None
    return {"dtype": a.dtype.str, "shape": tuple(int(x) for x in a.shape),
            "ints": None if ints is None else [int(x) for x in np.asarray(ints).ravel().tolist()],
            "raw": repr(a.tolist()) if ints is None else None}


def snapshot(cal):
    """Everything observable/persisted of a calibrator, in comparable form."""
    g = cal.param_grid
    return {
        "bounds": arr_view(g.parameters_bounds), "precision": arr_view(g.parameters_precision),
        "real": arr_view(cal.real_data),
        "E": ("int", int(cal.ensemble_size)) if isinstance(cal.ensemble_size, (int, np.integer)) else (type(cal.ensemble_size).__name__, cal.ensemble_size),
        "E_type": type(cal.ensemble_size).__name__,
        "N": (type(cal.N).__name__, cal.N), "D": (type(cal.D).__name__, cal.D),
        "prec": (type(cal.convergence_precision).__name__, cal.convergence_precision),
        "verbose": (type(cal.verbose).__name__, cal.verbose),
        "saving": (type(cal.saving_folder).__name__, cal.saving_folder),
        "seed": (type(cal.random_state).__name__, cal.random_state),
        "gen": copy.deepcopy(cal.random_generator.bit_generator.state),
        "model": cal.model.__name__,
        "sched": obj_view(cal.scheduler), "loss": obj_view(cal.loss_function),
        "batch": (type(cal.current_batch_index).__name__, cal.current_batch_index),
        "nsampled": (type(cal.n_sampled_params).__name__, cal.n_sampled_params),
        "njobs": (type(cal.n_jobs).__name__, cal.n_jobs),
        "params": arr_view(cal.params_samp), "losses": arr_view(cal.losses_samp), "series": arr_view(cal.series_samp),
        "bnums": arr_view(cal.batch_num_samp), "methods": arr_view(cal.method_samp),
        "table": [(str(k), int(v)) for k, v in cal.samplers_id_table.items()],
        "grid": [arr_view(x) for x in g.param_grid], "space_size": int(g.space_size), "dims": int(g.dims),
    }


def arr_same(a, b):
    return a["dtype"] == b["dtype"] and a["shape"] == b["shape"] and a["ints"] == b["ints"] and a["raw"] == b["raw"]


def snap_diff(a, b):
    """Names of the components in which two snapshots differ (the direct oracle of the property)."""
    out = []
    for k in a:
        x, y = a[k], b[k]
        if k in ("sched", "loss"):
            same = obj_same(x, y)
        elif isinstance(x, dict) and "dtype" in x:
            same = arr_same(x, y)
        elif k == "grid":
            same = len(x) == len(y) and all(arr_same(p, q) for p, q in zip(x, y))
        else:
            same = x == y
        if not same:
            out.append(k)
    return out


# ------------------------------------------------------------------------------------------------ scripted components
_CLS = {}


def stress_classes():
    """User-defined samplers/loss whose outputs are scripted floats (created lazily: black_it comes from $VERIF_REPO)."""
    if _CLS:
        return _CLS
    from black_it.loss_functions.base import BaseLoss  # noqa: F401
    from black_it.samplers.base import BaseSampler

    def _sample_batch(self, batch_size, search_space, existing_points, existing_losses):
        dims = search_space.dims
        out = np.zeros((batch_size, dims))
        for r in range(batch_size):
            for d in range(dims):
                out[r, d] = self.script[self.cursor % len(self.script)]
                self.cursor += 1
        return out

    for name in ("StressA", "StressB", "StressC"):
        def __init__(self, batch_size, script, random_state=None):
            BaseSampler.__init__(self, batch_size, random_state, max_deduplication_passes=0)
            self.script, self.cursor = list(script), 0

        cls = type(name, (BaseSampler,), {"__init__": __init__, "sample_batch": _sample_batch})
        cls.__module__ = __name__
        globals()[name] = cls
        _CLS[name] = cls
    return _CLS


class StressLoss:
    """Loss returning scripted floats (any bit pattern); picklable; `fail_at` raises at that call."""

    def __init__(self, script, fail_at=None):
        self.script, self.calls, self.fail_at = list(script), 0, fail_at

    def compute_loss(self, sim, real):
        k = self.calls
        self.calls += 1
        if self.fail_at is not None and k == self.fail_at:
            raise cc.TokFault("loss")
        return self.script[k % len(self.script)]


MODEL_CFG = {"fail_at": None, "calls": 0, "D": 1}


def stress_model(theta, N, seed):  # noqa: N803
    """Series made of arbitrary 64-bit patterns derived from (theta, seed): only moved, never computed with."""
    k = MODEL_CFG["calls"]
    MODEL_CFG["calls"] += 1
    if MODEL_CFG["fail_at"] is not None and k == MODEL_CFG["fail_at"]:
        raise cc.TokFault("model")
    d = MODEL_CFG["D"]
    h = hashlib.sha256(np.asarray(theta, dtype=np.float64).tobytes() + struct.pack("<q", int(seed))).digest()
    need = N * d
    buf = (h * (need * 8 // len(h) + 1))[: need * 8]
    return np.frombuffer(buf, dtype=np.float64).reshape(N, d).copy()


def tiny_model(theta, N, seed):  # noqa: N803
    """Like stress_model with 10-bit patterns (subnormals k * 2^-1074): short Coq literals for the 800-row histories."""
    h = hashlib.sha256(np.asarray(theta, dtype=np.float64).tobytes() + struct.pack("<q", int(seed))).digest()
    need = N * MODEL_CFG["D"]
    k = np.frombuffer((h * (need // len(h) + 1))[:need], dtype=np.uint8).astype(np.uint64) * np.uint64(3) + np.uint64(1)
    return k.view(np.float64).reshape(N, MODEL_CFG["D"]).copy()


def other_model(theta, N, seed):  # noqa: N803
    return stress_model(theta, N, seed)


def real_model(theta, N, seed):  # noqa: N803
    rng = np.random.default_rng(seed)
    return theta[0] + theta[-1] * rng.normal(size=(N, MODEL_CFG["D"]))


# ------------------------------------------------------------------------------------------------ float generators
SPECIAL = [0.0, -0.0, float("inf"), float("-inf"), float("nan"), 5e-324, -5e-324, 2.2250738585072014e-308,
           2.225073858507201e-308, 1.7976931348623157e308, -1.7976931348623157e308, 0.1, 0.2, 0.30000000000000004, 1 / 3,
           9007199254740993.0, 1e22, 1e23, 8.41e21, 2.2250738585072011e-308, 7.500000000000001e-10, 7.5e-10, 1e-5, 123456.7,
           0.5, 1.0, 1.0000000000000002, 0.9999999999999999, 4.35, 2.675, 1e16, 1e15, 123456789012345678.0, 4.9406564584124654e-324]


def rand_float(rng, finite=False):
    """A float64 drawn from all binades: random sign/exponent/mantissa, subnormals, specials, decimal-looking values."""
    k = rng.below(11)
    if k == 10:  # far from the origin relative to the spread (1e5 .. 1e8 level, O(1) variation), integer-valued floats
        x = float(10 ** rng.randint(5, 8)) * (1 if rng.below(4) else -1) + (rng.randint(-999, 999) / 1000.0 if rng.below(3) else float(rng.randint(-3, 3)))
    elif k == 0:
        x = rng.choice(SPECIAL)
    elif k == 1:  # subnormal
        x = struct.unpack("<d", struct.pack("<Q", (rng.below(2) << 63) | rng.below(1 << 52)))[0]
    elif k == 2:  # short decimals (grid-like values)
        x = rng.randint(-10**6, 10**6) / 10 ** rng.randint(0, 8)
    elif k == 3:  # neighbours of powers of ten / two
        b = (10.0 if rng.below(2) else 2.0) ** rng.randint(-300, 300)
        x = float(np.nextafter(b, [0.0, np.inf][rng.below(2)])) if rng.below(2) else b
    else:  # any bit pattern with a uniformly drawn exponent field (includes inf / nan payloads)
        x = struct.unpack("<d", struct.pack("<Q", (rng.below(2) << 63) | (rng.below(2048) << 52) | rng.below(1 << 52)))[0]
    if finite and (x != x or x in (float("inf"), float("-inf"))):
        return rand_float(rng, finite)
    return x


# ------------------------------------------------------------------------------------------------ recording the saves
class Recorder:
    """Wraps Calibrator.create_checkpoint (state at the time of the call, outcome) and the h5py.File calls of the
    JSON/CSV/HDF5 back-end (mode "w" = created or re-created, only "a" = appended in place)."""

    def __init__(self):
        self.saves = {}  # folder -> list of {"snap", "mode"}
        self.modes = []

    def __enter__(self):
        from black_it.calibrator import Calibrator
        from black_it.utils import json_pandas_checkpointing as jp

        self.cal_cls, self.jp = Calibrator, jp
        self.orig_cc, self.orig_h5 = Calibrator.create_checkpoint, jp.h5py
        rec = self

        class H5Proxy:
            def __getattr__(self, name):
                return getattr(rec.orig_h5, name)

            @staticmethod
            def File(path, mode="r", **kw):  # noqa: N802
                if str(path).endswith("series_samp.h5") and mode != "r":
                    rec.modes.append(mode)
                return rec.orig_h5.File(path, mode=mode, **kw)

        def create_checkpoint(cal, file_name):
            folder = str(Path(file_name).resolve())
            entry = {"snap": snapshot(cal), "mode": 0}
            rec.saves.setdefault(folder, []).append(entry)
            rec.modes = []
            rec.orig_cc(cal, file_name)  # a raise leaves mode 0
            entry["mode"] = 1 if "w" in rec.modes else (2 if rec.modes == ["a"] else 3)
            entry["h5calls"] = list(rec.modes)

        jp.h5py = H5Proxy()
        Calibrator.create_checkpoint = create_checkpoint
        return self

    def __exit__(self, *a):
        self.cal_cls.create_checkpoint = self.orig_cc
        self.jp.h5py = self.orig_h5


def quiet(f, *a, **k):
    with contextlib.redirect_stdout(io.StringIO()):
        return f(*a, **k)


EXN_CODES = {"InconsistentCheckpointError": 12, "FileNotFoundError": 2, "EOFError": 3, "UnpicklingError": 3, "JSONDecodeError": 3, "EmptyDataError": 3,
             "ParserError": 3, "KeyError": 4, "SchemaVersionMismatchError": 9, "OperationalError": 10}


def exn_code(e):
    if e is None:
        return 0
    n = type(e).__name__
    if n == "Exception" and "appears to be different" in str(e):
        return 8
    if n == "TypeError" and "pickle" in str(e):
        return 1
    if n == "TypeError" and "NoneType" in str(e):
        return 11
    if n == "ValueError" and "at least one array" in str(e):
        return 6
    return EXN_CODES.get(n, 99)


# ------------------------------------------------------------------------------------------------ building calibrators
REAL_SAMPLERS = ["RandomUniform", "Halton", "RSequence", "BestBatch", "GaussianProcess", "RandomForest", "XGBoost",
                 "ParticleSwarm", "CORS"]


def make_real_sampler(kind, bs, seed=None):
    if kind == "RandomUniform":
        from black_it.samplers.random_uniform import RandomUniformSampler as S
        return S(bs, random_state=seed)
    if kind == "Halton":
        from black_it.samplers.halton import HaltonSampler as S
        return S(bs, random_state=seed)
    if kind == "RSequence":
        from black_it.samplers.r_sequence import RSequenceSampler as S
        return S(bs, random_state=seed)
    if kind == "BestBatch":
        from black_it.samplers.best_batch import BestBatchSampler as S
        return S(bs, random_state=seed)
    if kind == "GaussianProcess":
        from black_it.samplers.gaussian_process import GaussianProcessSampler as S
        return S(bs, random_state=seed, optimize_restarts=1, candidate_pool_size=12)
    if kind == "RandomForest":
        from black_it.samplers.random_forest import RandomForestSampler as S
        return S(bs, random_state=seed, n_estimators=5, candidate_pool_size=12)
    if kind == "XGBoost":
        from black_it.samplers.xgboost import XGBoostSampler as S
        return S(bs, random_state=seed, n_estimators=2, candidate_pool_size=12)
    if kind == "ParticleSwarm":
        from black_it.samplers.particle_swarm import ParticleSwarmSampler as S
        return S(bs, random_state=seed)
    from black_it.samplers.cors import CORSSampler as S
    return S(bs, max_samples=30, random_state=seed)


def make_samplers(spec):
    out = []
    for s in spec["samplers"]:
        if s["kind"] in ("StressA", "StressB", "StressC"):
            out.append(stress_classes()[s["kind"]](s["bs"], s["script"], s.get("seed")))
        else:
            out.append(make_real_sampler(s["kind"], s["bs"], s.get("seed")))
    return out


def make_loss(spec):
    lk = spec["loss"]
    if lk["kind"] == "stress":
        return StressLoss(lk["script"], lk.get("fail_at"))
    if lk["kind"] == "minkowski":
        from black_it.loss_functions.minkowski import MinkowskiLoss
        return MinkowskiLoss(p=lk.get("p", 2))
    if lk["kind"] == "msm":
        from black_it.loss_functions.msm import MethodOfMomentsLoss
        return MethodOfMomentsLoss()
    from black_it.loss_functions.fourier import FourierLoss
    return FourierLoss()


WIDENED = ("f32", "f16", "i32", "u8")       # real-data kinds whose dtype the JSON back-end does not keep (finding)


def build_real(spec):
    """The real-data array in the representation asked for by spec['real_repr'] (default: C-contiguous float64)."""
    rr = spec.get("real_repr", "f64")
    n, d, vals = spec["N"], spec["D"], spec["real"]
    if rr in ("i64", "i32", "u8", "bool"):
        dt = {"i64": np.int64, "i32": np.int32, "u8": np.uint8, "bool": np.bool_}[rr]
        return np.array([int(v) for v in vals], dtype=np.int64).astype(dt).reshape(n, d)
    a = np.array(vals, dtype=np.float64).reshape(n, d)
    if rr == "f32":
        return a.astype(np.float32)
    if rr == "f16":
        return a.astype(np.float16)
    if rr == "fortran":
        return np.asfortranarray(a)
    if rr == "view":          # every second row of a larger buffer
        big = np.full((2 * n, d), 7.25)
        big[::2] = a
        return big[::2]
    if rr == "colview":       # every second column of a wider buffer, reversed rows
        big = np.full((n, 2 * d), -3.5)
        big[::-1, ::2] = a
        return big[::-1, ::2]
    if rr == "readonly":
        a.flags.writeable = False
    return a


def build_bounds(spec):
    br = spec.get("bounds_repr", "list")
    b, p = spec["bounds"], spec["precision"]
    if br == "tuple":
        return tuple(tuple(x) for x in b), tuple(p)
    if br == "array":
        return np.array(b, dtype=np.float64), np.array(p, dtype=np.float64)
    if br == "int_array":
        return np.array(b, dtype=np.int64), np.array(p)
    if br == "f32_array":
        return np.array(b, dtype=np.float32), np.array(p, dtype=np.float32)
    if br == "fortran":
        return np.asfortranarray(np.array(b, dtype=np.float64)), np.array([x for x in p for _ in (0, 1)], dtype=np.float64)[::2]
    return b, p               # "list" / "int_list": as written in the spec


NP_SCALAR = {"ensemble_size": np.int64, "random_state": np.int64, "convergence_precision": np.int64, "verbose": np.bool_,
             "sim_length": np.int64, "n_jobs": np.int64}


def make_calibrator(spec, folder, reuse=None):
    from black_it.calibrator import Calibrator

    MODEL_CFG.update(D=spec["D"], fail_at=spec.get("model_fail_at"), calls=0)
    model = {"stress_model": stress_model, "other_model": other_model, "real_model": real_model, "tiny_model": tiny_model}[spec["model"]]
    real = build_real(spec)
    bounds, precision = build_bounds(spec)
    kw = {}
    if spec.get("rl"):
        from black_it.schedulers.rl.agents.epsilon_greedy import MABEpsilonGreedy
        from black_it.schedulers.rl.envs.mab import MABCalibrationEnv
        from black_it.schedulers.rl.rl_scheduler import RLScheduler

        ss = make_samplers(spec)
        has_halton = any(type(s).__name__ == "HaltonSampler" for s in ss)
        n = len(ss) + (0 if has_halton else 1)
        kw["scheduler"] = RLScheduler(ss, MABEpsilonGreedy(n, 0.1, 0.1, random_state=1), MABCalibrationEnv(n))
    elif reuse is not None:   # the very sampler objects (cursors, generators advanced) of a previous calibrator
        kw["samplers"] = list(reuse.scheduler.samplers)
    else:
        kw["samplers"] = make_samplers(spec)
    if spec.get("sim_length"):
        kw["sim_length"] = spec["sim_length"]
    args = {"ensemble_size": spec["E"], "convergence_precision": spec["prec"], "verbose": spec["verbose"],
            "random_state": spec["seed"], "n_jobs": spec.get("n_jobs", 1)}
    args.update(kw)
    for f in spec.get("np_scalars", []):       # numpy scalars in place of the built-in int / bool
        if args.get(f) is not None:
            args[f] = NP_SCALAR[f](args[f])
    sav = folder if spec["saving"] else None
    if sav is not None and spec.get("folder_repr") == "pathlib":
        sav = Path(sav)
    return quiet(Calibrator, loss_function=reuse.loss_function if reuse is not None else make_loss(spec), real_data=real, model=model,
                 parameters_bounds=bounds, parameters_precision=precision, saving_folder=sav, **args)


def gen_stress_spec(rng, E=None, N=None, D=None, dims=None, prec=None):
    # mostly 1-3 parameters; sometimes more than ten (column names params_samp_10, _11, ... sort before params_samp_2)
    dims = dims or (rng.randint(1, 3) if rng.below(6) else rng.randint(11, 13))
    N = N or rng.randint(1, 3)
    D = D or rng.randint(1, 2)
    lo = [rng.randint(-5, 5) * 0.5 for _ in range(dims)]
    bounds = [lo, [x + rng.randint(1, 4) * 0.75 for x in lo]]
    ns = rng.randint(1, 3)
    samplers = [{"kind": rng.choice(["StressA", "StressB", "StressC"]), "bs": rng.randint(1, 3),
                 "script": [rand_float(rng) for _ in range(rng.randint(3, 9))], "seed": rng.below(100) if rng.below(2) else None}
                for _ in range(ns)]
    return {"model": "stress_model", "E": E or rng.randint(1, 3), "N": N, "D": D, "bounds": bounds,
            "precision": [rng.choice([0.25, 0.05, 0.125, 0.01]) for _ in range(dims)],
            "real": [rand_float(rng) for _ in range(N * D)], "prec": prec, "verbose": bool(rng.below(4) == 0),
            "seed": rng.below(2**31) if rng.below(6) else None, "saving": True, "samplers": samplers,
            # a simulation length that differs from the number of rows of the real data (legal; only a RuntimeWarning)
            "sim_length": N + rng.randint(1, 3) if rng.below(5) == 0 else None,
            "loss": {"kind": "stress", "script": [rand_float(rng) for _ in range(rng.randint(3, 12))]}}


def gen_real_spec(rng, kinds, E=None, N=8, D=None):
    D = D or rng.randint(1, 2)
    return {"model": "real_model", "E": E or rng.randint(1, 2), "N": N, "D": D, "bounds": [[0.0, 0.0], [1.0, 1.0]],
            "precision": [0.05, 0.1], "real": [0.25 * ((i * 7) % 5) for i in range(N * D)], "prec": None, "verbose": False,
            "seed": rng.below(2**31), "saving": True,
            "samplers": [{"kind": k, "bs": rng.randint(1, 2) if k not in ("ParticleSwarm",) else 2, "seed": rng.below(50)} for k in kinds],
            "loss": {"kind": rng.choice(["minkowski", "msm", "fourier"])}}


# ------------------------------------------------------------------------------------------------ scenarios
def apply_repr(rng, s, idx):
    """Give the real data / the bounds of a stress spec another (legal, dtype-preserving) representation."""
    rr = ["i64", "bool", "fortran", "view", "colview", "readonly", "i64"][idx % 7]
    s["real_repr"] = rr
    n = s["N"] * s["D"]
    if rr == "i64":      # small values and values at the ends of the int64 range
        s["real"] = [rng.choice([rng.randint(-9, 9), 2**63 - 1 - rng.below(3), -2**63 + rng.below(3), 2**53 + 1, rng.randint(-10**12, 10**12)])
                     for _ in range(n)]
    elif rr == "bool":
        s["real"] = [rng.below(2) for _ in range(n)]
    br = rng.choice(["tuple", "array", "int_list", "int_array", "fortran", "list"])
    s["bounds_repr"] = br
    dims = len(s["precision"])
    if br in ("int_list", "int_array"):
        lo = [rng.randint(-5, 5) for _ in range(dims)]
        s["bounds"] = [lo, [x + rng.randint(2, 4) for x in lo]]
        s["precision"] = [1 for _ in range(dims)] if br == "int_array" or rng.below(2) else [rng.choice([1, 0.5, 0.25]) for _ in range(dims)]


def gen_reassign(rng, s):
    """A few public attributes and the values assigned to them after construction."""
    n = s["N"] * s["D"]
    pool = {
        "convergence_precision": lambda: rng.choice([None, 0, rng.randint(8, 14)]),
        "verbose": lambda: bool(rng.below(2)),
        "n_jobs": lambda: rng.randint(2, 5),
        "random_state": lambda: rng.choice([None, rng.below(2**31), 0]),
        "real_replace": lambda: [rand_float(rng) for _ in range(n)],
        "real_inplace": lambda: [rng.below(n), rand_float(rng)],
        "loss_replace": lambda: {"kind": "stress", "script": [abs(rand_float(rng, finite=True)) + 1.0 for _ in range(rng.randint(2, 6))]},
        "sampler_batch_size": lambda: [rng.below(len(s["samplers"])), rng.randint(1, 4)],
        "sampler_random_state": lambda: [rng.below(len(s["samplers"])), rng.below(1000)],
    }
    names = sorted(pool)
    out = {}
    for _ in range(rng.randint(2, 4)):
        k = rng.choice(names)
        out[k] = pool[k]()
    return out


def gen_scenario(rng, kind, idx, quick=True):
    """A scenario = ops on ONE folder.  ops: new(spec) | calibrate(n) | checkpoint | verify | restore | set_samplers."""
    sc = {"idx": idx, "kind": kind, "ops": []}
    ops = sc["ops"]
    if kind == "fresh_explicit":
        s = gen_stress_spec(rng)
        s["saving"] = False
        ops += [["new", s], ["calibrate", rng.randint(1, 3)], ["checkpoint"], ["verify"]]
    elif kind == "fresh_auto":
        ops += [["new", gen_stress_spec(rng)], ["calibrate", rng.randint(1, 3)], ["verify"]]
    elif kind == "same_run":
        ops += [["new", gen_stress_spec(rng)], ["calibrate", rng.randint(1, 2)], ["verify"], ["calibrate", rng.randint(1, 2)], ["verify"]]
        if rng.below(2):
            ops += [["restore"], ["calibrate", rng.randint(1, 2)], ["verify"]]
        if rng.below(3) == 0:
            ops += [["checkpoint"], ["verify"]]
    elif kind in ("other_more", "other_fewer", "other_E", "other_shape", "other_dims"):
        a = gen_stress_spec(rng)
        b = gen_stress_spec(rng, E=a["E"], N=a["N"], D=a["D"], dims=len(a["precision"]))
        if kind == "other_E":
            b["E"] = a["E"] % 3 + 1 if rng.below(2) else (a["E"] + 1) % 3 + 1
        if kind == "other_shape":
            if rng.below(2):
                b["N"] = a["N"] % 3 + 1
            else:
                b["D"] = 3 - a["D"]
            b["real"] = [rand_float(rng) for _ in range(b["N"] * b["D"])]
        if kind == "other_dims":
            b = gen_stress_spec(rng, E=a["E"], N=a["N"], D=a["D"], dims=len(a["precision"]) % 3 + 1)
        na, nb = (rng.randint(2, 4), 1) if kind == "other_more" else ((1, rng.randint(2, 4)) if kind == "other_fewer" else (rng.randint(1, 3), rng.randint(1, 3)))
        if kind == "other_more":
            for s in b["samplers"]:
                s["bs"] = 1
        if rng.below(4) == 0:
            b["model"] = "other_model"
        ops += [["new", a], ["calibrate", na], ["new", b], ["calibrate", nb], ["verify"]]
        if rng.below(2):
            ops += [["calibrate", 1], ["verify"]]
    elif kind == "empty_table":
        s = gen_stress_spec(rng)
        s["saving"] = bool(rng.below(2))
        ops += [["new", s], ["checkpoint"], ["verify"], ["restore"], ["calibrate", 1], ["checkpoint"], ["verify"]]
    elif kind == "calibrate_zero":
        s = gen_stress_spec(rng)
        ops += [["new", s], ["calibrate", 0], ["verify"]]
        if rng.below(2):
            ops += [["calibrate", rng.randint(1, 2)], ["verify"], ["set_samplers", gen_stress_spec(rng, dims=len(s["precision"]))["samplers"]],
                    ["calibrate", 0], ["verify"]]
    elif kind == "early_stop":
        p = rng.randint(0, 6)
        s = gen_stress_spec(rng, prec=p)
        k = rng.randint(1, 6)
        zero = rng.choice([0.0, -0.0, 0.25 * 10.0 ** (-p), -0.25 * 10.0 ** (-p)])
        s["loss"]["script"] = [abs(rand_float(rng, finite=True)) + 1.0 for _ in range(k)] + [zero] + [3.0, 4.0]
        ops += [["new", s], ["calibrate", 6], ["verify"], ["calibrate", 1], ["verify"]]
    elif kind == "exception":
        s = gen_stress_spec(rng)
        if rng.below(2):
            s["model_fail_at"] = rng.randint(0, 8)
        else:
            s["loss"]["fail_at"] = rng.randint(0, 4)
        ops += [["new", s], ["calibrate", 4], ["verify_after_exception"]]
    elif kind == "set_samplers":
        s = gen_stress_spec(rng)
        ops += [["new", s], ["calibrate", rng.randint(1, 2)], ["set_samplers", gen_stress_spec(rng, dims=len(s["precision"]))["samplers"]],
                ["checkpoint"], ["verify"], ["calibrate", rng.randint(1, 2)], ["verify"], ["restore"], ["calibrate", 1], ["verify"]]
    elif kind == "wrong_model":
        ops += [["new", gen_stress_spec(rng)], ["calibrate", 1], ["verify_wrong_model"]]
    elif kind == "rl":
        s = gen_stress_spec(rng, dims=2)
        s["rl"] = True
        s["saving"] = bool(rng.below(2))
        if rng.below(2):
            a = gen_stress_spec(rng)
            ops += [["new", a], ["calibrate", 1]]
        ops += [["new", s]]
        ops += [["calibrate", rng.randint(1, 2)]] if s["saving"] else [["calibrate", 1], ["checkpoint"]]
        ops += [["verify_rl"]]
    elif kind == "repr_inputs":
        # dimension 1: the caller's arrays in another representation (integer / bool real data, Fortran order, strided
        # views, read-only, tuples, ndarray / integer bounds); the restored calibrator must carry the same values AND dtypes
        s = gen_stress_spec(rng, D=rng.randint(2, 3) if rng.below(2) else None)
        apply_repr(rng, s, idx)
        ops += [["new", s], ["calibrate", rng.randint(1, 2)], ["verify"], ["restore"], ["calibrate", 1], ["verify"]]
    elif kind == "dtype_inputs":
        # narrower dtypes than the JSON back-end keeps (finding input-dtype-widened)
        s = gen_stress_spec(rng)
        v = idx % 5
        if v == 4:
            s["bounds_repr"] = "f32_array"
        else:
            s["real_repr"] = WIDENED[v]
            if s["real_repr"] in ("i32", "u8"):
                s["real"] = [rng.randint(0, 255) for _ in s["real"]]
        ops += [["new", s], ["calibrate", 1], ["verify"]]
    elif kind == "np_scalar":
        s = gen_stress_spec(rng, prec=rng.randint(7, 12))
        s["loss"]["script"] = [abs(rand_float(rng, finite=True)) + 1.0 for _ in range(4)]
        f = ["ensemble_size", "random_state", "convergence_precision", "verbose", "sim_length", "saving_folder"][idx % 6]
        if f == "saving_folder":
            s["folder_repr"] = "pathlib"
        else:
            s["np_scalars"] = [f]
            if f == "random_state":
                s["seed"] = rng.below(2**31)
            if f == "sim_length":
                s["sim_length"] = s["N"] + 1
        sc["scalar_field"] = f
        ops += [["new", s], ["calibrate", 1], ["verify_np_scalar"]]
    elif kind == "reassign":
        # dimension 3: public attributes assigned after construction - the value in force is the assigned one
        s = gen_stress_spec(rng)
        ops += [["new", s], ["calibrate", rng.randint(1, 2)]]
        ch = gen_reassign(rng, s)
        ops += [["setattr", ch]]
        if "n_jobs" in ch or rng.below(2):
            ops += [["checkpoint"], ["verify"], ["setattr", {"n_jobs": 1}]]
        ops += [["calibrate", 1], ["verify"], ["restore"]]
        ch2 = gen_reassign(rng, s)
        ch2.pop("n_jobs", None)
        ops += [["setattr", ch2], ["calibrate", rng.below(2)], ["verify"]]
    elif kind == "two_folders":
        # the saving folder itself is reassigned: the same calibrator writes to two folders alternately
        s = gen_stress_spec(rng)
        ops += [["new", s], ["calibrate", 1], ["verify"], ["use_folder", 1], ["calibrate", rng.randint(1, 2)], ["verify"],
                ["use_folder", 0], ["calibrate", 1], ["verify"], ["use_folder", 1], ["calibrate", rng.below(2)], ["verify"]]
    elif kind == "interleave":
        # dimension 2: two live calibrators (the original and a restored copy) write into the same folder in turn
        # (the copy is reseeded or given other samplers: left alone it would replay the original's rows bit for bit)
        s = gen_stress_spec(rng)
        div = ["setattr", {"random_state": rng.below(2**31)}] if rng.below(3) else \
            ["set_samplers", gen_stress_spec(rng, dims=len(s["precision"]))["samplers"]]
        ops += [["new", s], ["calibrate", 1], ["fork"], div, ["calibrate", 1], ["verify"], ["swap"], ["calibrate", 1], ["verify"],
                ["swap"], ["calibrate", 1], ["verify"], ["swap"], ["calibrate", rng.below(2)], ["verify"]]
        if rng.below(2):
            ops += [["swap"], ["checkpoint"], ["verify"]]
    elif kind == "reuse":
        # dimension 2: a second calibrator built on the SAME sampler / loss objects, saving into the same folder
        a = gen_stress_spec(rng)
        b = gen_stress_spec(rng, E=a["E"] if rng.below(2) else None, N=a["N"] if rng.below(2) else None, D=a["D"],
                            dims=len(a["precision"]))
        ops += [["new", a], ["calibrate", rng.randint(1, 2)], ["verify"], ["new_reuse", b], ["calibrate", rng.randint(1, 2)], ["verify"],
                ["restore"], ["calibrate", 1], ["verify"]]
    elif kind == "long":
        # dimension 4: histories longer than any block size a writer could use (256 / 512 rows), big single appends
        bs = rng.choice([257, 300])

        def tiny(n):
            return [rng.randint(1, 999) * 5e-324 for _ in range(n)]

        s = gen_stress_spec(rng, E=1, N=1, D=1, dims=1)
        s["samplers"] = [{"kind": "StressA", "bs": bs, "script": tiny(7), "seed": None},
                         {"kind": "StressB", "bs": rng.choice([255, 256]), "script": tiny(5), "seed": 3}]
        b = gen_stress_spec(rng, E=1, N=1, D=1, dims=1)
        b["samplers"] = [{"kind": "StressC", "bs": rng.choice([100, 256]), "script": tiny(6), "seed": None}]
        for x in (s, b):
            x.update(model="tiny_model", verbose=False, sim_length=None, prec=None)
            x["loss"]["script"] = tiny(9)
        ops += [["new", s], ["calibrate", 2], ["restore"], ["calibrate", 1], ["verify"], ["new", b], ["calibrate", 1], ["verify"]]
    elif kind == "config":
        # dimension 5: non-default configuration that the other scenarios leave at its default
        v = idx % 6
        s = gen_stress_spec(rng)
        if v in (0, 1):      # a convergence precision of 0 / larger than 8 that does NOT stop the run
            s["prec"] = 0 if v == 0 else rng.choice([9, 12, 15, 20])
            s["loss"]["script"] = [abs(rand_float(rng, finite=True)) + 1.0 for _ in range(5)]
            s["verbose"] = True
            ops += [["new", s], ["calibrate", 2], ["verify"], ["restore"], ["calibrate", 1], ["verify"]]
        elif v == 2:         # n_jobs other than 1 (no simulation is run with it: only its persistence is at stake)
            s["n_jobs"] = rng.choice([None, 2, 3])
            ops += [["new", s], ["calibrate", 0], ["verify"], ["checkpoint"], ["verify"]]
        elif v in (3, 4):    # the folder named by a relative path / with a trailing separator
            s["folder_repr"] = "rel" if v == 3 else "slash"
            ops += [["new", s], ["calibrate", 1], ["verify"], ["restore"], ["calibrate", 1], ["verify"]]
        else:                # create_checkpoint(os.PathLike) on a calibrator without a saving folder
            s["saving"] = False
            ops += [["new", s], ["calibrate", 1], ["checkpoint", "pathlib"], ["verify"], ["calibrate", 1], ["checkpoint", "slash"], ["verify"]]
    elif kind == "sequences":
        # dimension 6: a failing / rejected / empty operation followed by a normal one
        v = idx % 6
        s = gen_stress_spec(rng)
        if v == 0:           # calibrate() raises (model or loss), then goes on; then an empty session
            if rng.below(2):
                s["model_fail_at"] = rng.randint(0, 8)
            else:
                s["loss"]["fail_at"] = rng.randint(0, 4)
            ops += [["new", s], ["calibrate", 4], ["verify_after_exception"], ["calibrate", 2], ["verify"], ["calibrate", 0], ["verify"]]
        elif v == 1:         # restore, reconfigure, empty session
            ops += [["new", s], ["calibrate", rng.randint(1, 2)], ["restore"],
                    ["set_samplers", gen_stress_spec(rng, dims=len(s["precision"]))["samplers"]], ["calibrate", 0], ["verify"],
                    ["calibrate", 1], ["verify"]]
        elif v == 2:         # a save that fails (loss temporarily unpicklable), then a normal one
            s["saving"] = bool(rng.below(2))
            ops += [["new", s], ["calibrate", 1]] + ([] if s["saving"] else [["checkpoint"]])
            ops += [["setattr", {"loss_unpicklable": True}], ["calibrate", 1] if s["saving"] else ["checkpoint"],
                    ["setattr", {"loss_unpicklable": False}], ["calibrate", rng.below(2)], ["checkpoint"], ["verify"]]
        elif v == 3:         # reconfiguration before the first batch, then an empty session
            ops += [["new", s], ["set_samplers", gen_stress_spec(rng, dims=len(s["precision"]))["samplers"]], ["calibrate", 0], ["verify"],
                    ["calibrate", 1], ["verify"]]
        elif v == 4:         # early stop, then an empty session, then a set_scheduler
            p = rng.randint(0, 6)
            s["prec"] = p
            s["loss"]["script"] = [abs(rand_float(rng, finite=True)) + 1.0 for _ in range(rng.randint(1, 4))] + [0.0, 3.0, 4.0]
            ops += [["new", s], ["calibrate", 5], ["verify"], ["calibrate", 0], ["verify"],
                    ["set_scheduler", gen_stress_spec(rng, dims=len(s["precision"]))["samplers"]], ["calibrate", 0], ["verify"]]
        else:                # restore and checkpoint at once (no new row), twice
            ops += [["new", s], ["calibrate", 2], ["restore"], ["checkpoint"], ["verify"], ["restore"], ["checkpoint"], ["verify"],
                    ["calibrate", 1], ["verify"]]
    elif kind.startswith("real"):
        kinds = sc_kinds = kind.split(":")[1].split(",")
        a = gen_real_spec(rng, kinds)
        nb = len(sc_kinds) + rng.randint(0, 1)
        ops += [["new", a], ["calibrate", 1], ["verify"], ["calibrate", nb - 1 if nb > 1 else 1], ["verify"], ["restore"],
                ["calibrate", 1], ["verify"]]
        if rng.below(2):  # then a different run in the same folder
            b = gen_real_spec(rng, kinds[:2], E=a["E"], N=a["N"], D=a["D"])
            ops += [["new", b], ["calibrate", 1], ["verify"]]
    return sc


def apply_setattr(cal, ch):
    """Assign public attributes of a live calibrator (and of its samplers / loss)."""
    for k, v in ch.items():
        if k in ("convergence_precision", "verbose", "n_jobs", "random_state"):
            setattr(cal, k, v)
        elif k == "real_replace":
            cal.real_data = np.array(v, dtype=np.float64).reshape(np.shape(cal.real_data))
        elif k == "real_inplace":
            if cal.real_data.flags.writeable and cal.real_data.dtype.kind == "f":
                cal.real_data.reshape(-1)[v[0] % cal.real_data.size] = v[1]
        elif k == "loss_replace":
            cal.loss_function = make_loss({"loss": v})
        elif k == "sampler_batch_size":
            ss = cal.scheduler.samplers
            ss[v[0] % len(ss)].batch_size = v[1]
        elif k == "sampler_random_state":
            ss = cal.scheduler.samplers
            ss[v[0] % len(ss)].random_state = v[1]
        elif k == "loss_unpicklable":
            if v:
                cal.loss_function.hook = lambda: 0      # a local function: pickle.dump raises
            elif hasattr(cal.loss_function, "hook"):
                del cal.loss_function.hook


def run_scenario(sc):
    """Execute on the real code; returns the verification points with everything needed by oracle and Coq emission."""
    from black_it.calibrator import Calibrator
    from black_it.schedulers.round_robin import RoundRobinScheduler
    from black_it.utils import sqlite3_checkpointing as sq

    root = SCRATCH / f"{os.getpid()}" / f"s{sc['idx']}"
    shutil.rmtree(root, ignore_errors=True)
    root.mkdir(parents=True)
    # two folders (the second one for a reassigned saving_folder); key = resolved path, arg = what the calibrator is given
    keys = [str((root / "ckpt").resolve()), str((root / "ckpt2").resolve())]
    frepr = next((op[1].get("folder_repr") for op in sc["ops"] if op[0] == "new" and op[1].get("folder_repr")), None)
    fargs = list(keys)
    if frepr == "rel":
        fargs = ["ckpt", "ckpt2"]
    elif frepr == "slash":
        fargs = [k + "/" for k in keys]
    which = 0
    dbdir = root / "db"
    dbdir.mkdir()
    points, sql_hist = [], []
    cal, other, spec, err_log = None, None, None, []
    cwd = os.getcwd()
    if frepr == "rel":
        os.chdir(root)
    try:
      with Recorder() as rec:
        for op in sc["ops"]:
            err = None
            folder, farg = keys[which], fargs[which]
            try:
                if op[0] == "new":
                    release(cal)
                    spec = op[1]
                    cal = make_calibrator(spec, farg)
                elif op[0] == "new_reuse":
                    spec = op[1]
                    cal = make_calibrator(spec, farg, reuse=cal)
                elif op[0] == "calibrate":
                    quiet(cal.calibrate, op[1])
                elif op[0] == "checkpoint":
                    how = op[1] if len(op) > 1 else None
                    quiet(cal.create_checkpoint, Path(farg) if how == "pathlib" else (folder + "/" if how == "slash" else farg))
                elif op[0] == "restore":
                    MODEL_CFG.update(D=spec["D"])
                    cal = quiet(Calibrator.restore_from_checkpoint, farg, cal.model)
                elif op[0] == "fork":
                    other, cal = cal, quiet(Calibrator.restore_from_checkpoint, farg, cal.model)
                elif op[0] == "swap":
                    cal, other = other, cal
                elif op[0] == "use_folder":
                    which = op[1]
                    folder, farg = keys[which], fargs[which]
                    cal.saving_folder = farg
                elif op[0] == "setattr":
                    apply_setattr(cal, op[1])
                elif op[0] == "set_samplers":
                    new = make_samplers({"samplers": op[1]})
                    cal.set_samplers(new)
                elif op[0] == "set_scheduler":
                    cal.set_scheduler(RoundRobinScheduler(make_samplers({"samplers": op[1]})))
            except Exception as e:  # noqa: BLE001
                err = e
            err_log.append(None if err is None else f"{type(err).__name__}: {err}")
            if op[0].startswith("verify"):
                live = snapshot(cal)
                hist = rec.saves.get(folder, [])
                model = other_model if op[0] == "verify_wrong_model" and cal.model is not other_model else cal.model
                if op[0] == "verify_wrong_model" and model is cal.model:
                    model = stress_model
                rerr, restored = None, None
                try:
                    restored = snapshot(quiet(Calibrator.restore_from_checkpoint, farg, model))
                except Exception as e:  # noqa: BLE001
                    rerr = e
                prev_ok = [h for h in hist if h["mode"] != 0]
                pt = {"op": op[0], "live": live, "hist": [(h["snap"], h["mode"]) for h in hist], "restored": restored,
                      "rexn": exn_code(rerr), "rexc": None if rerr is None else f"{type(rerr).__name__}: {rerr}",
                      "model_name": model.__name__, "last_op_error": err_log[-2] if len(err_log) > 1 else None,
                      "last_saved": prev_ok[-1]["snap"] if prev_ok else None,
                      "h5calls": [h.get("h5calls") for h in hist]}
                # SQLite back-end on the same live state (the module is independent of the Calibrator)
                if sc.get("sql") and op[0] in ("verify", "verify_rl", "verify_np_scalar"):
                    saved = 1
                    try:
                        sq.save_calibrator_state(dbdir, cal.param_grid.parameters_bounds, cal.param_grid.parameters_precision,
                                                 cal.real_data, cal.ensemble_size, cal.N, cal.D, cal.convergence_precision,
                                                 cal.verbose, cal.saving_folder, cal.random_state,
                                                 cal.random_generator.bit_generator.state, cal.model.__name__, cal.scheduler,
                                                 cal.loss_function, cal.current_batch_index, cal.params_samp, cal.losses_samp,
                                                 cal.series_samp, cal.batch_num_samp, cal.method_samp)
                    except Exception as e:  # noqa: BLE001
                        saved = 0
                        pt["sql_save_exc"] = f"{type(e).__name__}: {e}"
                    sql_hist.append((live, saved))
                    pt["sql"] = sql_load(sq, dbdir, list(sql_hist))
                points.append(pt)
    finally:
        os.chdir(cwd)
    release(cal)
    release(other)
    shutil.rmtree(root, ignore_errors=True)
    return {"points": points, "errors": err_log}


def sql_load(sq, dbdir, hist):
    out = {"hist": hist, "loaded": None, "rexn": 0, "rexc": None}
    try:
        t = sq.load_calibrator_state(dbdir)
    except Exception as e:  # noqa: BLE001
        out["rexn"], out["rexc"] = exn_code(e), f"{type(e).__name__}: {e}"
        return out
    out["loaded"] = {
        "bounds": arr_view(t[0]), "precision": arr_view(t[1]), "real": arr_view(t[2]),
        "E": (type(t[3]).__name__, t[3]), "N": (type(t[4]).__name__, t[4]), "D": (type(t[5]).__name__, t[5]),
        "prec": (type(t[6]).__name__, t[6]), "verbose": (type(t[7]).__name__, t[7]), "saving": (type(t[8]).__name__, t[8]),
        "seed": (type(t[9]).__name__, t[9]), "gen": t[10], "model": t[11], "sched": obj_view(t[12]), "loss": obj_view(t[13]),
        "batch": (type(t[14]).__name__, t[14]), "params": arr_view(t[15]), "losses": arr_view(t[16]), "series": arr_view(t[17]),
        "bnums": arr_view(t[18]), "methods": arr_view(t[19])}
    return out


def release(cal):
    if cal is None:
        return
    sch = cal.scheduler
    th = getattr(sch, "_agent_thread", None)
    if th is not None and th.is_alive():
        sch._stopped = True  # noqa: SLF001
        sch._out_queue.put(None)  # noqa: SLF001
        th.join(timeout=5)


# ------------------------------------------------------------------------------------------------ Coq emission
class Toks:
    def __init__(self):
        self.strs, self.objs = {}, []

    def s(self, x):
        return self.strs.setdefault(x, len(self.strs) + 1)

    def o(self, view):
        for i, v in enumerate(self.objs):
            if obj_same(v, view):
                return i + 1
        self.objs.append(view)
        return len(self.objs)


def c_mat(rows):
    return clist([clist([cz(x) for x in r]) for r in rows])


def rows_of(av, width):
    ints = av["ints"] or []
    if width <= 0:
        return [[] for _ in range(av["shape"][0])] if av["shape"] else []
    return [ints[i:i + width] for i in range(0, len(ints), width)]


DT = {"<f8": "DF64", "<i8": "DI64"}


def c_state(sn, tk, loaded_sql=False):
    """Coq literal of a snapshot (tS ...)."""
    def val(x):
        return x[1]

    pshape = sn["params"]["shape"]
    pdims = pshape[1] if len(pshape) > 1 else 0
    sshape = sn["series"]["shape"]
    sh3 = tuple(sshape[1:4]) if len(sshape) == 4 else (0, 0, 0)
    width = int(np.prod(sshape[1:])) if len(sshape) > 1 else 1
    rshape = sn["real"]["shape"]
    prec = val(sn["prec"])
    gen = sn["gen"]
    genl = [int(gen["state"]["state"]), int(gen["state"]["inc"]), int(gen["has_uint32"]), int(gen["uinteger"])] \
        if isinstance(gen, dict) and "state" in gen else [-1]
    seed = val(sn["seed"])
    table = sn.get("table", [])
    dts = [DT.get(sn[k]["dtype"], "DObj") for k in ("params", "losses", "bnums", "methods")]
    fields = [
        c_mat(rows_of(sn["bounds"], sn["bounds"]["shape"][1] if len(sn["bounds"]["shape"]) > 1 else 1)),
        clist([cz(x) for x in sn["precision"]["ints"]]),
        c_mat(rows_of(sn["real"], rshape[1] if len(rshape) > 1 else 1)),
        cnat(val(sn["E"])), cnat(val(sn["N"])), cnat(val(sn["D"])),
        "None" if prec is None else f"(Some {cnat(int(prec))})", cbool(bool(val(sn["verbose"]))),
        copt(val(sn["saving"]), lambda x: cnat(tk.s(str(x)))), copt(seed, lambda x: cz(int(x))),
        clist([cz(x) for x in genl]), cnat(tk.s(sn["model"])),
        f"({cz(tk.o(sn['sched']))}, {cbool(sn['sched']['pickle'] is not None)})",
        f"({cz(tk.o(sn['loss']))}, {cbool(sn['loss']['pickle'] is not None)})",
        cnat(val(sn["batch"])), cnat(val(sn.get("nsampled", ("int", 0)))), cnat(val(sn.get("njobs", ("int", 0)))),
        cnat(pdims), c_mat(rows_of(sn["params"], pdims)), clist([cz(x) for x in (sn["losses"]["ints"] or [])]),
        f"({cnat(sh3[0])}, {cnat(sh3[1])}, {cnat(sh3[2])})", c_mat(rows_of(sn["series"], width)),
        clist([cz(x) for x in (sn["bnums"]["ints"] or [])]), clist([cz(x) for x in (sn["methods"]["ints"] or [])]),
        clist([f"({cnat(tk.s(k))}, {cnat(v)})" for k, v in table]),
        f"({dts[0]}, {dts[1]}, {dts[2]}, {dts[3]})",
    ]
    return "(tS " + " ".join(fields) + ")"


def emit_point(pt):
    tk = Toks()
    states = [c_state(s, tk) for s, _ in pt["hist"]]
    modes = clist([cnat(m) for _, m in pt["hist"]])
    name = cnat(tk.s(pt["model_name"]))
    rest = None if pt["restored"] is None else c_state(pt["restored"], tk)
    if rest is not None and states and rest == states[-1]:
        # the restored state is, literally, the last saved one: written once (a third of the text Coq has to parse)
        return f"(let r := {rest} in mkCC {clist(states[:-1] + ['r'])} {name} {modes} {cnat(pt['rexn'])} (Some r))"
    return f"(mkCC {clist(states)} {name} {modes} {cnat(pt['rexn'])} {'None' if rest is None else f'(Some {rest})'})"


def emit_sql(sqp):
    tk = Toks()
    states = [c_state(s, tk) for s, _ in sqp["hist"]]
    hist = clist(states)
    saved = clist([cnat(x) for _, x in sqp["hist"]])
    ld = sqp["loaded"]
    if ld is None:
        return f"(mkSQ {hist} {saved} {cnat(sqp['rexn'])} None true true)"
    okh = [s for s, x in sqp["hist"] if x]
    full = dict(okh[-1]) if okh else dict(sqp["hist"][-1][0])
    full.update({k: v for k, v in ld.items()})
    prec_t, verb_t = ld["prec"][0], ld["verbose"][0]
    if ld["prec"][1] is not None:
        full["prec"] = ("int", int(ld["prec"][1]))
    got = c_state(full, tk)
    flags = f"{cbool(prec_t in ('int', 'NoneType'))} {cbool(verb_t == 'bool')}"
    if states and got == states[-1]:
        return f"(let r := {got} in mkSQ {clist(states[:-1] + ['r'])} {saved} 0 (Some r) {flags})"
    return f"(mkSQ {hist} {saved} 0 (Some {got}) {flags})"


# ------------------------------------------------------------------------------------------------ oracles
def oracle_point(sc, pt):
    """The property on the observations: list of (descriptor, message)."""
    fails = []
    kind = sc["kind"].split(":")[0]
    if pt["op"] == "verify":
        if pt["last_op_error"] and "Can't broadcast" in pt["last_op_error"]:
            fails.append(({"kind": "stale_series", "history": kind, "effect": "calibrate raises"},
                          f"saving over a folder of another run raised {pt['last_op_error']}"))
            return fails
        if pt["last_op_error"]:
            # the operation before this point raised: same requirement as after an injected exception
            pt = dict(pt, op="verify_after_exception")
            return oracle_point(sc, pt)
        if pt["rexn"] != 0:
            d = {"kind": "restore_raises", "history": kind, "exception": (pt["rexc"] or "").split(":")[0]}
            if kind == "calibrate_zero" and not pt["hist"]:
                d = {"kind": "calibrate_zero_no_checkpoint"}
            fails.append((d, f"restore raised {pt['rexc']}"))
            return fails
        diff = snap_diff(pt["live"], pt["restored"])
        if diff:
            saved_ok = pt["last_saved"] is not None and not snap_diff(pt["live"], pt["last_saved"])
            if not saved_ok and kind == "calibrate_zero":
                fails.append(({"kind": "calibrate_zero_no_checkpoint"},
                              f"calibrate(0) returned with a state that was never written: differs in {diff}"))
            elif diff == ["series"] and len(pt["hist"]) >= 2:
                fails.append(({"kind": "stale_series", "history": kind, "effect": "restored series differ"},
                              f"restored series shape {pt['restored']['series']['shape']} vs saved {pt['live']['series']['shape']}"))
            elif widened_only(pt["live"], pt["restored"], diff):
                # finding input-dtype-widened: the JSON text keeps the VALUES of a float32 / float16 / int32 / uint8 array
                # (exactly) but not its dtype: the restored array is float64 / int64
                for k in diff:
                    if k == "grid":
                        fails.append(({"kind": "input_dtype_widened", "component": "grid"},
                                      "the search grid built from the restored (float64) bounds differs from the one built from the float32 bounds"))
                        continue
                    fails.append(({"kind": "input_dtype_widened", "component": k, "saved_dtype": pt["live"][k]["dtype"],
                                   "restored_dtype": pt["restored"][k]["dtype"]},
                                  f"{k}: saved dtype {pt['live'][k]['dtype']}, restored {pt['restored'][k]['dtype']} (values equal)"))
            elif pt["live"]["params"]["shape"][0] == 0 and set(diff) <= {"params", "losses", "bnums", "methods"}:
                fails.append(({"kind": "empty_table_dtype"},
                              "restored dtypes " + str({k: pt['restored'][k]['dtype'] for k in diff})))
            else:
                fails.append(({"kind": "restore_differs", "history": kind, "components": sorted(diff)},
                              f"restored calibrator differs from the saved one in {diff}"))
    elif pt["op"] == "verify_after_exception":
        # calibrate() did not return: the folder must hold a state the calibrator passed through (the last checkpoint)
        if pt["last_saved"] is None:
            if pt["rexn"] == 0:
                fails.append(({"kind": "restore_differs", "history": kind, "components": ["phantom"]}, "restorable folder without a save"))
        elif pt["rexn"] != 0:
            fails.append(({"kind": "restore_raises", "history": kind, "exception": (pt["rexc"] or "").split(":")[0]}, pt["rexc"]))
        else:
            diff = snap_diff(pt["last_saved"], pt["restored"])
            if diff:
                fails.append(({"kind": "restore_differs", "history": kind, "components": sorted(diff)},
                              f"after an exception the folder differs from the last checkpoint in {diff}"))
    elif pt["op"] == "verify_np_scalar":
        # a numpy scalar (np.int64 / np.bool_) or a pathlib.Path where the signature says int / bool / str
        f = sc.get("scalar_field")
        tc = "pathlib" if f == "saving_folder" else "numpy_scalar"
        if pt["last_op_error"] and "JSON serializable" in pt["last_op_error"]:
            fails.append(({"kind": "config_scalar_unserialisable", "type_class": tc, "field": f, "backend": "json"},
                          f"calibrate() with a saving folder raised {pt['last_op_error']}; restore: {pt['rexc'] or 'ok'}"))
        elif pt["last_op_error"] or pt["rexn"] != 0:
            fails.append(({"kind": "restore_raises", "history": kind, "exception": (pt["rexc"] or pt["last_op_error"] or "").split(":")[0]},
                          f"calibrate: {pt['last_op_error']}; restore: {pt['rexc']}"))
        else:   # after a repair: the value must come back (as the same number / path; the scalar type may be the built-in one)
            diff = [k for k in snap_diff(pt["live"], pt["restored"]) if not (
                k == "E_type" or (k in SCALAR_KEYS and str(pt["live"][k][1]) == str(pt["restored"][k][1])))]
            if diff:
                fails.append(({"kind": "restore_differs", "history": kind, "components": sorted(diff)},
                              f"restored calibrator differs from the saved one in {diff}"))
    elif pt["op"] == "verify_wrong_model":
        if pt["rexn"] != 8:
            fails.append(({"kind": "wrong_model_accepted"}, f"restore with another model: {pt['rexc'] or 'accepted'}"))
    elif pt["op"] == "verify_rl":
        # finding (b): the property asks for every scheduler kind
        if pt["rexn"] != 0 or snap_diff(pt["live"], pt["restored"]):
            fails.append(({"kind": "rl_scheduler_unpicklable"},
                          f"checkpoint with an RL scheduler: {pt['last_op_error']}; restore: {pt['rexc']}"))
    return fails


SCALAR_KEYS = ("E", "N", "D", "prec", "verbose", "saving", "seed", "njobs")
NARROW = ("<f4", "<f2", "<i4", "<i2", "|i1", "|u1", "<u2", "<u4")


def widened_only(live, restored, diff):
    """True iff the only differences are arrays given with a narrow dtype that came back, value for value, as float64/int64."""
    if not diff or not set(diff) <= {"real", "bounds", "precision", "grid"} or (
            "grid" in diff and "bounds" not in diff and "precision" not in diff):
        return False
    for k in diff:
        if k == "grid":     # consequence of float32 bounds: `hi + 1e-7` and the step are evaluated in another precision
            continue
        a, b = live[k], restored[k]
        if not (a["dtype"] in NARROW and b["dtype"] in ("<f8", "<i8") and a["shape"] == b["shape"] and a["ints"] == b["ints"]
                and (a["dtype"][1] == "f") == (b["dtype"] == "<f8")):
            return False
    return True


def oracle_sql_np_scalar(sc, pt):
    """SQLite back-end on a calibrator configured with a numpy scalar / a Path (same finding as for the JSON back-end)."""
    f = sc.get("scalar_field")
    tc = "pathlib" if f == "saving_folder" else "numpy_scalar"
    key = {"ensemble_size": "E", "random_state": "seed", "convergence_precision": "prec", "verbose": "verbose", "sim_length": "N",
           "saving_folder": "saving"}[f]
    sqp = pt["sql"]
    d = {"kind": "config_scalar_unserialisable", "type_class": tc, "field": f, "backend": "sqlite"}
    if pt.get("sql_save_exc"):
        return [(d, f"sqlite save raised {pt['sql_save_exc']}")]
    out = []
    for dd, msg in oracle_sql(sqp):
        if dd.get("field") == key and sqp["loaded"] is not None:
            got = sqp["loaded"][key][1]
            if str(got) == str(sqp["hist"][-1][0][key][1]):
                continue            # same value, built-in type: acceptable
            out.append((d, f"sqlite: {f} saved {sqp['hist'][-1][0][key]!r} loaded {got!r}"))
        else:
            out.append((dd, msg))
    return out


def oracle_sql(sqp):
    fails = []
    hist = sqp["hist"]
    okh = [s for s, x in hist if x]
    if hist and not hist[-1][1]:
        # the last save raised (RL scheduler): reported by the folder oracle as the RL finding; the database must be intact
        pass
    if not okh:
        return fails
    want, ld = okh[-1], sqp["loaded"]
    if ld is None:
        return [({"kind": "sqlite_load_raises"}, sqp["rexc"])]
    for k in ld:
        x, y = want[k], ld[k]
        if k in ("sched", "loss"):
            same = obj_same(x, y)
        elif isinstance(x, dict) and "dtype" in x:
            same = arr_same(x, y)
        elif isinstance(x, tuple):
            if x != y and x[1] == y[1]:
                fails.append(({"kind": "sqlite_scalar_type", "field": k}, f"{k}: saved {x} loaded {y}"))
                continue
            same = x == y
        else:
            same = x == y
        if not same:
            fails.append(({"kind": "sqlite_differs", "field": k}, f"{k} differs"))
    return fails


# ------------------------------------------------------------------------------------------------ float stress
def float_stress(chk, n):
    """n floats through the real CSV text path (both column kinds), the JSON path and the np.save path."""
    from black_it.utils import json_pandas_checkpointing as jp
    from black_it.utils import sqlite3_checkpointing as sq

    rng = chk.rng
    vals = np.array(SPECIAL + [rand_float(rng) for _ in range(max(0, n - len(SPECIAL)))], dtype=np.float64)
    # NaNs with a payload / sign: the text formats have ONE NaN; compared as a class (see design.d/C04.md)
    bits = vals.view(np.uint64)
    noncanon = int(np.sum(np.isnan(vals) & (bits != NAN_BITS)))
    nrows = len(vals) // 3
    losses, params = vals[:nrows].copy(), vals[nrows:3 * nrows].reshape(nrows, 2).copy()
    extra = vals[3 * nrows:][:2000]
    finite = vals[np.isfinite(vals)]
    root = SCRATCH / f"{os.getpid()}" / "stress"
    shutil.rmtree(root, ignore_errors=True)
    root.mkdir(parents=True)
    gs = np.random.default_rng(1).bit_generator.state
    dims = params.shape[1]
    bounds = np.vstack([finite[:dims], finite[dims:2 * dims]])
    prec = np.abs(finite[2 * dims:3 * dims]) + 1e-300
    real = np.concatenate([extra, finite[: max(2, 3000 - len(extra))]]).reshape(-1, 1)
    series = np.concatenate([losses, params.ravel()])[: nrows * 2].reshape(nrows, 1, 2, 1)
    t0 = time.time()
    res0 = {"floats": 0, "rows": int(nrows), "noncanonical_nans": noncanon, "seconds": 0, "bad": []}
    try:
        jp.save_calibrator_state(root / "j", bounds, prec, real, 1, 2, 1, 3, False, None, 7, gs, "m", ["s"], "l", 4, nrows, 1,
                                 params, losses, series, np.arange(nrows), np.arange(nrows) % 3)
        out = jp.load_calibrator_state(root / "j", 1)
    except Exception as e:  # noqa: BLE001
        res0["bad"].append({"path": "csv+json+h5 back-end", "what": f"{type(e).__name__}: {e}"})
        shutil.rmtree(root, ignore_errors=True)
        return res0
    try:
        sq.save_calibrator_state(root / "q", bounds, prec, real, 1, 2, 1, 3, False, None, 7, gs, "m", ["s"], "l", 4,
                                 params, losses, series, np.arange(nrows), np.arange(nrows) % 3)
        outq = sq.load_calibrator_state(root / "q")
    except Exception as e:  # noqa: BLE001
        res0["bad"].append({"path": "npsave sqlite back-end", "what": f"{type(e).__name__}: {e}"})
        shutil.rmtree(root, ignore_errors=True)
        return res0
    dt = time.time() - t0

    def canon_bits(a):
        a = np.ascontiguousarray(np.asarray(a, dtype=np.float64))
        b = a.view(np.uint64).copy()
        b[np.isnan(a)] = NAN_BITS
        return b

    res = {"floats": int(nrows * (1 + dims) + real.size + bounds.size + prec.size + series.size), "rows": int(nrows),
           "noncanonical_nans": noncanon,
           "seconds": round(dt, 2), "bad": []}
    checks = [("csv:losses_samp(list column)", losses, out[18]), ("csv:params_samp(array columns)", params, out[17]),
              ("h5:series_samp", series, out[19]), ("json:real_data", real, out[2]), ("json:parameters_bounds", bounds, np.asarray(out[0])),
              ("json:parameters_precision", prec, np.asarray(out[1])),
              ("npsave:params_samp", params, outq[15]), ("npsave:losses_samp", losses, outq[16]), ("npsave.gz:series_samp", series, outq[17]),
              ("npsave:real_data", real, outq[2])]
    payload_kept = 0
    for name, a, b in checks:
        b = np.asarray(b)
        if b.shape != a.shape or b.dtype != a.dtype:
            res["bad"].append({"path": name, "what": f"shape/dtype {a.shape}/{a.dtype} -> {b.shape}/{b.dtype}"})
            continue
        ca, cb = canon_bits(a), canon_bits(b)
        idx = np.flatnonzero(ca.ravel() != cb.ravel())
        if len(idx):
            i = int(idx[0])
            res["bad"].append({"path": name, "count": int(len(idx)), "first": float(a.ravel()[i]).hex(),
                               "came_back": float(np.asarray(b, dtype=np.float64).ravel()[i]).hex()})
        if name.startswith(("npsave", "h5")):
            payload_kept += int(np.array_equal(np.ascontiguousarray(a).view(np.uint64), np.ascontiguousarray(b).view(np.uint64)))
    res["binary_paths_bit_identical_incl_nan_payload"] = payload_kept
    # round 4: columns whose text looks like another type - integer-valued floats (also beyond 2^53), all-NaN (empty fields), all-inf,
    # all -0.0, far-from-origin values, one single row; losses that are all integer-valued
    m = 40
    cols = [np.array([float(rng.randint(-10**6, 10**6)) for _ in range(m)]), np.full(m, np.nan), np.full(m, -0.0),
            np.array([[np.inf, -np.inf][i % 2] for i in range(m)]), np.array([1e22 + 4194304.0 * i for i in range(m)]),
            np.array([1e8 + rng.randint(-999, 999) / 1000.0 for _ in range(m)]), np.array([2.0**53 + 2 * i for i in range(m)]),
            np.full(m, np.inf), np.zeros(m), np.array([float(2**63 - 1024 * i) for i in range(m)])]
    cols += [np.full(m, 1e5 + 0.1)] * 2          # 12 parameter columns: params_samp_10 / _11 sort before params_samp_2
    for rows in (m, 1):
        pm = np.column_stack(cols)[:rows].copy()
        ls = np.array([float(rng.randint(0, 9)) for _ in range(rows)])
        sr = np.zeros((rows, 1, 1, 1))
        try:
            jp.save_calibrator_state(root / "j2", np.vstack([np.zeros(12), np.ones(12)]), np.full(12, 0.5), real[:3], 1, 3, 1, None, False,
                                     None, 7, gs, "m", ["s"], "l", 1, rows, 1, pm, ls, sr, np.zeros(rows, dtype=int), np.zeros(rows, dtype=int))
            o2 = jp.load_calibrator_state(root / "j2", 1)
            for name, a, b in (("csv:params_samp(homogeneous columns)", pm, o2[17]), ("csv:losses_samp(integer-valued)", ls, o2[18])):
                b = np.asarray(b)
                if b.shape != a.shape or b.dtype != a.dtype:
                    res["bad"].append({"path": name, "what": f"shape/dtype {a.shape}/{a.dtype} -> {b.shape}/{b.dtype}"})
                elif canon_bits(a).tobytes() != canon_bits(b).tobytes():
                    i = int(np.flatnonzero(canon_bits(a).ravel() != canon_bits(b).ravel())[0])
                    res["bad"].append({"path": name, "rows": rows, "column": i % a.shape[-1] if a.ndim > 1 else 0,
                                       "first": float(a.ravel()[i]).hex(), "came_back": float(b.ravel()[i]).hex()})
        except Exception as e:  # noqa: BLE001
            res["bad"].append({"path": "csv:homogeneous columns", "what": f"{type(e).__name__}: {e}"})
        shutil.rmtree(root / "j2", ignore_errors=True)
        res["floats"] += int(pm.size + ls.size)
    canon_nan_rows = np.flatnonzero(np.isnan(losses) & (losses.view(np.uint64) == NAN_BITS))
    if len(canon_nan_rows) and not np.all(np.asarray(out[18]).view(np.uint64)[canon_nan_rows] == NAN_BITS):
        res["bad"].append({"path": "csv:losses_samp", "what": "canonical nan not bit-identical"})
    shutil.rmtree(root, ignore_errors=True)
    return res


# ------------------------------------------------------------------------------------------------ token traces
def gen_traces(chk, n):
    rng = chk.rng
    cases = []
    for i in range(n):
        c = cc.gen_case(rng, len(cases), max_ops=6, max_samplers=3, bs_max=3, saving=True, prec_prob=2 if i % 3 == 0 else 1000,
                        fault=(i % 5 == 4), nmax=3, allow=("calibrate", "checkpoint", "restore", "set_samplers"))
        if i % 2 == 0:  # make sure calibrate(0) is exercised, on a fresh calibrator and later
            c["ops"].insert(rng.below(len(c["ops"]) + 1), ["calibrate", 0])
        cases.append(c)
    return cases


VIEW_KEYS = ("nsampled", "batchidx", "params", "losses", "series", "bnums", "methods", "counter", "samplers", "nextdraw")


def oracle_trace(case, obs):
    fails = []
    if obs["ctor_exn"]:
        return fails
    for k, (op, v) in enumerate(zip(case["ops"], obs["views"])):
        if op[0] == "calibrate" and v["exn"] == 0:
            d = v["disk"]
            if d is None or "error" in (d or {}):
                fails.append(({"kind": "calibrate_zero_no_checkpoint"} if op[1] == 0 else
                              {"kind": "restore_raises", "history": "trace", "exception": str(d)[:40]},
                              f"op {k} calibrate({op[1]}) returned; folder: {d}"))
                continue
            bad = [key for key in VIEW_KEYS if d[key] != v[key]]
            if bad:
                fails.append(({"kind": "calibrate_zero_no_checkpoint"} if op[1] == 0 and bad != ["series"] else
                              {"kind": "restore_differs", "history": "trace", "components": bad},
                              f"op {k} calibrate({op[1]}) returned; folder differs from the returned state in {bad}"))
    return fails


# ------------------------------------------------------------------------------------------------ main
def prefix_probe(chk, stats):
    """The series file may be extended in place only if ALL rows on disk are the first rows being saved: folders holding a
    run that agrees with the new one on some rows (the last, the first, all but one) and differs on another."""
    from black_it.loss_functions.minkowski import MinkowskiLoss
    from black_it.samplers.random_uniform import RandomUniformSampler
    from black_it.schedulers.round_robin import RoundRobinScheduler
    from black_it.utils.json_pandas_checkpointing import load_calibrator_state, save_calibrator_state

    g = np.random.default_rng(int(chk.rng.below(2**31)))     # data only
    root = SCRATCH / f"{os.getpid()}" / "c04_prefix"
    n = 0
    sched, loss = RoundRobinScheduler([RandomUniformSampler(batch_size=2)]), MinkowskiLoss()
    gstate = np.random.default_rng(0).bit_generator.state

    def save(folder, series):
        k = len(series)
        quiet(save_calibrator_state, folder, np.array([[0.0], [1.0]]), np.array([0.01]), np.zeros((3, 1)), series.shape[1], 3, 1, None, False,
              None, 0, gstate, "m", sched, loss, 1, k, 1, g.random((k, 1)), g.random(k), series, np.zeros(k, dtype=int), np.zeros(k, dtype=int))

    for r in (1, 2, 3, 5):
        for extra in (0, 1, 3):
            for differ in sorted({0, r // 2, r - 1}):
                if r == 1 and extra == 0:
                    continue
                if root.exists():
                    shutil.rmtree(root)
                old = g.random((r, 2, 3, 1))
                new = np.concatenate([old.copy(), g.random((extra, 2, 3, 1))])
                new[differ] += 1.0                      # one row of the new run differs from the row on disk
                save(root, old)
                save(root, new)
                n += 1
                stats["prefix-probe"] += 1
                try:
                    got = load_calibrator_state(root, 1)[19]
                except Exception as e:  # noqa: BLE001
                    got = None
                    err = f"{type(e).__name__}: {e}"
                if got is None or got.tobytes() != new.tobytes() or got.shape != new.shape:
                    chk.violation({"kind": "stale_series", "variant": "agrees-on-some-rows"},
                                  {"failed": "oracle:series", "detail": f"folder held {r} rows of another run equal to the new run's except row "
                                   f"{differ}; after saving {len(new)} rows the restored series " +
                                   ("raised " + err if got is None else "are not the saved ones"),
                                   "case": {"prefix_probe": {"r": r, "extra": extra, "differ": differ}}})
    # round 4: rows on disk that are *almost* the rows being saved - equal as numbers (0.0 / -0.0), one ulp apart, closer than any
    # isclose tolerance, NaN against a number; a value comparison or a tolerance would keep the stale row
    def canon_bytes(a):
        b = np.ascontiguousarray(a, dtype=np.float64).view(np.uint64).copy()
        b[np.isnan(np.ascontiguousarray(a, dtype=np.float64))] = NAN_BITS
        return b.tobytes()

    for how in ("negzero", "poszero", "ulp", "tiny", "subnormal", "nan_vs_number", "number_vs_nan", "far_ulp"):
        for r, extra in ((1, 1), (2, 0), (3, 2)):
            differ = int(g.integers(r))
            if root.exists():
                shutil.rmtree(root)
            old = g.random((r, 2, 3, 1)) + (1e7 if how == "far_ulp" else 0.0)
            new = np.concatenate([old.copy(), g.random((extra, 2, 3, 1))])
            pos = (differ, int(g.integers(2)), int(g.integers(3)), 0)
            if how == "negzero":
                old[pos], new[pos] = 0.0, -0.0
            elif how == "poszero":
                old[pos], new[pos] = -0.0, 0.0
            elif how in ("ulp", "far_ulp"):
                new[pos] = np.nextafter(old[pos], np.inf)
            elif how == "tiny":
                old[pos], new[pos] = 0.0, 1e-300
            elif how == "subnormal":
                old[pos], new[pos] = 0.0, 5e-324
            elif how == "nan_vs_number":
                old[pos] = np.nan
            else:
                new[pos] = np.nan
            n += 1
            stats["prefix-probe-almost-equal"] += 1
            got, err = None, None
            try:
                save(root, old)
                save(root, new)
                got = load_calibrator_state(root, 1)[19]
            except Exception as e:  # noqa: BLE001
                err = f"{type(e).__name__}: {e}"
            if got is None or got.shape != new.shape or canon_bytes(got) != canon_bytes(new):
                chk.violation({"kind": "stale_series", "variant": "almost-equal-row"},
                              {"failed": "oracle:series", "detail": f"folder held {r} rows equal to the first rows being saved except one entry "
                               f"({how}: on disk {old[pos]!r}, saved {new[pos]!r}); after saving {len(new)} rows the restored series " +
                               (f"raised {err}" if got is None else f"hold {got[pos]!r} there"),
                               "case": {"prefix_probe": {"how": how, "r": r, "extra": extra}}})
    # an EMPTY checkpoint of another run (calibrate(0) / create_checkpoint before any batch) with another series layout:
    # zero rows are a prefix of anything only if the row layout is the same
    for old_shape in ((0, 2, 3, 1), (0, 1, 3, 1), (0, 3, 3, 1), (0, 2, 1, 1), (0, 2, 3, 2)):
        for k in (1, 2):
            if root.exists():
                shutil.rmtree(root)
            new = g.random((k, 2, 3, 1)) if old_shape[1] != 2 or old_shape[2:] != (3, 1) else g.random((k, 1, 3, 1))
            old = np.zeros(old_shape)
            n += 1
            stats["prefix-probe-empty"] += 1
            got, err = None, None
            try:
                save(root, old)
                save(root, new)
                got = load_calibrator_state(root, 1)[19]
            except Exception as e:  # noqa: BLE001
                err = f"{type(e).__name__}: {e}"
            if got is None or got.shape != new.shape or got.tobytes() != new.tobytes():
                chk.violation({"kind": "stale_series", "variant": "empty-other-layout"},
                              {"failed": "oracle:series", "detail": f"folder held an empty checkpoint with series layout {old_shape[1:]}; after saving "
                               f"{new.shape} the restored series " + (f"raised {err}" if got is None else f"have shape {got.shape}"),
                               "case": {"prefix_probe": {"old_shape": list(old_shape), "new_shape": list(new.shape)}}})
    shutil.rmtree(root, ignore_errors=True)
    return n


def balanced_order(lits, shard):
    """A permutation of range(len(lits)) such that consecutive groups of `shard` items have about the same total length."""
    n = len(lits)
    if n <= shard:
        return list(range(n))
    ng = -(-n // shard)
    room = [shard] * (ng - 1) + [n - shard * (ng - 1)]
    groups, load = [[] for _ in range(ng)], [0] * ng
    for i in sorted(range(n), key=lambda i: -len(lits[i])):
        j = min((g for g in range(ng) if len(groups[g]) < room[g]), key=lambda g: load[g])
        groups[j].append(i)
        load[j] += len(lits[i])
    return [i for g in groups for i in sorted(g)]


def shard_for(lits, cap_kb=110, most=20):
    """Cases per generated Coq file such that a file stays near cap_kb (coqc needs about 1.2 GB per MB of literals)."""
    if not lits:
        return most
    groups = max(-(-len(lits) // most), -(-sum(map(len, lits)) // (cap_kb * 1024)))
    return max(1, -(-len(lits) // groups))


def coq_eval_cases(chk, name, fn, ty, lits, imports=IMPORTS):
    """chk.coq_mismatches on size-balanced files; a coqc that was KILLED (rc -9 / 137: the OOM killer of a loaded machine) is
    re-run alone, twice at most - a second kill stays an error (fail closed).  Returns (perm, bad, errors): `lits[perm[i]]` is
    case i of the evaluation order, `bad` are indices into that order."""
    shard = shard_for(lits)
    perm = balanced_order(lits, shard)
    ordered = [lits[i] for i in perm]
    bad, errors = [], []
    todo = [(0, ordered, shard, name)] if ordered else []
    for attempt in (0, 1, 2):
        again = []
        for off, sub, sh, nm in todo:
            b2, e2 = chk.coq_mismatches(nm, imports, fn, ty, sub, shard=sh)
            bad += [off + i for i in b2]
            for e in e2:
                if ("rc=-9" in e or "rc=137" in e) and attempt < 2:
                    j = int(e.split(".v")[0].rsplit("_", 1)[1])
                    part = sub[j * sh:(j + 1) * sh]
                    again.append((off + j * sh, part, max(1, -(-len(part) // 2)), f"{nm}k{j}"))
                else:
                    errors.append(e)
        todo = again
        if not todo:
            break
        time.sleep(5 * (attempt + 1))
    return perm, sorted(bad), errors


def plan(chk):
    rng = chk.rng
    quick = chk.tier == "quick"
    kinds = []
    mult = 1 if quick else 8
    for k, n in (("fresh_explicit", 4), ("fresh_auto", 4), ("same_run", 10), ("other_more", 8), ("other_fewer", 8), ("other_E", 8),
                 ("other_shape", 5), ("other_dims", 3), ("empty_table", 4), ("calibrate_zero", 5), ("early_stop", 6), ("exception", 6),
                 ("set_samplers", 5), ("wrong_model", 2), ("rl", 4),
                 # round 4 (generator sweep): representation, reuse, reassignment, thresholds, configuration, sequences
                 ("repr_inputs", 7), ("reassign", 6), ("two_folders", 3), ("interleave", 4), ("reuse", 3), ("long", 2), ("config", 6),
                 ("sequences", 6), ("dtype_inputs", 5), ("np_scalar", 6)):
        kinds += [k] * (n * (mult if k != "long" else (1 if quick else 3)))
    real = ["real:RandomUniform,Halton,RSequence,BestBatch", "real:Halton,ParticleSwarm,CORS", "real:RandomUniform,GaussianProcess,RandomForest",
            "real:Halton,BestBatch,GaussianProcess", "real:RSequence,RandomForest,ParticleSwarm", "real:Halton,XGBoost",
            "real:RandomUniform,CORS,BestBatch", "real:Halton,RandomForest,CORS,ParticleSwarm,GaussianProcess"]
    if not quick:
        real = real * 3 + ["real:RandomUniform,Halton,RSequence,BestBatch,GaussianProcess,RandomForest,XGBoost,ParticleSwarm,CORS"] * 2
    kinds += real
    scs = []
    for i, k in enumerate(kinds):
        sc = gen_scenario(rng, k, i, quick)
        sc["sql"] = ((i % 2 == 0) or k in ("rl", "np_scalar", "dtype_inputs")) and not (k == "long" and quick)
        scs.append(sc)
    return scs


def run(chk, replay=None):
    chk.proof_gate()
    t0 = time.time()
    stats = Counter()
    n_probe = prefix_probe(chk, stats) if not replay else 0
    quick = chk.tier == "quick"
    phase = {"prefix_probe": round(time.time() - t0, 1)}
    if replay:
        obj = json.loads(open(replay).read())
        scenarios = [obj["case"]] if obj.get("case", {}).get("ops") and "kind" in obj["case"] else []
        traces = [obj["case"]] if not scenarios and "cfg" in obj.get("case", {}) else []
        nstress = 0 if (scenarios or traces) else 2000
    else:
        scenarios = plan(chk)
        traces = gen_traces(chk, 70 if quick else 700)
        nstress = 20000 if quick else 2_000_000

    # ---- folder histories on the real code
    lits, meta, sql_lits, sql_meta = [], [], [], []
    oracle_fail_idx = set()
    for sc in scenarios:
        try:
            res = run_scenario(sc)
        except Exception as e:  # noqa: BLE001 - the driver itself could not run the scenario on this tree
            chk.violation({"kind": "scenario_crashed", "history": sc["kind"].split(":")[0], "exception": type(e).__name__},
                          {"failed": f"oracle:scenario could not be executed: {type(e).__name__}: {e}", "case": sc})
            continue
        stats[f"scenario:{sc['kind'].split(':')[0]}"] += 1
        for j, pt in enumerate(res["points"]):
            stats[f"point:{pt['op']}"] += 1
            stats[f"history_len={min(len(pt['hist']), 6)}{'+' if len(pt['hist']) > 6 else ''}"] += 1
            for _, m in pt["hist"]:
                stats[f"save_mode={['raised', 'created', 'appended', 'other'][m]}"] += 1
            fails = oracle_point(sc, pt)
            for d, msg in fails:
                chk.violation(d, {"failed": "oracle:" + msg, "case": sc, "point": j, "observed": {
                    "restore": pt["rexc"], "last_op_error": pt["last_op_error"], "h5calls": pt["h5calls"],
                    "diff": None if pt["restored"] is None else snap_diff(pt["live"], pt["restored"])}})
            try:
                lits.append(emit_point(pt))
                meta.append((sc, j, bool(fails), pt))
            except Exception as e:  # noqa: BLE001 - an observation the literal format cannot express is itself a disagreement
                if not fails:
                    chk.violation({"kind": "correspondence", "name": "emit"},
                                  {"failed": f"correspondence:emit {type(e).__name__}: {e}", "case": sc, "point": j}, no_input=True)
            if pt.get("sql"):
                sfails = oracle_sql_np_scalar(sc, pt) if sc["kind"] == "np_scalar" else oracle_sql(pt["sql"])
                for d, msg in sfails:
                    chk.violation(d, {"failed": "oracle:sqlite " + msg, "case": sc, "point": j})
                try:
                    sql_lits.append(emit_sql(pt["sql"]))
                    sql_meta.append((sc, j, bool(sfails)))
                except Exception as e:  # noqa: BLE001 - an observation the literal format cannot express
                    if not sfails:
                        chk.violation({"kind": "correspondence", "name": "emit_sql"},
                                      {"failed": f"correspondence:emit_sql {type(e).__name__}: {e}", "case": sc, "point": j}, no_input=True)
                stats["sqlite_points"] += 1
    phase["scenarios_on_real_code"] = round(time.time() - t0, 1)
    # the literals differ in size by three orders of magnitude (histories of 800 rows): order them so that the files compiled in
    # parallel have about the same size (the order of `meta` follows)
    perm, bad, errors = coq_eval_cases(chk, "C04", "check_case", "ccase", lits)
    lits, meta = [lits[i] for i in perm], [meta[i] for i in perm]
    phase["coq_folder"] = round(time.time() - t0, 1)
    for i in bad:
        sc, j, failed, pt = meta[i]
        if failed:
            continue  # the oracle already reported the failing input; the model (repaired logic) disagrees as expected
        expl, _ = chk.coq_eval("explain", IMPORTS, [f"explain {lits[i]}"])
        chk.violation({"kind": "correspondence", "name": "check_case"},
                      {"failed": "correspondence:Checkpoint.check_case (model and implementation disagree; the property oracle found "
                                 "no failing input)", "case": sc, "point": j, "model_explain(modes, restore code, differing components)": expl,
                       "observed_modes": [m for _, m in pt["hist"]], "observed_restore": pt["rexc"], "components": COMPONENTS},
                      no_input=True)
    perm, sbad, serrors = coq_eval_cases(chk, "C04sql", "check_sql", "sqcase", sql_lits)
    sql_lits, sql_meta = [sql_lits[i] for i in perm], [sql_meta[i] for i in perm]
    for i in sbad:
        sc, j, failed = sql_meta[i]
        if not failed:
            chk.violation({"kind": "correspondence", "name": "check_sql"},
                          {"failed": "correspondence:Checkpoint.check_sql", "case": sc, "point": j}, no_input=True)

    phase["coq_sqlite"] = round(time.time() - t0, 1)
    # ---- float stress
    stress = None
    if nstress:
        stress = float_stress(chk, nstress)
        for b in stress["bad"]:
            chk.violation({"kind": "float_path_not_exact", "path": b["path"].split(":")[0]},
                          {"failed": "oracle:float stress " + json.dumps(b), "case": {"stress": nstress, "seed": chk.seed}})

    phase["float_stress"] = round(time.time() - t0, 1)
    # ---- token traces of the shared model with a saving folder (calibrate clause)
    tbad, terrors = [], []
    if traces:
        tobs = [cc.run_case(c) for c in traces]
        tlits = [cc.emit_case(c, o) for c, o in zip(traces, tobs)]
        tbad, terrors = chk.coq_mismatches("C04trace", cc.IMPORTS, "check_case", cc.CASE_T, tlits, shard=30)
        for i, (c, o) in enumerate(zip(traces, tobs)):
            fails = oracle_trace(c, o)
            for d, msg in fails:
                chk.violation(d, {"failed": "oracle:" + msg, "case": c})
            stats["trace:calibrate0"] += sum(1 for op in c["ops"] if op[0] == "calibrate" and op[1] == 0)
            if i in tbad and not fails:
                chk.violation({"kind": "correspondence", "name": "trace"},
                              {"failed": "correspondence:CalibTokens.check_case (saving-folder traces)", "case": c}, no_input=True)
    for e in errors + serrors + terrors:
        chk.violation({"kind": "correspondence", "name": "coqc"}, {"failed": "correspondence:coqc", "detail": e}, no_input=True)

    nontrivial = sum(1 for sc, j, f, pt in meta if len(pt["hist"]) >= 2)
    samples = []
    for sc, j, f, pt in meta[:: max(1, len(meta) // 3)][:3]:
        samples.append({"scenario": sc["kind"], "ops": [o[0] if o[0] != "calibrate" else f"calibrate({o[1]})" for o in sc["ops"]],
                        "point": j, "save_modes": [m for _, m in pt["hist"]], "restore": pt["rexc"] or "ok",
                        "series_shape": pt["live"]["series"]["shape"]})
    cov = {
        "evaluations": len(lits) + len(sql_lits) + len(traces),
        "distinct_nontrivial": nontrivial,
        "rule": "verification points (restore + full component-wise comparison) of scenario runs on the real Calibrator: scripted "
                "samplers/loss/model with floats from all binades, real line-ups covering the nine built-in samplers, RL scheduler; "
                "folder histories: fresh, same run, other run with more/fewer rows, other ensemble size, other series shape, other "
                "dimension, empty table, calibrate(0), early stop, exception, set_samplers; round 4: other input representations, "
                "reassigned attributes, two folders, interleaved original and restored copy, reused sampler / loss objects, 500-850-row "
                "histories, precision 0 / >8, n_jobs != 1, relative / slash / PathLike folders, failing operations followed by normal ones; "
                "non-trivial = the folder had been written at least twice before the restore",
        "samples": samples,
        "traces_validated_against_impl": len(lits) - len(bad) + len(sql_lits) - len(sbad) + len(traces) - len(tbad),
        "model_impl_disagreements": {"folder": len(bad), "sqlite": len(sbad), "trace": len(tbad)},
        "folder_points": len(lits), "sqlite_points": len(sql_lits), "trace_cases": len(traces),
        "coq_literal_kb": {"folder": sum(map(len, lits)) // 1024, "sqlite": sum(map(len, sql_lits)) // 1024},
        "float_stress": stress,
        "distribution": dict(sorted(stats.items())),
        "implementation_wall_s": round(time.time() - t0, 1), "cumulative_phase_wall_s": phase,
    }
    return chk.finish(
        cov,
        assumptions=["codec contracts (hypotheses of the theorems, observed on every run): json_rt, pickle_s_rt, pickle_l_rt, csv_exact, "
                     "HDF5 / np.save binary exactness", "all NaNs are one value (text formats keep no sign/payload; binary paths do)",
                     "samplers return batch_size rows (C03/C12)"],
        trusted=["modelled, not verified: json, pickle, pandas to_csv/read_csv(round_trip), h5py, sqlite3, np.save",
                 "scheduler/loss equality is decided by deep attribute-wise digest or identical pickle bytes"],
    )
