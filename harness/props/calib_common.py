"""Trace correspondence for the shared calibrator model (coq/Model/Calibrator.v, CalibTokens.v).

The real Calibrator is run with *token* components: samplers whose proposals encode (object, call#, history
length, row), a model returning (param token, seed), a scripted loss.  Operation sequences are executed on the
implementation, a `view` of the calibrator is taken after every operation and the sequence is replayed by the
Coq model, which compares its own view with the observed one (check_case).
"""
from __future__ import annotations

import contextlib
import copy
import io
import os
import shutil
import threading
import types
from fractions import Fraction
from pathlib import Path

import numpy as np

from common import cbool, clist, cnat, copt, cq, cz

IMPORTS = "From Coq Require Import List ZArith QArith.\nFrom BlackIt Require Import Model.CalibTokens."
CASE_T = "tcase"
SCRATCH = Path("/var/tmp/verif-scratch")

G = {"fault": None, "model_calls": 0, "loss_calls": 0}
HALTON_CLASS = 9
# token sampler classes: class number = position of the letter ('?' = 9 is the real HaltonSampler).  The generators of the
# family draw from the first six; the further ones exist for line-ups with more than ten classes (round 4, C18).
TOK_LETTERS = "ABCDEFGHI?JKLMNOP"


def tok_class_index(name):
    """Class number of a sampler class name (TokA..TokP, HaltonSampler)."""
    return TOK_LETTERS.index(name[3]) if name.startswith("Tok") else HALTON_CLASS


class TokFault(Exception):
    def __init__(self, kind, bare=False, text=None):
        if bare:
            super().__init__()          # an exception without a message (bare `assert`, `raise TimeoutError`, queue.Empty ...)
        else:
            super().__init__(kind if text is None else text)
        self.kind = kind


class TokInterrupt(KeyboardInterrupt):
    """The same injected fault as a BaseException (Ctrl-C during a batch): it must be treated no differently."""

    def __init__(self, kind):
        super().__init__(kind)
        self.kind = kind


class TokExit(SystemExit):
    """The injected fault as a SystemExit (a model calling sys.exit / a worker being told to stop)."""

    def __init__(self, kind):
        super().__init__(3)
        self.kind = kind


class TokStop(StopIteration):
    """The injected fault as a StopIteration (a user callback driving an exhausted iterator with next()): an ordinary
    exception, but one that `list(map(...))`, generators and generator-based context managers treat specially."""

    def __init__(self, kind):
        super().__init__(kind)
        self.kind = kind


class TokRich(Exception):
    """An exception class whose constructor needs several arguments and whose text spans several lines and is not ASCII
    (it cannot be re-created as type(e)(str(e)))."""

    def __init__(self, kind, code, payload):
        super().__init__(kind, code, payload)
        self.kind, self.code, self.payload = kind, code, payload

    def __str__(self):
        return f"{self.kind} failed\n  code {self.code}\n  payload {self.payload!r} \u2620"


FAULT_CLASSES = (TokFault, TokInterrupt, TokExit, TokStop, TokRich)


def raise_fault(kind):
    fl = G.get("flavour")
    if fl == "sysexit":
        raise TokExit(kind)
    if fl == "stopiter":
        raise TokStop(kind)
    if fl == "rich":
        raise TokRich(kind, 17, {"a": [1.5, None]})
    if fl == "multiline":
        raise TokFault(kind, text=f"\n{kind} failed:\n  details on a third line\n")   # starts with an empty line
    raise (TokInterrupt(kind) if fl == "interrupt" else TokFault(kind, bare=(fl == "bare")))


def call_with_watchdog(fn, timeout=60.0):
    """Run fn() in a worker thread; a call that does not return (a deadlock between the calibration and the agent thread) is
    abandoned and reported as TimeoutError instead of hanging the check."""
    box = {}

    def work():
        try:
            box["ret"] = fn()
        except BaseException as e:  # noqa: BLE001
            box["exc"] = e

    t = threading.Thread(target=work, daemon=True)
    t.start()
    t.join(timeout)
    if t.is_alive():
        G["hung"] = True
        raise TimeoutError(f"call did not return within {timeout}s (deadlock)")
    if "exc" in box:
        raise box["exc"]
    return box.get("ret")


def _tok_sample_batch(self, batch_size, search_space, existing_points, existing_losses):
    k = self.tok_calls
    self.tok_calls += 1
    self.seen.append((len(existing_points), len(existing_losses), self.random_state))
    if G["fault"] == ("sampler", self.tok_uid, k):
        raise_fault("sampler")
    n = len(existing_points)
    rows = self.tok_rows if self.tok_rows is not None else batch_size
    return np.array([[float((((self.tok_uid * 100 + k) * 1000 + n) * 10) + r)] for r in range(rows)], dtype=float).reshape(rows, 1)


def _make_classes():
    from black_it.samplers.base import BaseSampler

    out = []
    for name in TOK_LETTERS:
        if name == "?":
            out.append(None)
            continue

        def __init__(self, uid, bs, random_state=None, rows=None):
            BaseSampler.__init__(self, bs, random_state, max_deduplication_passes=0)
            self.tok_uid, self.tok_calls, self.tok_rows, self.seen = uid, 0, rows, []

        cls = type(f"Tok{name}", (BaseSampler,), {"__init__": __init__, "sample_batch": _tok_sample_batch})
        cls.__module__ = __name__
        globals()[f"Tok{name}"] = cls
        out.append(cls)
    return out


_CLASSES = None


def classes():
    global _CLASSES
    if _CLASSES is None:
        _CLASSES = _make_classes()
    return _CLASSES


def class_id(obj):
    n = type(obj).__name__
    if n == "HaltonSampler":
        return HALTON_CLASS
    return TOK_LETTERS.index(n[3])


def make_sampler(spec):
    """spec = {cls, uid, bs, seed}"""
    if spec["cls"] == HALTON_CLASS:
        from black_it.samplers.halton import HaltonSampler

        s = HaltonSampler(batch_size=spec["bs"], random_state=spec.get("seed"))
        tokenise_halton(s, spec["uid"])
        return s
    return classes()[spec["cls"]](spec["uid"], spec["bs"], spec.get("seed"), spec.get("rows"))


def tokenise_halton(s, uid):
    s.tok_uid, s.tok_calls, s.tok_rows, s.seen = uid, 0, None, []
    s.sample_batch = types.MethodType(_tok_sample_batch, s)


def tok_model(theta, N, seed):  # noqa: N803
    k = G["model_calls"]
    G["model_calls"] += 1
    if G["fault"] == ("model", k):
        raise_fault("model")
    out = np.zeros((N, 1))
    out[0, 0] = theta[0]
    out[1, 0] = seed
    return out


class TokLoss:
    def __init__(self, palette, salt):
        self.palette, self.salt = list(palette), salt
        self.bad = []

    def compute_loss(self, sim, real):
        k = G["loss_calls"]
        G["loss_calls"] += 1
        if G["fault"] == ("loss", k):
            raise_fault("loss")
        toks = [int(x) for x in sim[:, 0, 0]]
        seeds = [int(x) for x in sim[:, 1, 0]]
        if len(set(toks)) != 1:
            self.bad.append(("ensemble members of one row have different parameters", toks))
        idx = (toks[0] * 7919 + sum(seeds) * 31 + self.salt) % len(self.palette)
        return self.palette[idx]


class ScriptAgent:
    """Scripted agent (subclass created lazily so that black_it is imported from the tree under test)."""


def make_agent(script):
    from black_it.schedulers.rl.agents.base import Agent

    class _ScriptAgent(Agent):
        def __init__(self):
            super().__init__(random_state=0)
            self.script, self.k, self.actions, self.learned = list(script), 0, [], []

        def policy(self, state):
            a = self.script[self.k % len(self.script)]
            self.k += 1
            self.actions.append(int(a))
            return a

        def learn(self, state, action, reward, next_state):
            self.learned.append((int(action), float(reward)))

    return _ScriptAgent()


def exn_code(e):
    if e is None:
        return 0
    if isinstance(e, FAULT_CLASSES):
        # an exception of an injected class that does not carry the injected kind (re-created by the code under test from its text)
        # is "another exception" (5): the oracle then reports the injected fault as not propagated, with the failing input
        return {"model": 1, "loss": 2, "sampler": 3}.get(e.kind, 5)
    if isinstance(e, ValueError):
        return 4
    return 5


def sampler_views(samplers):
    out = []
    for s in samplers:
        seed = s.random_state
        out.append((int(getattr(s, "tok_uid", 98)), int(getattr(s, "tok_calls", 0)), None if seed is None else int(seed)))
    return out


def core_view(cal):
    sch = cal.scheduler
    from black_it.schedulers.round_robin import RoundRobinScheduler

    is_rr = isinstance(sch, RoundRobinScheduler)
    gen = copy.deepcopy(cal.random_generator)
    th = getattr(sch, "_agent_thread", None)
    return {
        "nsampled": int(cal.n_sampled_params), "batchidx": int(cal.current_batch_index),
        "params": [int(x) for x in cal.params_samp[:, 0]] if cal.params_samp.size else [],
        "nparam_rows": int(cal.params_samp.shape[0]),
        "losses": [float(x) for x in cal.losses_samp],
        "series": [[(int(m[0, 0]), int(m[1, 0])) for m in row] for row in cal.series_samp],
        "bnums": [int(x) for x in cal.batch_num_samp], "methods": [int(x) for x in cal.method_samp],
        "table": [(tok_class_index(k), int(v)) for k, v in cal.samplers_id_table.items()],
        "kind": 0 if is_rr else 1, "counter": int(getattr(sch, "_batch_id", 0)),
        "samplers": sampler_views(sch.samplers),
        "stopped": bool(getattr(sch, "_stopped", True)), "alive": bool(th is not None and th.is_alive()),
        "nextdraw": int(gen.integers(2**32 - 1)),
        "series_shape": [int(x) for x in cal.series_samp.shape],
    }


def disk_view(folder):
    from black_it.calibrator import Calibrator

    if not any(Path(folder).iterdir()):
        return None
    try:
        with contextlib.redirect_stdout(io.StringIO()):
            c2 = Calibrator.restore_from_checkpoint(str(folder), model=tok_model)
    except Exception as e:  # noqa: BLE001
        return {"error": f"{type(e).__name__}: {e}"}
    return core_view(c2)


def run_case(case, keep=False):
    """Execute the case on the real Calibrator; returns observations (ctor outcome + a view per op)."""
    from black_it.calibrator import Calibrator

    G.update(fault=tuple(case["fault"]) if case.get("fault") else None, model_calls=0, loss_calls=0,
             flavour=case.get("fault_flavour"), hung=False)
    folder = SCRATCH / f"{os.getpid()}" / f"case{case.get('idx', 0)}"
    if folder.exists():
        shutil.rmtree(folder)
    folder.mkdir(parents=True)
    obs = {"ctor_exn": 0, "views": [], "actions": [], "rl": None, "loss_bad": [], "sampler_seen": {}}
    loss = TokLoss(case["palette"], case["salt"])
    samplers = [make_sampler(s) for s in case["samplers"]] if case.get("samplers") is not None else None
    scheduler = agent = None
    all_objs = list(samplers or [])
    if case.get("rl") is not None:
        from black_it.schedulers.rl.envs.mab import MABCalibrationEnv
        from black_it.schedulers.rl.rl_scheduler import RLScheduler

        rl_s = [make_sampler(s) for s in case["rl"]["samplers"]]
        agent = make_agent(case["rl"]["script"])
        scheduler = RLScheduler(rl_s, agent, MABCalibrationEnv(len(rl_s) + 1))
        for s in scheduler.samplers:
            if not hasattr(s, "tok_uid"):
                tokenise_halton(s, 90)
        obs["rl"] = {"samplers": [(class_id(s), s.tok_uid, int(s.batch_size)) for s in scheduler.samplers],
                     "halton_id": int(scheduler._halton_sampler_id)}  # noqa: SLF001
        all_objs = list(scheduler.samplers)
    cfg = case["cfg"]
    sink = io.StringIO()
    try:
        with contextlib.redirect_stdout(sink):
            cal = Calibrator(
                loss_function=loss, real_data=np.zeros((2, 1)), model=tok_model,
                parameters_bounds=[[0.0], [10.0]], parameters_precision=[1.0], ensemble_size=cfg["E"],
                samplers=samplers, scheduler=scheduler if not case.get("both") else case_both_scheduler(case),
                convergence_precision=cfg["prec"], verbose=cfg["verbose"],
                saving_folder=str(folder) if cfg["saving"] else None, random_state=case["seed"], n_jobs=1,
                sim_length=cfg.get("sim_length"),      # optional (round 4); absent = the length of the real data, as before
            )
    except Exception as e:  # noqa: BLE001
        obs["ctor_exn"] = exn_code(e)
        obs["ctor_exc"] = f"{type(e).__name__}: {e}"
        shutil.rmtree(folder, ignore_errors=True)
        return obs
    obs["printed_verbose_off"] = ""
    for op in case["ops"]:
        err, returned = None, []
        sink = io.StringIO()
        try:
            with contextlib.redirect_stdout(sink):
                if G.get("hung"):
                    raise TimeoutError("skipped: an earlier call of this case never returned")
                if op[0] == "calibrate":
                    p, l = call_with_watchdog(lambda n=op[1]: cal.calibrate(n)) if case.get("rl") else cal.calibrate(op[1])
                    returned = [(int(a[0]), float(b)) for a, b in zip(p, l)]
                elif op[0] == "checkpoint":
                    cal.create_checkpoint(str(folder))
                elif op[0] == "restore":
                    cal = Calibrator.restore_from_checkpoint(str(folder), model=tok_model)
                elif op[0] == "set_samplers":
                    new = [make_sampler(s) for s in op[1]]
                    all_objs += new
                    cal.set_samplers(new)
                elif op[0] == "set_scheduler":
                    from black_it.schedulers.round_robin import RoundRobinScheduler

                    new = [make_sampler(s) for s in op[1]]
                    all_objs += new
                    cal.set_scheduler(RoundRobinScheduler(new))
        except Exception as e:  # noqa: BLE001
            err = e
        except (TokInterrupt, TokExit) as e:
            err = e
        v = core_view(cal)
        v["exn"] = exn_code(err)
        v["exc"] = None if err is None else f"{type(err).__name__}: {err}"
        v["returned"] = returned
        v["disk"] = disk_view(folder)
        # G["ignore_threads"] (optional, round 4): threads of the harness itself (e.g. vcheck's wall-limit timer), alive before the case
        v["threads"] = sum(1 for t in threading.enumerate() if t is not threading.main_thread() and t.is_alive()
                           and t not in (G.get("ignore_threads") or ()))
        if agent is not None:
            v["nlearned"] = len(agent.learned)   # learn calls made by the time the operation returned
        if case.get("want_plot") and (folder / "scheduler_pickled.pickle").exists():
            v["plot_table"] = plot_table(folder)
        obs["views"].append(v)
    if agent is not None:
        obs["actions"] = list(agent.actions)
        obs["learned"] = list(agent.learned)
    obs["loss_bad"] = loss.bad
    release_threads(cal)
    if not keep:
        shutil.rmtree(folder, ignore_errors=True)
    return obs


def plot_table(folder):
    """The id-to-name table as the plotting utilities recover it from a checkpoint."""
    try:
        from black_it.plot import plot_results

        t = plot_results._get_samplers_id_table(str(folder))  # noqa: SLF001
        return [(tok_class_index(k), int(v)) for k, v in t.items()]
    except Exception as e:  # noqa: BLE001
        return f"{type(e).__name__}: {e}"


def case_both_scheduler(case):
    from black_it.schedulers.round_robin import RoundRobinScheduler

    return RoundRobinScheduler([make_sampler(s) for s in case["both"]])


def release_threads(cal):
    """Never leave an agent thread blocked (a leaked thread would keep the harness process alive)."""
    sch = cal.scheduler
    th = getattr(sch, "_agent_thread", None)
    if th is not None and th.is_alive():
        sch._stopped = True  # noqa: SLF001
        sch._out_queue.put(None)  # noqa: SLF001
        th.join(timeout=5)


# ------------------------------------------------------------------ emitters
def c_sampler(s, seed_known=True):
    return f"(mkS {cnat(s['cls'])} {cnat(s['uid'])} {cnat(s['bs'])} 0%nat {copt(s.get('seed'), cz)})"


def c_sview(v):
    return f"({cnat(v[0])}, {cnat(v[1])}, {copt(v[2], cz)})"


def c_series(ser):
    return clist([clist([f"({cz(a)}, {cz(b)})" for a, b in row]) for row in ser])


def c_view(v):
    d = v["disk"]
    if d is None or "error" in d:
        disk = "None"
    else:
        disk = ("(Some (" + ", ".join([
            cnat(d["nsampled"]), cnat(d["batchidx"]), clist([cz(x) for x in d["params"]]),
            clist([cq(x) for x in d["losses"]]), c_series(d["series"]), clist([cnat(x) for x in d["bnums"]]),
            clist([cnat(x) for x in d["methods"]]), cnat(d["counter"]), clist([c_sview(s) for s in d["samplers"]]),
            cz(d["nextdraw"])]) + "))")
    return ("(mkView " + " ".join([
        cnat(v["exn"]), cnat(v["nsampled"]), cnat(v["batchidx"]), clist([cz(x) for x in v["params"]]),
        clist([cq(x) for x in v["losses"]]), c_series(v["series"]), clist([cnat(x) for x in v["bnums"]]),
        clist([cnat(x) for x in v["methods"]]), clist([f"({cnat(a)}, {cnat(b)})" for a, b in v["table"]]),
        cnat(v["kind"]), cnat(v["counter"]), clist([c_sview(s) for s in v["samplers"]]),
        cbool(v["stopped"]), cbool(v["alive"]), cz(v["nextdraw"]),
        clist([f"({cz(a)}, {cq(b)})" for a, b in v["returned"]]), disk]) + ")")


def c_op(op):
    if op[0] == "calibrate":
        return f"(OCalibrate {cnat(op[1])})"
    if op[0] == "checkpoint":
        return "OCheckpoint"
    if op[0] == "restore":
        return "ORestore"
    if op[0] == "set_samplers":
        return f"(OSetSamplers {clist([c_sampler(s) for s in op[1]])})"
    return f"(OSetScheduler {clist([c_sampler(s) for s in op[1]])})"


def c_fault(f):
    if not f:
        return "NoFault"
    if f[0] == "model":
        return f"(FModel {cnat(f[1])})"
    if f[0] == "loss":
        return f"(FLoss {cnat(f[1])})"
    return f"(FSampler {cnat(f[1])} {cnat(f[2])})"


def needed_draws(case):
    n = 8
    maxbs, nmax = 1, 1
    groups = [case.get("samplers") or [], (case.get("rl") or {}).get("samplers", [])]
    for op in case["ops"]:
        if op[0] in ("set_samplers", "set_scheduler"):
            groups.append(op[1])
    for g in groups:
        nmax = max(nmax, len(g) + 1)
        for s in g:
            maxbs = max(maxbs, s["bs"], s.get("rows") or 0)
    for op in case["ops"]:
        if op[0] == "calibrate":
            n += op[1] * maxbs * case["cfg"]["E"] + 2 * nmax + 2
    return n


def emit_case(case, obs):
    draws = [int(x) for x in np.random.default_rng(case["seed"]).integers(2**32 - 1, size=needed_draws(case))]
    cfg = case["cfg"]
    samplers = "None" if case.get("samplers") is None else "(Some " + clist([c_sampler(s) for s in case["samplers"]]) + ")"
    if obs.get("rl"):
        rl = ("(Some (" + clist([f"(mkS {cnat(c)} {cnat(u)} {cnat(b)} 0%nat None)" for c, u, b in obs["rl"]["samplers"]])
              + f", {cnat(obs['rl']['halton_id'])}))")
    else:
        rl = "None"
    rr = "None" if case.get("both") is None else "(Some " + clist([c_sampler(s) for s in case["both"]]) + ")"
    ops = clist([f"({c_op(op)}, {c_view(v)})" for op, v in zip(case["ops"], obs["views"])])
    return ("(mkCase " + " ".join([
        clist([cq(x) for x in case["palette"]]), cz(case["salt"]), clist([cz(d) for d in draws]),
        clist([cnat(a) for a in obs.get("actions", [])]), c_fault(case.get("fault")),
        f"(mkCfg {cnat(cfg['E'])} {copt(cfg['prec'], cnat)} {cbool(cfg['verbose'])} {cbool(cfg['saving'])})",
        samplers, rl, rr, cnat(obs["ctor_exn"]), ops]) + ")")


# ------------------------------------------------------------------ generators
PALETTES = {
    # (value list) chosen so that rounding to zero at precision p is never within 1e-3 of the half-way point
    # unless the value is exactly representable
    "generic": [3.5, 1.25, 0.75, 2.0, 10.0, -1.5, 0.375, 7.0, 1.25, 100.0],
}


def gen_samplers(rng, n, uid0=0, bs_max=4, with_seed=True, halton=False):
    out = []
    for i in range(n):
        cls = rng.below(4) if rng.below(4) else rng.below(6)
        out.append({"cls": cls, "uid": uid0 + i, "bs": rng.randint(1, bs_max),
                    "seed": rng.below(1000) if with_seed and rng.below(2) else None})
    if halton and out:
        out[rng.below(len(out))]["cls"] = HALTON_CLASS
    return out


def gen_palette(rng, prec):
    base = [3.5, 1.25, 0.75, 2.0, 10.0, 0.375, 7.0, 100.0, 0.5, 1.5]
    pal = [rng.choice(base) for _ in range(rng.randint(3, 8))]
    if rng.below(3) == 0:
        pal.append(-rng.choice(base))
    if prec is not None and rng.below(2):
        # values around the rounding threshold 0.5 * 10^-prec, exactly representable multipliers only
        for c in (0.0, 0.25, 0.75, 1.0):
            if rng.below(2):
                pal.append(c * 10.0 ** (-prec))
        if prec == 0 and rng.below(2):
            pal.append(0.5)
    rng.shuffle(pal)
    return pal


def gen_case(rng, idx, max_ops=8, max_samplers=4, bs_max=4, e_max=3, allow=("calibrate", "checkpoint", "restore",
             "set_samplers", "set_scheduler"), fault=False, rl=False, prec_prob=3, saving=None, verbose=None, nmax=3):
    prec = rng.randint(0, 12) if rng.below(prec_prob) == 0 else None
    cfg = {"E": rng.randint(1, e_max), "prec": prec, "verbose": bool(rng.below(2)) if verbose is None else verbose,
           "saving": bool(rng.below(2)) if saving is None else saving}
    case = {"idx": idx, "seed": rng.below(2**31), "cfg": cfg, "palette": gen_palette(rng, prec), "salt": rng.below(1000),
            "samplers": None, "rl": None, "fault": None, "ops": []}
    ns = rng.randint(1, max_samplers)
    if rl:
        case["rl"] = {"samplers": gen_samplers(rng, ns, 0, bs_max, halton=bool(rng.below(2))),
                      "script": [rng.below(ns) for _ in range(rng.randint(1, 5))]}
        cfg["saving"] = False
        if any(x == 0 for x in case["palette"]) and any(x < 0 for x in case["palette"]):
            # A best loss of exactly 0 that a negative loss then improves on makes MABCalibrationEnv.get_reward divide by
            # zero in the agent's thread, and calibrate() never returns: that input is C10's known finding
            # `zero-reference-loss`; it says nothing about the properties of this family, whose model has no "calibrate
            # does not return" outcome.  Negative losses without an exact zero, and exact zeros without negative losses, stay.
            case["palette"] = [abs(x) for x in case["palette"]]
    else:
        case["samplers"] = gen_samplers(rng, ns, 0, bs_max)
    uid = 10
    nops = rng.randint(1, max_ops)
    kinds = list(allow)
    for _ in range(nops):
        k = rng.choice(kinds) if rng.below(3) else "calibrate"
        if rl and k in ("checkpoint", "restore", "set_scheduler", "set_samplers"):
            k = "calibrate"
        if k == "calibrate":
            case["ops"].append(["calibrate", rng.randint(0, nmax)])
        elif k in ("checkpoint", "restore"):
            case["ops"].append([k])
        else:
            n2 = rng.randint(1, max_samplers)
            case["ops"].append([k, gen_samplers(rng, n2, uid, bs_max, halton=rl)])
            uid += n2
    if fault:
        kind = rng.choice(["model", "loss", "sampler"])
        if kind == "sampler":
            case["fault"] = ["sampler", rng.below(ns), rng.below(3)]
        else:
            case["fault"] = [kind, rng.below(12)]
    return case
