"""Cooperative scheduler used by the C10 check: drives the UNMODIFIED RLScheduler through chosen interleavings.

Exactly one thread runs at any time.  A thread gives up control only at a *synchronisation point*
(queue put/get, read/write of RLScheduler._stopped, Thread.start/join): it registers the operation it is
about to perform, and a scheduling decision picks which of the threads whose pending operation is enabled
performs its operation next and runs on to its next synchronisation point (= one `step` of coq/Model/RLProto.v).
The decision follows a given prefix of thread ids and takes the first enabled thread (M before A) afterwards;
the enabled set at every decision is recorded, which is what the depth-first enumeration backtracks over.

Nothing in /repo is edited: instrumented queue objects are placed in env._in_queue/_out_queue before the
scheduler aliases them, `_stopped` becomes a property on a subclass, and the name `threading` in the module
namespace of rl_scheduler is replaced by a shim whose Thread is controlled.
"""
from __future__ import annotations

import queue as _queue
import threading

TIDS = ("M", "A")
BIT = {"M": 1, "A": 2}


class Abort(BaseException):
    """Raised inside controlled threads to unwind them (deadlock found / step cap / end of run)."""


def me() -> str:
    return getattr(threading.current_thread(), "vname", "M")


class Ctl:
    def __init__(self, prefix, max_steps=400, lenient=False):
        self.prefix = list(prefix)
        self.lenient = lenient  # replay of a schedule recorded on another tree: picks of a disabled thread are skipped
        self.pi = 0
        self.max_steps = max_steps
        self.sched = []  # thread chosen at every decision
        self.masks = []  # enabled set (bit mask) at every decision
        self.ops = []  # name of the operation performed at every decision
        self.pending = {}
        self.sem = {"M": threading.Semaphore(0)}
        self.starting = None
        self.aborted = False
        self.deadlock = False
        self.capped = False
        self.diverged = False
        self.final_mask = 0
        self.real = []
        self.a_exc = []  # exceptions that killed an agent thread
        self.cur_batch = None  # ghost: global index of the batch whose update() is running (set by the driver)
        self.last_src = None  # ghost: source batch of the message the agent received last
        self.blocked_at_end = []
        self.no_start = False  # set by the driver around a start_session() that has to be rejected: a thread start then ends the run
        self.spurious_started = False
        self.force_m = False

    # ---- decisions
    def enabled(self):
        return [t for t in TIDS if t in self.pending and self.pending[t][1]()]

    def _abort_all(self):
        self.aborted = True
        for t, s in self.sem.items():
            s.release()

    def decide(self):
        """Pick the thread that performs its pending operation next; None = nobody can (abort everything)."""
        en = self.enabled()
        if self.force_m and "M" in en:
            # a request that has to be rejected is run without letting the agent thread in between (its one flag read commutes
            # with everything the agent does); the steps are recorded with M as the only choice and deleted before the
            # comparison with the model
            en = ["M"]
        mask = sum(BIT[t] for t in en)
        if not en:
            self.deadlock = True
            self.final_mask = 0
            self.blocked_at_end = sorted((t, op) for t, (op, _) in self.pending.items())
            self._abort_all()
            return None
        k = len(self.sched)
        if k >= self.max_steps:
            self.capped = True
            self.final_mask = mask
            self._abort_all()
            return None
        if self.lenient:
            while self.pi < len(self.prefix) and self.prefix[self.pi] not in en:
                self.pi += 1
            t = self.prefix[self.pi] if self.pi < len(self.prefix) else en[0]
            self.pi += 1
        else:
            t = self.prefix[k] if k < len(self.prefix) else en[0]
        if t not in en:
            self.diverged = True
            self.final_mask = mask
            self._abort_all()
            return None
        self.sched.append(t)
        self.masks.append(mask)
        self.ops.append(self.pending[t][0])
        return t

    def yield_point(self, op, enabled=lambda: True):
        i = me()
        if self.aborted:
            raise Abort
        self.pending[i] = (op, enabled)
        if self.starting == i:
            # first synchronisation point of a freshly started thread: control goes back to the starter
            self.starting = None
            self.sem["M"].release()
            self.sem[i].acquire()
        else:
            t = self.decide()
            if t is None:
                raise Abort
            if t != i:
                self.sem[t].release()
                self.sem[i].acquire()
        if self.aborted:
            raise Abort
        del self.pending[i]

    def thread_exit(self, i):
        self.pending.pop(i, None)
        if self.aborted:
            return
        if self.starting == i:
            self.starting = None
            self.sem["M"].release()
            return
        t = self.decide()
        if t is not None:
            self.sem[t].release()

    def finish(self):
        """The driver (thread M) has run to completion: record what is still enabled, release everything."""
        if not self.aborted:
            en = self.enabled()
            self.final_mask = sum(BIT[t] for t in en)
            self.blocked_at_end = sorted((t, op) for t, (op, _) in self.pending.items())
        self._abort_all()
        for th in self.real:
            th.join(timeout=5)
        return [th for th in self.real if th.is_alive()]


class VQueue:
    """FIFO with the interface of queue.Queue used by the code under test; every access is a sync point."""

    def __init__(self, ctl_ref, name):
        self._c = ctl_ref
        self.items = []  # (item, ghost source batch)
        self.name = name
        self.put_log = []
        self.get_log = []

    def put(self, x, block=True, timeout=None):  # noqa: ARG002
        c = self._c()
        c.yield_point(f"put:{self.name}")
        self.items.append((x, c.cur_batch if me() == "M" else None))
        self.put_log.append(x)

    def get(self, block=True, timeout=None):  # noqa: ARG002
        c = self._c()
        if block:
            c.yield_point(f"get:{self.name}", lambda: len(self.items) > 0)
        else:
            c.yield_point(f"get_nowait:{self.name}")
            if not self.items:
                raise _queue.Empty
        x, src = self.items.pop(0)
        if me() == "A":
            c.last_src = src
        self.get_log.append(x)
        return x

    def get_nowait(self):
        return self.get(block=False)

    def put_nowait(self, x):
        return self.put(x)

    def empty(self):
        self._c().yield_point(f"empty:{self.name}")
        return not self.items

    def qsize(self):
        self._c().yield_point(f"qsize:{self.name}")
        return len(self.items)


class VThread:
    def __init__(self, ctl_ref, target):
        self._c = ctl_ref
        self.target = target
        self.done = False
        self.t = None

    def start(self):
        c = self._c()
        c.yield_point("start")
        if c.no_start:
            # a second agent thread while one is running: the request should have been rejected; the run stops here
            c.spurious_started = True
            c._abort_all()
            raise Abort

        def body():
            threading.current_thread().vname = "A"
            try:
                self.target()
            except Abort:
                pass
            except BaseException as e:  # noqa: BLE001  the thread dies, as a real one would
                c.a_exc.append(f"{type(e).__name__}: {e}")
            finally:
                self.done = True
                c.thread_exit("A")

        c.sem["A"] = threading.Semaphore(0)
        c.starting = "A"
        self.t = threading.Thread(target=body, daemon=True)
        c.real.append(self.t)
        self.t.start()
        c.sem["M"].acquire()
        if c.aborted:
            raise Abort

    def join(self, timeout=None):
        if timeout is None:
            self._c().yield_point("join", lambda: self.done)
            self.t.join(timeout=5)
        else:
            # a timed join may return before the thread has finished: it is always enabled, and the schedules in which
            # it fires early are explored like any other interleaving
            self._c().yield_point("join_timeout")
            if self.done:
                self.t.join(timeout=5)

    def is_alive(self):
        return not self.done


def make_shim(ctl_ref):
    class Shim:
        Thread = staticmethod(lambda target=None, **kw: VThread(ctl_ref, target))  # noqa: ARG005
        current_thread = staticmethod(threading.current_thread)

    return Shim
