"""C01 - a calibration run is a pure function of its configuration and seed."""
from __future__ import annotations

import json
import pickle
import shutil
from collections import Counter

from props import calib_common as cc
from props import calib_family as cf
from props import real_lineups as rl


def gen_cases(chk):
    """Token traces: the seed cascade (which draw goes to which sampler / model call) is replayed by the Coq model."""
    rng = chk.rng
    cases = []
    for i in range(120 if chk.tier == "quick" else 1500):
        c = cc.gen_case(rng, len(cases), max_ops=5, max_samplers=5, allow=("calibrate", "set_samplers", "calibrate"),
                        prec_prob=10**9, rl=(i % 5 == 2), nmax=3)
        c["cfg"]["prec"] = None
        if c.get("rl"):
            c["palette"] = [abs(x) + 0.125 for x in c["palette"]]
        cases.append(c)
    return cases


def reseed_forgets_ctor(chk, stats):
    """Component level: after `random_state = k` two samplers built with different constructor seeds are identical."""
    rng = chk.rng
    n = 0
    for kind in rl.ALL9:
        for _ in range(6 if chk.tier == "quick" else 40):
            k, s1, s2 = rng.below(2**32 - 1), rng.below(10**6), rng.below(10**6)
            bs = rng.randint(1, 4)
            a, b = rl.make_sampler(kind, bs, s1), rl.make_sampler(kind, bs, s2)
            a.random_state = k
            b.random_state = k
            n += 1
            stats[f"reseed:{kind}"] += 1
            if pickle.dumps(a) != pickle.dumps(b):
                chk.violation({"kind": "oracle", "clause": "reseed-keeps-ctor-state", "sampler": kind},
                              {"failed": "oracle:reseed", "detail": f"{kind}: constructor seeds {s1}/{s2} still visible after random_state={k}",
                               "case": {"kind": kind, "k": k, "s1": s1, "s2": s2, "bs": bs}})
    return n


def twin_runs(chk, stats):
    rng = chk.rng
    quick = chk.tier == "quick"
    count = 0
    for li in range(5 if quick else 40):
        pool = rl.CHEAP if (quick and li < 4) else rl.ALL9
        k = rng.randint(2, 4)
        kinds = [(rng.choice(pool), rng.randint(1, 3)) for _ in range(k)]
        # history-free first sampler, producing at least as many points as any later sampler needs (best-batch requires
        # batch_size existing points)
        kinds[0] = (rng.choice(["halton", "rseq", "uniform"]), max(3, max(b for _, b in kinds)))
        if li % 3 == 2:
            kinds.append(kinds[1])             # repeated class
        is_rl = li % 4 == 3
        spec = {"kinds": kinds, "nparams": rng.randint(1, 4), "E": rng.randint(1, 3), "seed": rng.below(2**31),
                "loss": rng.choice(["minkowski", "msm", "fourier", "gsl", "likelihood"]), "rl": is_rl}
        n = rng.randint(2, 4)
        if li % 5 == 1:
            spec["model"] = "mut_model"        # a model that writes into its theta argument
            spec["E"] = 1 if (li // 5) % 2 == 0 else spec["E"]   # ensemble of one: no replication between sampler and model
        if li == 2:
            # more history than any size threshold inside a sampler (the GP sampler treats > 500 points specially)
            # (800, not 505: with 505 points a random 500-subset often leads to the same proposals - measured 1 of 4 seeds
            # differ; with 800 points 4 of 4)
            spec["kinds"] = [("halton", 800), ("gp", 3), ("uniform", 2)]
            spec["nparams"], spec["E"], spec["loss"], spec["rl"], n = 2, 1, "minkowski", False, 3
            is_rl = False
        base = rl.run_segments(spec, [n], [])
        variants = [("same", dict()), ("ctor-seeds", dict(ctor_seed_shift=17)), ("verbose", dict(verbose=True)),
                    ("njobs2", dict(n_jobs=2))]
        if not quick:
            variants.append(("njobs4", dict(n_jobs=4)))
        if not is_rl:
            variants.append(("folder", dict(folder="F")))
        for name, kw in variants:
            folder = None
            if kw.get("folder"):
                folder = rl.scratch(f"c01_{li}")
                kw = dict(kw, folder=str(folder))
            h = rl.run_segments(spec, [n], [], **kw)
            if folder:
                shutil.rmtree(folder, ignore_errors=True)
            count += 1
            stats[f"twin:{name}"] += 1
            d = rl.diff(base, h)
            if d:
                chk.violation({"kind": "oracle", "clause": f"history-depends-on-{name}"},
                              {"failed": "oracle:twin", "detail": f"line-up {kinds} loss {spec['loss']} rl={is_rl}: {name} changes {d}",
                               "case": {"spec": spec, "n": n, "variant": name}})
    return count


def rl_twins(chk, stats):
    """RL-scheduled line-ups whose agent really uses what it is told (epsilon-greedy on the rewards): losses in small units
    (an improvement is lost when a loss is rounded to two decimals), an agent that explores at almost every step (its first
    choice is drawn before anything else happens in a session), several constructor seeds."""
    rng = chk.rng
    quick = chk.tier == "quick"
    count = 0
    for j in range(3 if quick else 24):
        spec = {"kinds": [("halton", 3), (rng.choice(["uniform", "rseq"]), 2), (rng.choice(["rseq", "bestbatch", "uniform"]), 2)],
                "nparams": 2, "E": rng.randint(1, 2), "seed": rng.below(2**31), "loss": "minkowski", "rl": True,
                "eps": 0.9 if j % 2 else 0.2}
        if j % 4 != 3:
            spec["model"] = "small_model"
        n = 10
        base = rl.run_segments(spec, [n], [])
        for name, kw in [("same", {}), ("verbose", dict(verbose=True)), ("ctor-seeds", dict(ctor_seed_shift=17)),
                         ("ctor-seeds", dict(ctor_seed_shift=18)), ("ctor-seeds", dict(ctor_seed_shift=None)), ("njobs2", dict(n_jobs=2))]:
            h = rl.run_segments(spec, [n], [], **kw)
            count += 1
            stats[f"rl-twin:{name}"] += 1
            d = rl.diff(base, h)
            if d:
                chk.violation({"kind": "oracle", "clause": f"history-depends-on-{name}"},
                              {"failed": "oracle:twin", "detail": f"RL line-up {spec['kinds']} eps={spec['eps']} model={spec.get('model')}: "
                                                                  f"{name} {kw} changes {d}",
                               "case": {"spec": spec, "n": n, "variant": name, "kw": kw}})
    return count


def run(chk, replay=None):
    chk.proof_gate()
    cases = [json.loads(open(replay).read())["case"]] if replay else gen_cases(chk)
    if replay and "spec" in cases[0]:
        c = cases[0]
        kw = c.get("kw") or {"same": {}, "ctor-seeds": dict(ctor_seed_shift=17), "verbose": dict(verbose=True), "njobs2": dict(n_jobs=2),
                              "njobs4": dict(n_jobs=4), "folder": dict(folder=str(rl.scratch("c01_replay")))}[c["variant"]]
        d = rl.diff(rl.run_segments(c["spec"], [c["n"]], []), rl.run_segments(c["spec"], [c["n"]], [], **kw))
        print("differs in", d)
        return 1 if d else 0
    obs, bad, stats, keys, nontriv = cf.run_traces(chk, cases, lambda c, o: [], lambda c, o: max((v["batchidx"] for v in o["views"]), default=0) >= 2, label="C01")
    extra = Counter()
    n1 = reseed_forgets_ctor(chk, extra) if not replay else 0
    n2 = (twin_runs(chk, extra) + rl_twins(chk, extra)) if not replay else 0
    stats.update(extra)
    cov = {
        "evaluations": len(cases) + n1 + n2, "distinct": len(keys) + n1 + n2, "distinct_nontrivial": len(nontriv) + n1 + n2,
        "rule": "(a) token traces (round-robin and RL) replayed by the Coq model: the seed each sampler holds and the seed of every "
                "model call are compared with the model's seed cascade on the recorded stream; (b) for each of the nine built-in sampler "
                "classes two objects with different constructor seeds are compared (pickle bytes) after random_state = k; (c) real "
                "line-ups (nine samplers, five losses, 1-4 parameters, round-robin and single-session RL) run twice and with other "
                "constructor seeds, verbose, n_jobs=2 (4 in thorough) and a saving folder: histories and return values bitwise equal",
        "samples": cf.sample_cases(cases, obs),
        "traces_validated_against_impl": len(cases) - len(bad), "model_impl_disagreements": len(bad),
        "distribution": dict(sorted(stats.items())),
    }
    return chk.finish(cov, assumptions=cf.ASSUME + ["determinism of numpy Generator, scikit-learn, xgboost and loky workers; the user's model "
                      "is a function of (theta, N, seed) - sampled by (c), not proved"], trusted=cf.TRUSTED)
