"""C01 - a calibration run is a pure function of its configuration and seed."""
from __future__ import annotations

import json
import pickle
import shutil
from collections import Counter

from props import calib_common as cc
from props import calib_family as cf
from props import real_lineups as rl


def gen_cases(chk):
    """Token traces: the seed cascade (which draw goes to which sampler / model call) is replayed by the Coq model."""
    rng = chk.rng
    cases = []
    for i in range(120 if chk.tier == "quick" else 1500):
        c = cc.gen_case(rng, len(cases), max_ops=5, max_samplers=5, allow=("calibrate", "set_samplers", "calibrate"),
                        prec_prob=10**9, rl=(i % 5 == 2), nmax=3)
        c["cfg"]["prec"] = None
        if c.get("rl"):
            c["palette"] = [abs(x) + 0.125 for x in c["palette"]]
        if i % 10 == 7:
            # (round 4) calibrator seeds at the edges of the ranges a guard may single out: 0 (falsy), 1, the 32- and 64-bit limits
            c["seed"] = SEED_EDGES[(i // 10) % len(SEED_EDGES)]
        cases.append(c)
    return cases


SEED_EDGES = [0, 1, 2**31 - 1, 2**31, 2**32 - 1, 2**32, 2**63 - 1, 2**63, 2**64 + 3]


def reseed_forgets_ctor(chk, stats):
    """Component level: after `random_state = k` two samplers built with different constructor seeds are identical."""
    rng = chk.rng
    n = 0
    for kind in rl.ALL9:
        for _ in range(6 if chk.tier == "quick" else 40):
            k, s1, s2 = rng.below(2**32 - 1), rng.below(10**6), rng.below(10**6)
            bs = rng.randint(1, 4)
            a, b = rl.make_sampler(kind, bs, s1), rl.make_sampler(kind, bs, s2)
            a.random_state = k
            b.random_state = k
            n += 1
            stats[f"reseed:{kind}"] += 1
            if pickle.dumps(a) != pickle.dumps(b):
                chk.violation({"kind": "oracle", "clause": "reseed-keeps-ctor-state", "sampler": kind},
                              {"failed": "oracle:reseed", "detail": f"{kind}: constructor seeds {s1}/{s2} still visible after random_state={k}",
                               "case": {"kind": kind, "k": k, "s1": s1, "s2": s2, "bs": bs}})
    return n


def twin_runs(chk, stats):
    rng = chk.rng
    quick = chk.tier == "quick"
    count = 0
    for li in range(5 if quick else 40):
        pool = rl.CHEAP if (quick and li < 4) else rl.ALL9
        k = rng.randint(2, 4)
        kinds = [(rng.choice(pool), rng.randint(1, 3)) for _ in range(k)]
        # history-free first sampler, producing at least as many points as any later sampler needs (best-batch requires
        # batch_size existing points)
        kinds[0] = (rng.choice(["halton", "rseq", "uniform"]), max(3, max(b for _, b in kinds)))
        if li % 3 == 2:
            kinds.append(kinds[1])             # repeated class
        is_rl = li % 4 == 3
        spec = {"kinds": kinds, "nparams": rng.randint(1, 4), "E": rng.randint(1, 3), "seed": rng.below(2**31),
                "loss": rng.choice(["minkowski", "msm", "fourier", "gsl", "likelihood"]), "rl": is_rl}
        n = rng.randint(2, 4)
        if li % 5 == 1:
            spec["model"] = "mut_model"        # a model that writes into its theta argument
            spec["E"] = 1 if (li // 5) % 2 == 0 else spec["E"]   # ensemble of one: no replication between sampler and model
        if li == 2:
            # more history than any size threshold inside a sampler (the GP sampler treats > 500 points specially)
            # (800, not 505: with 505 points a random 500-subset often leads to the same proposals - measured 1 of 4 seeds
            # differ; with 800 points 4 of 4)
            spec["kinds"] = [("halton", 800), ("gp", 3), ("uniform", 2)]
            spec["nparams"], spec["E"], spec["loss"], spec["rl"], n = 2, 1, "minkowski", False, 3
            is_rl = False
        base = rl.run_segments(spec, [n], [])
        variants = [("same", dict()), ("ctor-seeds", dict(ctor_seed_shift=17)), ("verbose", dict(verbose=True)),
                    ("njobs2", dict(n_jobs=2))]
        if not quick:
            variants.append(("njobs4", dict(n_jobs=4)))
        if not is_rl:
            variants.append(("folder", dict(folder="F")))
        for name, kw in variants:
            folder = None
            if kw.get("folder"):
                folder = rl.scratch(f"c01_{li}")
                kw = dict(kw, folder=str(folder))
            h = rl.run_segments(spec, [n], [], **kw)
            if folder:
                shutil.rmtree(folder, ignore_errors=True)
            count += 1
            stats[f"twin:{name}"] += 1
            d = rl.diff(base, h)
            if d:
                chk.violation({"kind": "oracle", "clause": f"history-depends-on-{name}"},
                              {"failed": "oracle:twin", "detail": f"line-up {kinds} loss {spec['loss']} rl={is_rl}: {name} changes {d}",
                               "case": {"spec": spec, "n": n, "variant": name}})
    return count


def rl_twins(chk, stats):
    """RL-scheduled line-ups whose agent really uses what it is told (epsilon-greedy on the rewards): losses in small units
    (an improvement is lost when a loss is rounded to two decimals), an agent that explores at almost every step (its first
    choice is drawn before anything else happens in a session), several constructor seeds."""
    rng = chk.rng
    quick = chk.tier == "quick"
    count = 0
    for j in range(3 if quick else 24):
        spec = {"kinds": [("halton", 3), (rng.choice(["uniform", "rseq"]), 2), (rng.choice(["rseq", "bestbatch", "uniform"]), 2)],
                "nparams": 2, "E": rng.randint(1, 2), "seed": rng.below(2**31), "loss": "minkowski", "rl": True,
                "eps": 0.9 if j % 2 else 0.2}
        if j % 4 != 3:
            spec["model"] = "small_model"
        n = 10
        base = rl.run_segments(spec, [n], [])
        for name, kw in [("same", {}), ("verbose", dict(verbose=True)), ("ctor-seeds", dict(ctor_seed_shift=17)),
                         ("ctor-seeds", dict(ctor_seed_shift=18)), ("ctor-seeds", dict(ctor_seed_shift=None)), ("njobs2", dict(n_jobs=2))]:
            h = rl.run_segments(spec, [n], [], **kw)
            count += 1
            stats[f"rl-twin:{name}"] += 1
            d = rl.diff(base, h)
            if d:
                chk.violation({"kind": "oracle", "clause": f"history-depends-on-{name}"},
                              {"failed": "oracle:twin", "detail": f"RL line-up {spec['kinds']} eps={spec['eps']} model={spec.get('model')}: "
                                                                  f"{name} {kw} changes {d}",
                               "case": {"spec": spec, "n": n, "variant": name, "kw": kw}})
    return count


# ---------------------------------------------------------------------------------------------- round 4: generator sweep
_STASH = {}


def _hook_args_repr(args, spec):
    """The same configuration in another representation: bounds as a Fortran-ordered float array, precisions as an array,
    real data as a read-only Fortran-ordered array, numpy integers for the ensemble size and the seed."""
    import numpy as np

    a = dict(args)
    a["parameters_bounds"] = np.asfortranarray(np.array(args["parameters_bounds"], dtype=float))
    a["parameters_precision"] = np.array(args["parameters_precision"], dtype=float)
    # Fortran-ordered (what DataFrame.to_numpy() returns) and read-only.  Not for LikelihoodLoss: its value depends on the
    # memory layout of the real data in the last bits (numpy reductions follow the strides), so for that loss two arrays of
    # different layout are not the same configuration bit for bit; the defect this causes - a restore changes the layout behind
    # the user's back - is C05's known finding `likelihood-real-data-layout`
    rd = np.array(args["real_data"]) if spec["loss"] == "likelihood" else np.asfortranarray(np.array(args["real_data"]))
    rd.setflags(write=False)
    a["real_data"] = rd
    a["ensemble_size"] = np.int64(args["ensemble_size"])
    a["random_state"] = np.int64(args["random_state"]) if args["random_state"] < 2**63 else args["random_state"]
    return a


def _hook_args_neutral(args, spec):
    """Construct with OTHER values of the reassignable attributes (seed, n_jobs, verbosity, folder); `_hook_cal_assign`
    then assigns the wanted ones: the values in force are the assigned ones."""
    _STASH["assign"] = {k: args[k] for k in ("random_state", "n_jobs", "verbose", "saving_folder")}
    a = dict(args)
    a.update(random_state=(args["random_state"] + 4242) % 2**31, n_jobs=1 if args["n_jobs"] != 1 else 2, verbose=not args["verbose"],
             saving_folder=None)
    return a


def _hook_cal_assign(cal, spec):
    o = _STASH.pop("assign")
    cal.random_state = o["random_state"]
    cal.n_jobs = o["n_jobs"]
    cal.verbose = o["verbose"]
    cal.saving_folder = o["saving_folder"]


def _hook_samplers_bs(samplers, spec):
    """Every sampler is constructed with ANOTHER batch size and gets the wanted one assigned afterwards."""
    out = []
    for s0, (k, bs) in zip(samplers, spec["kinds"]):
        s1 = rl.make_sampler(k, bs + 1, s0.random_state, *([spec["sampler_opts"]] if spec.get("sampler_opts") else []))
        s1.batch_size = bs
        out.append(s1)
    return out


def _hook_samplers_used(samplers, spec):
    """The very sampler objects have been used before, by another calibration (three parameters, another seed, another
    loss).  For the seven classes whose state is their generator, their sequence cursor and a model refitted at every call, the
    reseeding at batch 0 must make that past invisible.  (A used particle swarm / CORS sampler carries its swarm / its batch
    counter on purpose - C05 depends on that - and is a different line-up from a fresh one: not generated here.)"""
    import contextlib
    import io

    import numpy as np

    other = rl.build({"kinds": [("halton", 4)], "nparams": 3, "E": 1, "seed": 5, "loss": "msm", "rl": False})
    other.set_samplers([other.scheduler.samplers[0], *samplers])
    with contextlib.redirect_stdout(io.StringIO()), np.errstate(all="ignore"):
        other.calibrate(len(samplers) + 2)
    return samplers


def _hook_args_share(args, spec):
    """The second calibrator is built from the very argument objects (loss, real data, bounds, precisions) of the first."""
    if "share" in _STASH:
        a = dict(args)
        for k in ("loss_function", "real_data", "parameters_bounds", "parameters_precision"):
            a[k] = _STASH["share"][k]
        return a
    _STASH["share"] = args
    return args


rl.HOOKS.update({"c01:repr": _hook_args_repr, "c01:neutral": _hook_args_neutral, "c01:assign": _hook_cal_assign,
                 "c01:bs": _hook_samplers_bs, "c01:used": _hook_samplers_used, "c01:share": _hook_args_share})

STATELESS7 = ["halton", "rseq", "uniform", "bestbatch", "rf", "xgb", "gp"]


def _prefill(folder, spec):
    """a folder that already holds the checkpoint of ANOTHER calibration (other shape, other loss, other seed)"""
    other = {"kinds": [("uniform", 2), ("halton", 1)], "nparams": 1 + spec["nparams"] % 3, "E": 1 + spec["E"] % 2, "seed": 99,
             "loss": "msm" if spec["loss"] != "msm" else "minkowski", "rl": False}
    rl.run_segments(other, [2], [], folder=str(folder))


def run_variant(spec, n, kw, tag="v"):
    """One run of `spec` for n batches under the keyword arguments kw of real_lineups.build; kw["folder"] may be "F" (a fresh
    folder) or "USED" (a folder holding another calibration's checkpoint)."""
    kw = dict(kw)
    folder = None
    if kw.get("folder") in ("F", "USED"):
        folder = rl.scratch(f"c01_{tag}")
        if kw["folder"] == "USED":
            _prefill(folder, spec)
        kw["folder"] = str(folder)
    try:
        return rl.run_segments(spec, [n], [], **kw)
    finally:
        if folder:
            shutil.rmtree(folder, ignore_errors=True)


def compare(chk, stats, scen, spec, n, variants, base_kw=None):
    """base = spec run plainly; every variant (name, spec', kw) must reproduce its history and return value bit for bit."""
    _STASH.clear()
    base = run_variant(spec, n, base_kw or {}, tag="base")
    count = 0
    for name, vspec, kw in variants:
        vspec = vspec or spec
        count += 1
        stats[f"sweep:{scen}:{name}"] += 1
        try:
            h = run_variant(vspec, n, kw, tag=name)
            d = rl.diff(base, h)
            what = f"changes {d}"
        except Exception as e:  # noqa: BLE001
            d = ["raises"]
            what = f"raises {type(e).__name__}: {e}"
        if d:
            chk.violation({"kind": "oracle", "clause": f"history-depends-on-{name}", "scenario": scen},
                          {"failed": "oracle:twin", "detail": f"[{scen}] line-up {spec['kinds']} loss {spec['loss']} seed {spec['seed']} "
                                                              f"rl={spec.get('rl')}: variant {name} {kw} {what}",
                           "case": {"spec": spec, "n": n, "variant": name, "kw": kw, "vspec": vspec, "base_kw": base_kw or {}}})
    return count


def cheap_lineup(rng, pool=None, k=None):
    pool = pool or rl.CHEAP
    k = k or rng.randint(2, 3)
    kinds = [(rng.choice(pool), rng.randint(1, 3)) for _ in range(k)]
    kinds[0] = (rng.choice(["halton", "rseq", "uniform"]), max(3, max(b for _, b in kinds)))
    return kinds


def sweep_twins(chk, stats):
    """Round 4: configurations, representations, reuse and reassignment the earlier twins did not reach (see design.d/C01.md)."""
    rng = chk.rng
    quick = chk.tier == "quick"
    reps = 1 if quick else 5
    count = 0
    std = [("same", None, {}), ("ctor-seeds", None, dict(ctor_seed_shift=17))]
    for rep in range(reps):
        pool = rl.CHEAP if quick else rl.ALL9
        mk = lambda **kw: dict({"kinds": cheap_lineup(rng, pool), "nparams": rng.randint(1, 4), "E": rng.randint(1, 3),  # noqa: E731
                                "seed": rng.below(2**31), "loss": rng.choice(["minkowski", "msm", "fourier", "gsl", "likelihood"]),
                                "rl": False}, **kw)
        # 1. calibrator seeds at the edges (0 is falsy; beyond 32 and 64 bits) and numpy-typed seeds
        for seed in [0, 2**32 - 1, 2**32 + rng.below(1000), 2**63 + rng.below(1000)]:
            spec = mk(seed=seed)
            count += compare(chk, stats, "seed-edge", spec, 3, std + ([("njobs2", None, dict(n_jobs=2))] if seed == 0 else []))
        spec = {"kinds": [("halton", 3), ("uniform", 2), ("rseq", 2)], "nparams": 2, "E": 1, "seed": 0, "loss": "minkowski", "rl": True,
                "eps": 0.9, "model": "small_model"}
        count += compare(chk, stats, "seed-edge-rl", spec, 8, std + [("ctor-seeds", None, dict(ctor_seed_shift=None))])
        # 2. an explicitly constructed scheduler with its own seed - the same seed as the calibrator's (what a user who passes
        #    one seed everywhere does) and another one; and no explicit scheduler at all
        for sseed_same in (True, False):
            spec = mk()
            spec["sched_seed"] = spec["seed"] if sseed_same else rng.below(10**6)
            noexp = {k: v for k, v in spec.items() if k != "sched_seed"}
            count += compare(chk, stats, "scheduler-ctor-seed", spec, 4,
                             [("ctor-seeds", None, dict(ctor_seed_shift=17)), ("ctor-seeds", None, dict(ctor_seed_shift=None)),
                              ("implicit-scheduler", noexp, {}), ("same", None, {})])
        spec = {"kinds": [("halton", 3), ("uniform", 2), ("bestbatch", 2)], "nparams": 2, "E": 1, "seed": rng.below(2**31), "loss": "minkowski",
                "rl": True, "eps": 0.9, "model": "small_model"}
        spec["sched_seed"] = spec["seed"]
        count += compare(chk, stats, "scheduler-ctor-seed-rl", spec, 8,
                         [("ctor-seeds", None, dict(ctor_seed_shift=17)), ("implicit-scheduler", {k: v for k, v in spec.items() if k != "sched_seed"}, {})])
        # 2b. verbosity with a reward-driven RL agent and losses in small units (seeded change C01-7: the losses handed to the
        #     scheduler were the two-decimal ones of the log).  Measured on that change: one such twin differs with probability
        #     0.3-0.55 (eps 0-0.2, 10-30 batches; 0.07 at eps 0.9), so the three twins of rl_twins caught it by luck (0.45 chance
        #     of a miss); twelve nearly greedy ones miss with probability < 0.001
        for j in range(12):
            spec = {"kinds": [("halton", 3), (rng.choice(["uniform", "rseq"]), 2), (rng.choice(["rseq", "bestbatch", "uniform"]), 2)],
                    "nparams": 2, "E": 1, "seed": rng.below(2**31), "loss": "minkowski", "rl": True, "eps": 0.1, "model": "small_model"}
            count += compare(chk, stats, "rl-verbose-small-units", spec, 12, [("verbose", None, dict(verbose=True))])
        # 3. every surrogate class in one line-up (the quick tier's random line-ups hold one only by chance)
        spec = {"kinds": [("halton", 6), ("rf", 2), ("xgb", 2), ("gp", 2)], "nparams": rng.randint(1, 3), "E": 1, "seed": rng.below(2**31),
                "loss": "minkowski", "rl": False}
        count += compare(chk, stats, "all-surrogates", spec, 5, std + [("njobs2", None, dict(n_jobs=2))])
        # 4. model runs of unequal duration: with several workers they complete in another order than they were dispatched in
        spec = mk(model="uneven_model", E=3, kinds=[("halton", 3), ("uniform", 3)], loss="minkowski")
        count += compare(chk, stats, "uneven-run-times", spec, 2, [("njobs2", None, dict(n_jobs=2))] + ([] if quick else [("njobs4", None, dict(n_jobs=4))]))
        # 5. what the model returns: float32 / Fortran-ordered / read-only views, nested lists
        for m in ("f32_model", "list_model"):
            spec = mk(model=m)
            count += compare(chk, stats, f"model-returns:{m}", spec, 3, [("same", None, {}), ("njobs2", None, dict(n_jobs=2))])
        # 6. a saving folder that already holds another calibration; every flag at once
        spec = mk()
        count += compare(chk, stats, "used-folder", spec, 3, [("used-folder", None, dict(folder="USED")),
                                                              ("all-flags", None, dict(folder="USED", verbose=True, n_jobs=2, ctor_seed_shift=17))])
        # 7. non-default configuration: simulation length other than the data length, a convergence precision that stops the
        #    run early (0 included), a search space smaller than the batches drawn from it, non-default sampler and loss options
        spec = mk(sim_length=30, loss=rng.choice(["msm", "gsl", "likelihood"]))
        count += compare(chk, stats, "sim-length", spec, 3, std + [("njobs2", None, dict(n_jobs=2)), ("folder", None, dict(folder="F"))])
        spec = mk(conv_prec=rng.choice([0, 1]), model="small_model", loss="minkowski")
        count += compare(chk, stats, "early-stop", spec, 5, std + [("verbose", None, dict(verbose=True)), ("folder", None, dict(folder="F")),
                                                                  ("njobs2", None, dict(n_jobs=2))])
        spec = mk(nparams=2, bounds=[[0.0, 0.0], [0.03, 0.02]])
        count += compare(chk, stats, "small-space", spec, 5, std)
        spec = mk(sampler_opts="nondefault", loss_variant="nondefault", kinds=cheap_lineup(rng, rl.ALL9, 4))
        count += compare(chk, stats, "non-default-options", spec, 5, std + [("njobs2", None, dict(n_jobs=2))])
        # 8. attributes assigned after construction are the ones in force
        spec = mk()
        count += compare(chk, stats, "assigned-after-construction", spec, 3,
                         [("assigned", None, dict(hooks={"args": "c01:neutral", "cal": "c01:assign"})),
                          ("assigned", None, dict(hooks={"args": "c01:neutral", "cal": "c01:assign"}, n_jobs=2, verbose=True, folder="F")),
                          ("batch-size-assigned", None, dict(hooks={"samplers": "c01:bs"}))])
        # 9. the same configuration in another representation (with a model that writes into its parameter vector)
        spec = mk(model="mut_model", E=rng.choice([1, 2]), loss=rng.choice(["minkowski", "msm", "fourier", "gsl"]))
        count += compare(chk, stats, "representation", spec, 3, [("representation", None, dict(hooks={"args": "c01:repr"})),
                                                                  ("representation", None, dict(hooks={"args": "c01:repr"}, n_jobs=2))])
        # 10. reuse: sampler objects another calibration has used (the seven reseed-complete classes); argument objects shared by
        #     two calibrators
        ks = list(STATELESS7)
        rng.shuffle(ks)
        spec = {"kinds": [("halton", 4)] + [(k, 2) for k in (ks[:3] if quick else ks)], "nparams": 2, "E": 1, "seed": rng.below(2**31),
                "loss": "minkowski", "rl": False}
        count += compare(chk, stats, "used-samplers", spec, len(spec["kinds"]) + 1, [("used-samplers", None, dict(hooks={"samplers": "c01:used"}))])
        spec = mk()
        count += compare(chk, stats, "shared-arguments", spec, 3, [("shared-arguments", None, dict(hooks={"args": "c01:share"}))],
                         base_kw=dict(hooks={"args": "c01:share"}))
    return count


def reseed_forgets_use(chk, stats):
    """Component level (round 4): a sampler of one of the seven reseed-complete classes that has ALREADY WORKED (on a space of
    another dimension, several calls) is, after `random_state = k`, indistinguishable from a fresh one: the next proposals are
    bitwise equal (the fitted surrogate it still holds is refitted before use; its cursor and generator restart)."""
    import contextlib
    import io

    import numpy as np
    from black_it.search_space import SearchSpace

    rng = chk.rng
    n = 0
    with contextlib.redirect_stdout(io.StringIO()):
        big = SearchSpace([[0.0, 0.0, 0.0], [1.0, 1.0, 1.0]], [0.01, 0.01, 0.01], False)
        small = SearchSpace([[-1.0, 0.0], [1.0, 2.0]], [0.01, 0.02], False)
    for kind in STATELESS7:
        for _ in range(3 if chk.tier == "quick" else 20):
            k, s1, s2 = rng.below(2**32 - 1), rng.below(10**6), rng.below(10**6)
            bs = rng.randint(1, 3)
            g = np.random.default_rng(rng.below(2**31))
            used, fresh = rl.make_sampler(kind, bs, s1), rl.make_sampler(kind, bs, s2)
            pts3, pts2 = big.param_grid, small.param_grid
            hist3 = np.column_stack([g.choice(col, size=12) for col in pts3])
            hist2 = np.column_stack([g.choice(col, size=10) for col in pts2])
            l3, l2 = g.random(12), g.random(10)
            with contextlib.redirect_stdout(io.StringIO()), np.errstate(all="ignore"):
                # the earlier work was on a space of another dimension, or (every other case) of the SAME dimension - whatever
                # the sampler keeps per dimension / per space must not survive the reseed either
                same_dims = n % 2 == 1
                for _j in range(rng.randint(1, 3)):
                    if same_dims:
                        used.sample(small, hist2[::-1].copy(), l2[::-1].copy())
                    else:
                        used.sample(big, hist3, l3)
                used.random_state = k
                fresh.random_state = k
                a = [used.sample(small, hist2, l2).tobytes() for _j in range(2)]
                b = [fresh.sample(small, hist2, l2).tobytes() for _j in range(2)]
            n += 1
            stats[f"reseed-after-use:{kind}"] += 1
            if a != b:
                chk.violation({"kind": "oracle", "clause": "reseed-keeps-state-of-use", "sampler": kind},
                              {"failed": "oracle:reseed", "detail": f"{kind}: a sampler used on a 3-parameter space and then reseeded with {k} "
                                                                    f"proposes other points than a fresh one reseeded with {k}",
                               "case": {"kind": kind, "k": k, "s1": s1, "s2": s2, "bs": bs}})
    return n


def run(chk, replay=None):
    chk.proof_gate()
    cases = [json.loads(open(replay).read())["case"]] if replay else gen_cases(chk)
    if replay and "vspec" in cases[0]:
        c = cases[0]
        _STASH.clear()
        base = run_variant(c["spec"], c["n"], c.get("base_kw") or {}, tag="base")
        d = rl.diff(base, run_variant(c["vspec"], c["n"], c["kw"], tag="replay"))
        print("differs in", d)
        return 1 if d else 0
    if replay and "spec" in cases[0]:
        c = cases[0]
        kw = c.get("kw") or {"same": {}, "ctor-seeds": dict(ctor_seed_shift=17), "verbose": dict(verbose=True), "njobs2": dict(n_jobs=2),
                              "njobs4": dict(n_jobs=4), "folder": dict(folder=str(rl.scratch("c01_replay")))}[c["variant"]]
        d = rl.diff(rl.run_segments(c["spec"], [c["n"]], []), rl.run_segments(c["spec"], [c["n"]], [], **kw))
        print("differs in", d)
        return 1 if d else 0
    obs, bad, stats, keys, nontriv = cf.run_traces(chk, cases, lambda c, o: [], lambda c, o: max((v["batchidx"] for v in o["views"]), default=0) >= 2, label="C01")
    extra = Counter()
    n1 = reseed_forgets_ctor(chk, extra) if not replay else 0
    n2 = (twin_runs(chk, extra) + rl_twins(chk, extra)) if not replay else 0
    # round 4 parts after the older ones, so that those see the same random draws as before
    n1 += reseed_forgets_use(chk, extra) if not replay else 0
    n2 += sweep_twins(chk, extra) if not replay else 0
    stats.update(extra)
    cov = {
        "evaluations": len(cases) + n1 + n2, "distinct": len(keys) + n1 + n2, "distinct_nontrivial": len(nontriv) + n1 + n2,
        "rule": "(a) token traces (round-robin and RL) replayed by the Coq model: the seed each sampler holds and the seed of every "
                "model call are compared with the model's seed cascade on the recorded stream; (b) for each of the nine built-in sampler "
                "classes two objects with different constructor seeds are compared (pickle bytes) after random_state = k; (c) real "
                "line-ups (nine samplers, five losses, 1-4 parameters, round-robin and single-session RL) run twice and with other "
                "constructor seeds, verbose, n_jobs=2 (4 in thorough) and a saving folder: histories and return values bitwise equal; "
                "(d, round 4) the same twin comparison over seeds 0 / 2^32 / 2^63 / numpy integers, explicitly constructed schedulers "
                "with their own seed, all three surrogate classes, model runs of unequal duration under several workers, models "
                "returning float32 views or lists, a used saving folder, simulation length != data length, early stop, an exhausted "
                "search space, non-default sampler and loss options, attributes assigned after construction, arguments in another "
                "representation, sampler objects used before (seven reseed-complete classes) and shared argument objects; (e) a "
                "used sampler of those seven classes proposes, after random_state = k, what a fresh one does",
        "samples": cf.sample_cases(cases, obs),
        "traces_validated_against_impl": len(cases) - len(bad), "model_impl_disagreements": len(bad),
        "distribution": dict(sorted(stats.items())),
    }
    return chk.finish(cov, assumptions=cf.ASSUME + ["determinism of numpy Generator, scikit-learn, xgboost and loky workers; the user's model "
                      "is a function of (theta, N, seed) - sampled by (c), not proved"], trusted=cf.TRUSTED)
