"""C06 - an interrupted checkpoint save is never restored as a silent hybrid.

Model: coq/Model/Crash.v   Theorems: coq/Properties/C06.v

Correspondence ("faultfs"): the real save_calibrator_state is run on a real folder holding a previous checkpoint s0
while saving s1, with Path.open / json.dump / pickle.dump / DataFrame.to_csv / h5py.File / Dataset.resize /
Dataset.__setitem__ / Group.create_dataset / os.replace wrapped so that the k-th file operation raises (every
operation prefix); and the files of a completed save are cut at byte b over the old files (every partially written
file).  Calibrator.restore_from_checkpoint is then called on the folder and the outcome classified
Error / exactly s0 / exactly s1 / hybrid by comparison of the full calibrator state; the class must be the one the
Coq model computes for the same crash point (a member of the model's set where the model is a monitor).
SQLite: a proxy connection raises at each execute / executescript / commit.
Direct oracle: the property statement (never a hybrid; SQLite: a failed save leaves the previous checkpoint loadable).
"""
from __future__ import annotations

import contextlib
import copy
import io
import json
import os
import pathlib
import pickle
import shutil
from collections import Counter
from pathlib import Path

import numpy as np

from common import cbool, clist, cnat
from props import calib_common as cc

IMPORTS = "From Coq Require Import List.\nFrom BlackIt Require Import Model.Crash."
SCRATCH = Path("/var/tmp/verif-scratch")
JSON, SCHED, LOSS, CSV, H5, TMP = ("calibration_params.json", "scheduler_pickled.pickle", "loss_function_pickled.pickle",
                                   "calibration_results.csv", "series_samp.h5", "calibration_params.json.tmp")
FILE_TOK = {JSON: "FJson", SCHED: "FSched", LOSS: "FLoss", CSV: "FCsv", H5: "FH5", TMP: "FTmp"}
CLS = {"Error": "Error", "Old": "Exactly_old", "New": "Exactly_new", "Hybrid": "Hybrid"}


class Fault(Exception):
    """The injected failure of a file operation / SQL statement."""


# ------------------------------------------------------------------------------------------------ faultfs
class FaultFS:
    """Counts the file operations of a save on `folder`; the operation number `fail_at` raises instead of running."""

    def __init__(self, folder, fail_at=None):
        self.folder, self.events, self.fail_at = str(folder), [], fail_at

    def tick(self, ev):
        k = len(self.events)
        self.events.append(ev)
        if self.fail_at is not None and k == self.fail_at:
            raise Fault(str(ev))

    @contextlib.contextmanager
    def installed(self):
        import h5py
        import pandas as pd

        import black_it.utils.json_pandas_checkpointing as jp

        fs = self
        o_open, o_csv, o_init = pathlib.Path.open, pd.DataFrame.to_csv, h5py.File.__init__
        o_resize, o_set, o_create, o_replace = (h5py.Dataset.resize, h5py.Dataset.__setitem__, h5py.Group.create_dataset,
                                                os.replace)

        def p_open(self, mode="r", *a, **k):
            if str(self).startswith(fs.folder):
                fs.tick(("open", self.name, mode))
            return o_open(self, mode, *a, **k)

        def p_csv(self, path_or_buf=None, *a, **k):
            fs.tick(("to_csv", Path(path_or_buf).name))
            return o_csv(self, path_or_buf, *a, **k)

        def p_init(self, name, mode="r", *a, **k):
            if isinstance(name, (str, bytes, os.PathLike)):
                fs.tick(("h5file", Path(os.fsdecode(name)).name, mode))
            return o_init(self, name, mode, *a, **k)

        def p_resize(self, *a, **k):
            fs.tick(("h5resize",))
            return o_resize(self, *a, **k)

        def p_set(self, *a, **k):
            fs.tick(("h5setitem",))
            return o_set(self, *a, **k)

        def p_create(self, *a, **k):
            fs.tick(("h5create_dataset",))
            return o_create(self, *a, **k)

        def p_replace(src, dst, *a, **k):
            fs.tick(("replace", Path(src).name, Path(dst).name))
            return o_replace(src, dst, *a, **k)

        class JsonShim:
            def __getattr__(self, n):
                return getattr(json, n)

            @staticmethod
            def dump(obj, f, *a, **k):
                fs.tick(("json.dump", Path(f.name).name))
                return json.dump(obj, f, *a, **k)

        class PickleShim:
            def __getattr__(self, n):
                return getattr(pickle, n)

            @staticmethod
            def dump(obj, f, *a, **k):
                fs.tick(("pickle.dump", Path(f.name).name))
                return pickle.dump(obj, f, *a, **k)

        pathlib.Path.open, pd.DataFrame.to_csv, h5py.File.__init__ = p_open, p_csv, p_init
        h5py.Dataset.resize, h5py.Dataset.__setitem__, h5py.Group.create_dataset = p_resize, p_set, p_create
        os.replace = p_replace
        jp.json, jp.pickle = JsonShim(), PickleShim()
        try:
            yield self
        finally:
            pathlib.Path.open, pd.DataFrame.to_csv, h5py.File.__init__ = o_open, o_csv, o_init
            h5py.Dataset.resize, h5py.Dataset.__setitem__, h5py.Group.create_dataset = o_resize, o_set, o_create
            os.replace = o_replace
            jp.json, jp.pickle = json, pickle


def ev_op(ev):
    """Observed event -> model operation (Coq literal), None if the event is not one the model knows."""
    k = ev[0]
    if k == "open":
        f = FILE_TOK.get(ev[1])
        if f is None:
            return None
        if ev[2] in ("w", "wb"):
            return f"OpenTrunc {f}"
        if ev[2] in ("rb", "r"):
            return f"Digest {f}"
        return None
    if k in ("json.dump", "pickle.dump"):
        f = FILE_TOK.get(ev[1])
        return None if f is None else f"Write {f}"
    if k == "to_csv":
        return "OpenTrunc FCsv" if ev[1] == CSV else None
    if k == "h5file":
        return {"a": "H5OpenRW", "w": "H5Create"}.get(ev[2]) if ev[1] == H5 else None
    if k == "replace":
        return "Replace" if (ev[1], ev[2]) == (TMP, JSON) else None
    return {"h5resize": "H5Resize", "h5setitem": "H5WriteRows", "h5create_dataset": "H5CreateDataset"}.get(k)


def ev_name(ev):
    """Human name of the state reached when event `ev` has completed (used in finding descriptors)."""
    k = ev[0]
    if k == "open":
        return f"{ev[1]}:truncated" if ev[2] in ("w", "wb") else f"{ev[1]}:digested"
    if k in ("json.dump", "pickle.dump", "to_csv"):
        return f"{ev[1]}:complete"
    if k == "h5file":
        return f"{ev[1]}:opened"
    if k == "replace":
        return f"{ev[2]}:replaced"
    return {"h5resize": f"{H5}:resized", "h5setitem": f"{H5}:complete", "h5create_dataset": f"{H5}:complete"}[k]


# ------------------------------------------------------------------------------------------------ states
def arr(a):
    a = np.asarray(a, dtype=float)
    return (a.shape, a.tobytes())


def full_view(cal):
    """Every persisted / observable attribute of a calibrator, grouped by the file that carries it."""
    sch = cal.scheduler
    gen = copy.deepcopy(cal.random_generator)
    return {
        "J": (int(cal.n_sampled_params), int(cal.current_batch_index), cal.ensemble_size, cal.N, cal.D, cal.convergence_precision,
              cal.verbose, cal.saving_folder, cal.random_state, json.dumps(cal.random_generator.bit_generator.state, sort_keys=True),
              int(gen.integers(2**62)), cal.n_jobs, arr(cal.param_grid.parameters_bounds),
              arr(cal.param_grid.parameters_precision), arr(cal.real_data), tuple(sorted(cal.samplers_id_table.items())),
              cal.model.__name__),
        "S": (type(sch).__name__, getattr(sch, "_batch_id", None),
              tuple((type(s).__name__, getattr(s, "tok_uid", None), getattr(s, "tok_calls", None), s.random_state, s.batch_size,
                     s.max_deduplication_passes) for s in sch.samplers)),
        "L": (type(cal.loss_function).__name__, tuple(float(x).hex() for x in cal.loss_function.palette),   # hex: nan == nan
              cal.loss_function.salt, sorted(k for k in vars(cal.loss_function) if k not in ("palette", "salt", "bad"))),
        "R": (arr(cal.params_samp), arr(cal.losses_samp), arr(cal.batch_num_samp), arr(cal.method_samp)),
        "H": arr(cal.series_samp),
    }


def csv_rows(cal):
    p = np.asarray(cal.params_samp, dtype=float)
    return [(float(cal.losses_samp[i]), int(cal.batch_num_samp[i]), int(cal.method_samp[i]), p[i].tobytes())
            for i in range(len(cal.losses_samp))]


def h5_rows(cal):
    s = np.asarray(cal.series_samp, dtype=float)
    return [s[i].tobytes() for i in range(s.shape[0])]


def make_calibrator(spec):
    from black_it.calibrator import Calibrator

    if spec.get("rich"):
        return make_rich(spec)
    cc.G.update(fault=None, model_calls=0, loss_calls=0)
    loss = cc.TokLoss(spec["palette"], spec["salt"])
    samplers = [cc.make_sampler(s) for s in spec["samplers"]]
    with contextlib.redirect_stdout(io.StringIO()):
        cal = Calibrator(loss_function=loss, real_data=np.zeros((2, 1)), model=cc.tok_model, parameters_bounds=[[0.0], [10.0]],
                         parameters_precision=[1.0], ensemble_size=spec["E"], samplers=samplers,
                         convergence_precision=spec.get("prec"), verbose=bool(spec.get("verbose", True)),
                         random_state=spec["seed"], n_jobs=1)
    return cal


def apply_ops(cal, ops):
    with contextlib.redirect_stdout(io.StringIO()):
        for op in ops:
            if op[0] == "calibrate":
                cal.calibrate(op[1])
            elif op[0] == "set_samplers":
                cal.set_samplers([cc.make_sampler(s) for s in op[1]])
            elif op[0] == "set_attr":         # a public attribute reassigned after construction
                target = {"cal": cal, "loss": cal.loss_function, "sampler0": cal.scheduler.samplers[0]}[op[1]]
                setattr(target, op[2], op[3])
            elif op[0] == "edit_series":      # the caller changes the stored series in place
                ser = cal.series_samp
                r = op[2] % ser.shape[0]
                flat = ser[r].reshape(-1)
                if op[1] == "ulp":
                    flat[0] = np.nextafter(flat[0], np.inf)
                elif op[1] == "negzero":
                    flat[-1] = -0.0 if (flat[-1] == 0.0 and not np.signbit(flat[-1])) else -flat[-1]
                elif op[1] in ("zero_neg", "zero_pos"):   # the same entry is 0.0 in one run and -0.0 in the other
                    flat[-1] = -0.0 if op[1] == "zero_neg" else 0.0
                else:
                    flat[0] = flat[0] + 1.0
            elif op[0] == "edit_loss":        # one stored loss replaced by a value printed with the same number of characters
                cal.losses_samp[op[1] % len(cal.losses_samp)] = op[2]


def save(cal, folder, fs=None):
    with contextlib.redirect_stdout(io.StringIO()):
        if fs is None:
            cal.create_checkpoint(str(folder))
        else:
            with fs.installed():
                cal.create_checkpoint(str(folder))


def restore(folder, model=None, raw=False):
    from black_it.calibrator import Calibrator

    try:
        with contextlib.redirect_stdout(io.StringIO()), contextlib.redirect_stderr(io.StringIO()):
            c = Calibrator.restore_from_checkpoint(folder if raw else str(folder), model=model or cc.tok_model)
        return None, c
    except Exception as e:  # noqa: BLE001
        return f"{type(e).__name__}: {str(e)[:160]}", None


def strip_digests(folder):
    """Turn the checkpoint in `folder` into one written by a version of the library that recorded no digests."""
    p = Path(folder) / JSON
    cp = json.loads(p.read_text())
    cp.pop("files_sha256", None)
    p.write_text(json.dumps(cp))


def classify(folder, v0, v1, model=None, raw=False):
    err, c = restore(folder, model, raw)
    if err:
        return "Error", err
    try:
        v = full_view(c)
    except Exception as e:  # noqa: BLE001
        return "Hybrid", f"restored object cannot be inspected: {type(e).__name__}: {e}"
    if v0 is not None and v == v0:
        return "Old", None
    if v == v1:
        return "New", None
    d0 = None if v0 is None else [k for k in v if v[k] != v0[k]]
    d1 = [k for k in v if v[k] != v1[k]]
    return "Hybrid", f"differs from previous in {d0}, from new in {d1}; counters n_sampled={v['J'][0]} batch={v['J'][1]} " \
                     f"rows csv={v['R'][1][0][0]} h5={v['H'][0][0]}"


# ------------------------------------------------------------------------------------------------ scenarios
def gen_scenario(rng, idx, kind):
    """kind: same_run | fresh | no_new_rows | other_run_empty"""
    def spec():
        ns = rng.randint(1, 3)
        return {"samplers": cc.gen_samplers(rng, ns, 0, 3), "E": rng.randint(1, 2), "seed": rng.below(2**31),
                "palette": [rng.choice([3.5, 1.25, 0.75, 2.0, 10.0, 0.375, 7.0, 0.0]) for _ in range(rng.randint(3, 6))],
                "salt": rng.below(1000), "prec": None, "verbose": bool(rng.below(2))}
    sc = {"idx": idx, "kind": kind, "spec": spec(), "pre": [], "mid": [], "spec0": None}
    a, b = rng.randint(0, 3), rng.randint(1, 3)
    if kind == "same_run":
        sc["pre"], sc["mid"] = [["calibrate", a]], [["calibrate", b]]
        if rng.below(4) == 0:
            sc["mid"].append(["set_samplers", cc.gen_samplers(rng, rng.randint(1, 2), 10, 3)])
    elif kind == "fresh":
        sc["pre"], sc["mid"] = None, [["calibrate", a + b - 1]]
    elif kind == "no_new_rows":
        sc["pre"], sc["mid"] = [["calibrate", max(a, 1)]], [["set_samplers", cc.gen_samplers(rng, rng.randint(1, 2), 10, 3)]]
    else:  # a checkpoint of another run that has no rows yet (its series file is a prefix of anything)
        sc["spec0"] = spec()
        sc["spec0"]["E"] = sc["spec"]["E"]
        sc["pre"], sc["mid"] = [], [["calibrate", b]]
    return sc


class Scenario:
    """Builds s0 (folder `old`), s1 (live calibrator), the event trace of a complete save and the folder `full`."""

    def __init__(self, sc, root):
        self.sc, self.root = sc, Path(root)
        if self.root.exists():
            shutil.rmtree(self.root)
        self.root.mkdir(parents=True)
        self.old, self.full, self.work = self.root / "old", self.root / "full", self.root / "work"
        self.has_prev = sc["pre"] is not None
        self.v0 = self.rows0 = self.h0 = None
        cal = make_calibrator(sc["spec"])
        self.model = cal.model
        self.oldfmt = bool(sc.get("oldfmt"))
        if self.has_prev:
            cal0 = make_calibrator(sc["spec0"]) if sc["spec0"] else cal
            apply_ops(cal0, sc["pre"])
            save(cal0, self.old)
            if self.oldfmt:
                strip_digests(self.old)
            self.v0, self.rows0, self.h0 = full_view(cal0), csv_rows(cal0), h5_rows(cal0)
            self.cal0 = copy.deepcopy(cal0)        # to re-commit the previous checkpoint in place (see run_event)
            if sc.get("restored"):                 # the run goes on from the object restore_from_checkpoint returns
                err, cal = restore(self.old, self.model)
                if err:
                    raise RuntimeError(f"the previous checkpoint cannot be restored: {err}")
        else:
            self.old.mkdir()
        if sc["spec0"]:
            apply_ops(cal, sc.get("pre1", []))
        apply_ops(cal, sc["mid"])
        self.cal = cal
        self.v1, self.rows1, self.h1 = full_view(cal), csv_rows(cal), h5_rows(cal)
        shutil.copytree(self.old, self.full)
        fs = FaultFS(self.full)
        self.complete_error = None
        try:
            save(cal, self.full, fs)
        except Exception as e:  # noqa: BLE001
            self.complete_error = f"{type(e).__name__}: {str(e)[:160]}"
        self.events = fs.events
        self.sanity = {"old": classify(self.old, self.v0, self.v1, self.model)[0] if self.has_prev else None}
        # token ids
        rid, hid = {}, {}
        tok = lambda d, x: d.setdefault(x, len(d))  # noqa: E731
        self.t_rows0 = [tok(rid, r) for r in (self.rows0 or [])]
        self.t_rows1 = [tok(rid, r) for r in self.rows1]
        self.t_h0 = [tok(hid, r) for r in (self.h0 or [])]
        self.t_h1 = [tok(hid, r) for r in self.h1]
        s1 = np.asarray(cal.series_samp, dtype=float)
        self.t_zrow = tok(hid, np.zeros(s1.shape[1:]).tobytes())
        eq = lambda k: 0 if (self.v0 is not None and self.v0[k] == self.v1[k]) else 1  # noqa: E731
        self.t_s0 = (0, 0, 0, 0, self.t_rows0, self.t_h0)
        self.t_s1 = (eq("J"), eq("S"), eq("L"), 0, self.t_rows1, self.t_h1)
        self.prefix = self.t_h0 == self.t_h1[:len(self.t_h0)]
        # the model identifies "same component" with "same file bytes" (digests): check that the two notions agree here
        self.view_bytes_disagree = [k for k, f in (("S", SCHED), ("L", LOSS)) if self.has_prev and
                                    ((self.old / f).read_bytes() == (self.full / f).read_bytes()) != (self.v0[k] == self.v1[k])]
        # write order of the files of a complete save
        self.order = []
        for ev in self.events:
            op = ev_op(ev)
            if op and (op.startswith("OpenTrunc") or op in ("H5OpenRW", "H5Create")):
                f = H5 if op.startswith("H5") else ev[1]
                if f not in self.order:
                    self.order.append(f)

    def fresh_work(self):
        if self.work.exists():
            shutil.rmtree(self.work)
        shutil.copytree(self.old, self.work)
        return self.work

    def run_event(self, i):
        d = self.fresh_work()
        if self.has_prev and i % 2 == 0:
            # half of the crash points: the previous checkpoint is committed by a real save into this very folder, in this
            # very process, as it is when a calibration runs - anything the library remembers per folder is then in play
            shutil.rmtree(d)
            save(self.cal0, d)
            if self.oldfmt:
                strip_digests(d)
            if classify(d, self.v0, self.v1, self.model)[0] != "Old":
                shutil.rmtree(d)
                shutil.copytree(self.old, d)
        fs = FaultFS(d, fail_at=i)
        raised = False
        try:
            save(self.cal, d, fs)
        except Fault:
            raised = True
        return raised, classify(d, self.v0, self.v1, self.model)

    def run_cut(self, fname, b):
        """files written before `fname` complete, `fname` = first b bytes of its complete new content, rest old"""
        d = self.fresh_work()
        k = self.order.index(fname)
        for g in self.order[:k]:
            if g != TMP:
                shutil.copy(self.full / g, d / g)
        (d / fname).write_bytes(self.new_bytes(fname)[:b])
        return classify(d, self.v0, self.v1, self.model)

    def new_bytes(self, fname):
        return (self.full / (JSON if fname == TMP else fname)).read_bytes()

    def cleanup(self):
        shutil.rmtree(self.root, ignore_errors=True)


def csv_cut_point(data, b):
    """(model cut literal, label) for the first b bytes of the csv text `data` (0 < b < len)."""
    lines = data.split(b"\n")  # last element is b"" (file ends with a newline)
    hdr = len(lines[0])
    if b < hdr:
        return "CutHeader", "cut-in-header"
    if b <= hdr + 1:
        return "(CutRows 0 false)", "cut-at-line-boundary"
    if b == len(data) - 1 and len(lines) > 2:
        # only the terminator of the last line is missing: its values are all there, its bytes are not (the repaired order
        # compares bytes, so this is a cut line, not a complete one)
        return f"(CutRows {len(lines) - 3} true)", "cut-mid-line"
    pos = hdr + 1
    for j, ln in enumerate(lines[1:-1]):
        end = pos + len(ln)  # line j occupies [pos, end), its newline is at `end`
        if b == pos:
            return f"(CutRows {j} false)", "cut-at-line-boundary"
        if b < end:
            return f"(CutRows {j} true)", "cut-mid-line"
        if b == end:
            return f"(CutRows {j + 1} false)", "cut-at-line-boundary"
        pos = end + 1
    return f"(CutRows {len(lines) - 2} false)", "cut-at-line-boundary"


def cut_positions(rng, fname, data, tier):
    n = len(data)
    if n == 0:
        return []
    if tier == "thorough" and fname != H5:
        return list(range(n))
    if tier.startswith("r4") and fname in (SCHED, LOSS, TMP, JSON):
        # the readers of these files were swept byte by byte in the first scenarios; here a few positions per file
        return sorted({0, 1, n // 2, n - 1} | {rng.below(n) for _ in range(2)})
    want = {"quick": 24, "r4quick": 12, "r4thorough": 48}.get(tier, 256)
    pos = {0, 1, 2, n - 1, n - 2, n // 2}
    if fname == CSV:
        nl = [i for i, c in enumerate(data) if c == 10]
        for i in nl:
            pos.update((i, i + 1, i - 1))
        pos.add(nl[0] // 2)
    if fname == H5:
        pos.update(x for x in (8, 16, 40, 48, 96, 512, 1024, 2048, 2049, n - 8, n - 64) if 0 <= x < n)
    pos = {p for p in pos if 0 <= p < n}
    while len(pos) < min(want, n):
        pos.add(rng.below(n))
    return sorted(pos)


# ------------------------------------------------------------------------------------------------ Coq literals
def c_state(t):
    return (f"(mkState _ _ _ _ _ _ {cnat(t[0])} {cnat(t[1])} {cnat(t[2])} {cnat(t[3])} "
            f"{clist([cnat(x) for x in t[4]])} {clist([cnat(x) for x in t[5]])})")


def c_case(s, point, obs, expect):
    ops = [ev_op(e) for e in s.events]
    evs = clist([o if o else "Close FTmp" for o in ops])  # an unknown event can never match a write order
    exp = "None" if expect is None else f"(Some {expect})"
    return (f"(mkCase {cbool(s.has_prev)} {evs} {cnat(s.t_zrow)} {c_state(s.t_s0)} {c_state(s.t_s1)} {point} {exp} "
            f"{CLS[obs]})")


# ------------------------------------------------------------------------------------------------ SQLite
class SqlProxy:
    """Stands for the sqlite3 module inside sqlite3_checkpointing: connections count and fail statements."""

    def __init__(self, fail_at=None, after=False):
        import sqlite3

        self.real, self.fail_at, self.after, self.events = sqlite3, fail_at, after, []

    def __getattr__(self, n):
        return getattr(self.real, n)

    def connect(self, *a, **k):
        return _Conn(self, self.real.connect(*a, **k))

    def step(self, ev, thunk):
        k = len(self.events)
        self.events.append(ev)
        hit = self.fail_at is not None and k == self.fail_at
        if hit and not self.after:
            raise Fault(str(ev))
        r = thunk()
        if hit:
            raise Fault(str(ev))
        return r


class _Conn:
    def __init__(self, px, conn):
        self.px, self.conn = px, conn

    def cursor(self):
        return _Cur(self.px, self.conn.cursor())

    def commit(self):
        return self.px.step(("commit",), self.conn.commit)

    def __getattr__(self, n):
        return getattr(self.conn, n)


class _Cur:
    def __init__(self, px, cur):
        self.px, self.cur = px, cur

    def execute(self, sql, *a):
        return self.px.step(("execute", sql_kind(sql)), lambda: self.cur.execute(sql, *a))

    def executescript(self, sql):
        return self.px.step(("executescript", "DELETE" in sql.upper()), lambda: self.cur.executescript(sql))

    def __getattr__(self, n):
        return getattr(self.cur, n)


def sql_kind(sql):
    w = sql.strip().split()[0].upper()
    return w if w in ("PRAGMA", "INSERT", "DELETE", "SELECT") else "OTHER"


def sql_stmt(ev):
    if ev[0] == "commit":
        return "SCommit"
    if ev[0] == "executescript":
        return f"(SScript {cbool(ev[1])})"
    return {"PRAGMA": "SPragma", "INSERT": "SInsert", "DELETE": "SDelete"}.get(ev[1], "SCommit")  # unknown never matches twice


def sql_state(rng, tag):
    n, e = rng.randint(0, 4), rng.randint(1, 2)
    g = np.random.default_rng(rng.below(2**31))
    return [np.array([[0.0, 1.0], [1.0, 2.0]]).T, np.array([0.5, 0.25]), g.standard_normal((5, 2)), e, 5, 2,
            rng.choice([None, 0.1]), bool(rng.below(2)), f"folder{tag}", rng.below(100), g.bit_generator.state, "model",
            [f"sampler{tag}", rng.below(10)], f"loss{tag}", n, g.random((n, 2)), g.random(n), g.random((n, e, 5, 2)),
            np.arange(n), np.arange(n) % 2]


def sql_equal(loaded, st):
    if loaded is None or len(loaded) != len(st):
        return False
    for a, b in zip(loaded, st):
        if isinstance(b, np.ndarray):
            if not (isinstance(a, np.ndarray) and a.shape == b.shape and a.dtype == b.dtype and a.tobytes() == b.tobytes()):
                return False
        elif isinstance(b, bool):
            if bool(a) != b:
                return False
        elif a != b:
            return False
    return True


def sql_run(folder, s0, s1, fault):
    """fault = None | (i, after). Returns (events, raised, outcome) with outcome in SErr/SOld/SNew/SOther."""
    import black_it.utils.sqlite3_checkpointing as sq

    if Path(folder).exists():
        shutil.rmtree(folder)
    if s0 is not None:
        sq.save_calibrator_state(folder, *s0)
    px = SqlProxy(*(fault if fault else (None, False)))
    sq.sqlite3 = px
    raised = False
    try:
        sq.save_calibrator_state(folder, *s1)
    except Fault:
        raised = True
    finally:
        sq.sqlite3 = px.real
    try:
        loaded = sq.load_calibrator_state(folder)
        out = "SOld" if (s0 is not None and sql_equal(loaded, s0)) else "SNew" if sql_equal(loaded, s1) else "SOther"
        detail = None
    except Exception as e:  # noqa: BLE001
        out, detail = "SErr", f"{type(e).__name__}: {str(e)[:120]}"
    return px.events, raised, out, detail


def sql_large(chk, stats):
    """A previous checkpoint larger than SQLite's page cache: a failed save must still leave it loadable (a rollback that only
    works while everything fits in memory is not a rollback)."""
    g = np.random.default_rng(int(chk.rng.below(2**31)))     # data only
    n, e = 30000, 2

    def st(tag, n):
        return [np.array([[0.0, 1.0], [1.0, 2.0]]).T, np.array([0.5, 0.25]), g.standard_normal((5, 2)), e, 5, 2, None, True,
                f"folder{tag}", 7, np.random.default_rng(1).bit_generator.state, "model", [f"sampler{tag}", 1], f"loss{tag}", n,
                g.random((n, 2)), g.random(n), g.random((n, e, 5, 2)), np.arange(n), np.arange(n) % 2]

    s0, s1 = st("A", n), st("B", n + 10)
    folder = SCRATCH / f"{os.getpid()}" / "c06_sql_large"
    events, _, out, _ = sql_run(folder, s0, s1, None)
    count = 0
    for i in range(len(events)):
        for after in (False, True):
            ev, raised, out, detail = sql_run(folder, s0, s1, (i, after))
            count += 1
            stats["sqlite-large"] += 1
            committed = after and events[i][0] == "commit"        # a failure after the commit: the new checkpoint is in place
            if raised and out != ("SNew" if committed else "SOld"):
                chk.violation({"kind": "sqlite_previous_lost", "statement": f"large:{i}:{'after' if after else 'before'}"},
                              {"failed": "oracle:sqlite", "detail": f"previous checkpoint of {n} rows (~{n * e * 80 // 2**20} MiB of series) not "
                               f"loadable after a failure {'after' if after else 'at'} statement {i}: outcome {out} {detail}",
                               "case": {"sql_large": {"statement": i, "after": after}}})
    shutil.rmtree(folder, ignore_errors=True)
    return count


# ------------------------------------------------------------------------------------------------ the check
def run_fs_scenario(chk, sc, root, recs, stats, expect):
    s = Scenario(sc, root)
    try:
        n = len(s.events)
        base = {"scenario": sc}
        if any(ev_op(e) is None for e in s.events):
            stats["unknown-events"] += 1
        if s.view_bytes_disagree:
            stats["view-vs-bytes-disagreement"] += 1
            chk.notes.append(f"scenario {sc['idx']}: components {s.view_bytes_disagree} have equal views but different pickle "
                             "bytes (or the converse); the model's digest comparison may differ from the view comparison there")
        # complete save
        recs.append({**base, "point": "PComplete", "label": "complete", "obs": classify(s.full, s.v0, s.v1, s.model), "s": s,
                     "lit": None, "kind": "complete"})
        # every operation prefix
        for i in range(n):
            raised, obs = s.run_event(i)
            label = "nothing" if i == 0 else ev_name(s.events[i - 1])
            recs.append({**base, "point": f"(PEvent {i})", "label": label, "obs": obs, "s": s, "kind": "event",
                         "raised": raised, "event": list(map(str, s.events[i]))})
        # every file cut at a byte
        for fname in s.order:
            data = s.new_bytes(fname)
            for b in cut_positions(chk.rng, fname, data, chk.tier):
                if b == 0:
                    pt, label = f"(PCut {FILE_TOK[fname]} true CutBytes)", f"{fname}:truncated"
                elif fname == CSV:
                    ct, lab = csv_cut_point(data, b)
                    pt, label = f"(PCut FCsv false {ct})", f"{fname}:{lab}"
                else:
                    pt, label = f"(PCut {FILE_TOK[fname]} false CutBytes)", f"{fname}:cut"
                recs.append({**base, "point": pt, "label": label, "obs": s.run_cut(fname, b), "s": s, "kind": "cut",
                             "file": fname, "byte": b})
        for r in recs:
            if r.get("s") is s and r.get("lit") is None:
                r["lit"] = c_case(s, r["point"], r["obs"][0], expect)
                r["tokens"] = {"s0": s.t_s0, "s1": s.t_s1, "zrow": s.t_zrow, "prefix": s.prefix, "has_prev": s.has_prev}
                r["events"] = [list(map(str, e)) for e in s.events]
    finally:
        s.cleanup()
    return s


CSV_NAME = "calibration_results.csv"


def large_file_cuts(chk, stats):
    """Files larger than any read buffer: a save torn beyond the first MiB of calibration_results.csv (whose first MiB is
    unchanged, the history being append-only) with byte-identical pickles must not be restored as a truncated history."""
    from black_it.loss_functions.minkowski import MinkowskiLoss
    from black_it.samplers.random_uniform import RandomUniformSampler
    from black_it.schedulers.round_robin import RoundRobinScheduler
    from black_it.utils.json_pandas_checkpointing import load_calibrator_state, save_calibrator_state

    rng = np.random.default_rng(int(chk.rng.below(2**31)))     # data only
    n_a, extra = 52000, 400
    root = SCRATCH / f"{os.getpid()}" / "c06_large"
    if root.exists():
        shutil.rmtree(root)
    a, b, torn = root / "a", root / "b", root / "torn"
    n_b = n_a + extra
    params = rng.random((n_b, 2))
    losses = rng.random(n_b)
    series = rng.random((n_b, 1, 3, 1))
    sched = RoundRobinScheduler([RandomUniformSampler(batch_size=extra)])
    loss = MinkowskiLoss()
    gstate = np.random.default_rng(0).bit_generator.state

    def save(folder, n, batch):
        save_calibrator_state(folder, np.array([[0.0, 0.0], [1.0, 1.0]]), np.array([0.0001, 0.0001]), np.zeros((3, 1)), 1, 3, 1, None,
                              False, None, 0, gstate, "m", sched, loss, batch, n, 1, params[:n], losses[:n], series[:n],
                              np.zeros(n, dtype=int), np.zeros(n, dtype=int))

    def summary(st):
        return (st[14], st[15], st[17].tobytes(), st[18].tobytes(), st[19].tobytes())

    with contextlib.redirect_stdout(io.StringIO()):
        save(a, n_a, 1)
        shutil.copytree(a, b)
        save(b, n_b, 2)
    va, vb = summary(load_calibrator_state(a, 1)), summary(load_calibrator_state(b, 1))
    n = 0
    for fname in (CSV_NAME, "series_samp.h5"):
        new = (b / fname).read_bytes()
        cuts = [c for c in (len(new) // 2, (1 << 20) + 4097, len(new) - 7, 1 << 20, 2 << 20, (2 << 20) + 1)
                if (1 << 20) <= c < len(new)]     # incl. exactly at the boundaries of the blocks the digest reads
        for cut in cuts:
            if torn.exists():
                shutil.rmtree(torn)
            shutil.copytree(a, torn)
            (torn / fname).write_bytes(new[:cut])
            n += 1
            stats["large-file-cut"] += 1
            try:
                v = summary(load_calibrator_state(torn, 1))
            except Exception:  # noqa: BLE001
                continue
            if v not in (va, vb):
                chk.violation({"kind": "hybrid_restore", "crash_after": f"{fname}:cut-beyond-first-MiB"},
                              {"failed": "oracle:hybrid", "detail": f"{fname} ({len(new)} bytes) cut at byte {cut} over the previous checkpoint "
                               f"restores silently: n_sampled={v[1]}, batch={v[0]}, {len(v[3]) // 8} losses",
                               "case": {"large_file_cut": {"file": fname, "byte": cut}}})
    shutil.rmtree(root, ignore_errors=True)
    return n


# ================================================================================================ round 4: generator sweep
# Scenarios the first three rounds did not reach: a previous checkpoint of another run WITH rows / of a later state /
# with rows edited in place / of another ensemble size (series file re-created), pairs that differ in one reassigned
# attribute only, a run continued from the restored object, several parameters / dimensions / sim_length / special values,
# a previous checkpoint written without digests, SEQUENCES of interrupted saves and retries, faults the code raises by
# itself in the middle of a file, differently spelled folder paths.  Model: coq/Model/CrashSeq.v (check_case2).
IMPORTS2 = "From Coq Require Import List.\nFrom BlackIt Require Import Model.CrashSeq."
SPECIALS = [-0.0, float("nan"), float("inf"), 5e-324, 100000000.5, 0.1 + 0.2, -1e-300, 1e300]


class RichLoss:
    """Loss picked from a palette by the bytes of the simulated ensemble (pure, picklable)."""

    def __init__(self, palette, salt):
        self.palette, self.salt = list(palette), salt

    def compute_loss(self, sim, real):
        import hashlib

        h = hashlib.sha256(np.ascontiguousarray(sim, dtype=float).tobytes()).digest()
        return self.palette[(int.from_bytes(h[:4], "little") + self.salt) % len(self.palette)]


def _rich_series(theta, N, seed, D):  # noqa: N803
    out = np.zeros((N, D))
    out[0, 0] = theta[0]
    out[1 % N, 0] = seed
    for k in range(2, N):
        out[k, 0] = SPECIALS[(int(seed) + k) % len(SPECIALS)]
    if D > 1:
        out[:, 1] = theta[-1]
        out[N - 1, 1] = SPECIALS[int(seed) % len(SPECIALS)]
    return out


def rich_model_d1(theta, N, seed):  # noqa: N803
    return _rich_series(theta, N, seed, 1)


def rich_model_d2(theta, N, seed):  # noqa: N803
    return _rich_series(theta, N, seed, 2)


MODELS = {1: rich_model_d1, 2: rich_model_d2}
_WIDE = None


def _wide_classes():
    """Token samplers for any number of parameters (created lazily: black_it comes from the tree under test)."""
    global _WIDE
    if _WIDE is None:
        from black_it.samplers.base import BaseSampler

        def __init__(self, uid, bs, random_state=None, n_params=1):
            BaseSampler.__init__(self, bs, random_state, max_deduplication_passes=0)
            self.tok_uid, self.tok_calls, self.n_params = uid, 0, n_params

        def sample_batch(self, batch_size, search_space, existing_points, existing_losses):
            k = self.tok_calls
            self.tok_calls += 1
            base = ((self.tok_uid * 100 + k) * 1000 + len(existing_points)) * 10
            return np.array([[float(base + r) + c / 16.0 for c in range(self.n_params)] for r in range(batch_size)], dtype=float)

        _WIDE = []
        for name in "AB":
            cls = type(f"Wide{name}", (BaseSampler,), {"__init__": __init__, "sample_batch": sample_batch})
            cls.__module__ = __name__
            globals()[f"Wide{name}"] = cls
            _WIDE.append(cls)
    return _WIDE


def make_rich(spec):
    from black_it.calibrator import Calibrator

    n_par, dim = spec["P"], spec["D"]
    wide = _wide_classes()
    samplers = [wide[s["cls"] % 2](s["uid"], s["bs"], s.get("seed"), n_par) for s in spec["samplers"]]
    with contextlib.redirect_stdout(io.StringIO()):
        return Calibrator(loss_function=RichLoss(spec["palette"], spec["salt"]),
                          real_data=np.zeros((spec["real_len"], dim), dtype=spec.get("real_dtype", "float64")),
                          model=MODELS[dim], parameters_bounds=[[0.0] * n_par, [10.0] * n_par],
                          parameters_precision=[spec["precision"]] * n_par, ensemble_size=spec["E"], samplers=samplers,
                          sim_length=spec["N"], convergence_precision=spec.get("prec"), verbose=bool(spec.get("verbose", True)),
                          random_state=spec["seed"], n_jobs=1)


def gen_spec(rng):
    ns = rng.randint(1, 3)
    return {"samplers": cc.gen_samplers(rng, ns, 0, 3), "E": rng.randint(1, 2), "seed": rng.below(2**31),
            "palette": [rng.choice([3.5, 1.25, 0.75, 2.0, 10.0, 0.375, 7.0, 0.0]) for _ in range(rng.randint(3, 6))],
            "salt": rng.below(1000), "prec": None, "verbose": bool(rng.below(2))}


def gen_rich_spec(rng, wide):
    ns = rng.randint(1, 2)
    pal = [rng.choice([3.5, 0.1 + 0.2, 1e-300, 1e300, 5e-324, -0.0, float("inf"), float("nan"), 100000000.5, 2.0, 7.25])
           for _ in range(rng.randint(4, 7))]
    return {"rich": True, "P": 12 if wide else rng.randint(1, 2), "D": 2 if wide else 1, "N": rng.randint(3, 5),
            "real_len": rng.randint(2, 6), "real_dtype": rng.choice(["float64", "float32"]),
            "precision": rng.choice([1.0, 0.25, 0.1]), "E": rng.randint(1, 3),
            "samplers": [{"cls": rng.below(2), "uid": i, "bs": rng.randint(1, 3), "seed": rng.below(1000) if rng.below(2) else None}
                         for i in range(ns)],
            "seed": rng.below(2**31), "palette": pal, "salt": rng.below(1000), "prec": rng.choice([None, 12, 20]),
            "verbose": bool(rng.below(2))}


R4_KINDS = ["other_run_rows", "later_state", "edited_rows", "edited_zero_sign", "other_ensemble", "attr_json", "attr_sampler", "attr_loss",
            "edit_loss_same_width", "edit_series_new", "restored_run", "digestless", "rich_wide", "rich_special",
            "seq_same_run", "seq_other_run", "seq_fresh", "natural_faults"]


def gen_scenario4(rng, idx, kind):
    """Scenario descriptions of round 4 (same dictionary layout as gen_scenario, more keys)."""
    sp = gen_spec(rng)
    a, b = rng.randint(1, 3), rng.randint(1, 3)
    sc = {"idx": idx, "kind": kind, "spec": sp, "pre": [["calibrate", a]], "mid": [["calibrate", b]], "spec0": None, "r4": True}
    if kind in ("other_run_rows", "seq_other_run"):     # the folder holds the checkpoint of a different run, with rows
        sc["spec0"] = gen_spec(rng)
        sc["spec0"]["E"] = sp["E"]
    elif kind == "later_state":                          # ... a LATER checkpoint of the same run (more rows than are saved now)
        sc["spec0"] = copy.deepcopy(sp)
        sc["pre"], sc["mid"] = [["calibrate", a + b]], [["calibrate", a]]
    elif kind == "edited_rows":                          # ... the same rows but for one value changed by one ulp / in sign
        sc["spec0"] = copy.deepcopy(sp)
        sc["pre"] = [["calibrate", a], ["edit_series", "ulp", rng.below(8)]]
        sc["pre1"] = [["calibrate", a]]
    elif kind == "edited_zero_sign":                     # ... the same rows but for the sign of a zero
        sc["spec0"] = copy.deepcopy(sp)
        r = rng.below(8)
        sc["pre"] = [["calibrate", a], ["edit_series", "zero_neg", r]]
        sc["pre1"] = [["calibrate", a], ["edit_series", "zero_pos", r]]
    elif kind == "other_ensemble":                       # ... series of another ensemble size (another trailing shape)
        sc["spec0"] = copy.deepcopy(sp)
        sc["spec0"]["E"] = 3 - sp["E"]
    elif kind == "attr_json":                            # only public attributes stored in the json are reassigned
        attr = rng.choice([["convergence_precision", rng.choice([0, 3, 12])], ["n_jobs", 2], ["verbose", not sp["verbose"]],
                           ["saving_folder", "some/folder"], ["random_state", rng.below(1000)]])
        sc["mid"] = [["set_attr", "cal", attr[0], attr[1]]]
    elif kind == "attr_sampler":
        sc["mid"] = [["set_attr", "sampler0", rng.choice(["max_deduplication_passes", "batch_size"]), rng.randint(4, 9)]]
    elif kind == "attr_loss":
        sc["mid"] = [["set_attr", "loss", "salt", sp["salt"] + 1 + rng.below(5)]]
    elif kind == "edit_loss_same_width":                 # csv of the same size, one digit differs
        sc["mid"] = [["edit_loss", rng.below(8), 4.5]]
    elif kind == "edit_series_new":                      # the caller edits a stored series row in place, then saves
        sc["mid"] = [["edit_series", rng.choice(["ulp", "negzero", "value"]), rng.below(8)],
                     ["set_attr", "cal", "convergence_precision", rng.choice([0, 3, 12])]]   # and reassigns an attribute
    elif kind == "restored_run":
        sc["restored"] = True
    elif kind == "digestless":
        sc["oldfmt"] = True
    elif kind in ("rich_wide", "rich_special"):
        sc["spec"] = gen_rich_spec(rng, kind == "rich_wide")
        if rng.below(2):
            sc["restored"] = True
    elif kind == "seq_fresh":
        sc["pre"] = None
    return sc


def strip_label(ev_list, i):
    return "nothing" if i == 0 else ev_name(ev_list[i - 1])


class Speller:
    """The same folder under different spellings (absolute str, Path object, relative str, through a symbolic link).
    One crash point = one spelling for every restore of that crash point (before and after the crash: anything remembered per
    spelled path is then in play) and one for the saves; the 16 combinations are cycled through."""
    HOW = ("str", "Path", "relative", "symlink")

    def __init__(self):
        self.k = 0

    def advance(self):
        self.k += 1

    def _spell(self, folder, k):
        folder = Path(folder)
        if k == 0:
            return str(folder)
        if k == 1:
            return folder
        if k == 2:
            return os.path.relpath(folder)
        link = folder.parent / (folder.name + "_lnk")
        if not link.is_symlink():
            link.symlink_to(folder, target_is_directory=True)
        return str(link)

    def restore_path(self, folder):
        k = self.k % 4
        return self._spell(folder, k), self.HOW[k]

    def save_path(self, folder):
        k = (self.k + self.k // 4) % 4
        return self._spell(folder, k), self.HOW[k]


def classify_spelled(s, d, sp):
    path, how = sp.restore_path(d)
    cls, detail = classify(path, s.v0, s.v1, s.model, raw=True)
    return cls, detail, how


def save_spelled(cal, d, fs, sp):
    path, how = sp.save_path(d)
    with contextlib.redirect_stdout(io.StringIO()):
        if fs is None:
            cal.create_checkpoint(path)
        else:
            with fs.installed():
                cal.create_checkpoint(path)
    return how


def c_stop(st):
    if st[0] == "complete":
        return "SComplete"
    if st[0] == "event":
        return f"(SEvent {cnat(st[1])})"
    return f"(SCut {st[1]} {cbool(st[2])} {st[3]})"


def c_case2(s, steps, obs):
    """steps = [(events, stop)]"""
    lit = clist([f"({clist([ev_op(e) or 'Close FTmp' for e in evs])}, {c_stop(st)})" for evs, st in steps])
    return (f"(mkCase2 {cbool(s.has_prev)} {cbool(s.oldfmt)} {cnat(s.t_zrow)} {c_state(s.t_s0)} {c_state(s.t_s1)} {lit} "
            f"{CLS[obs]})")


NATURAL = [
    # (name, target of the stop: file or None, where the code raises, mutation of the calibrator being saved)
    ("json:path-object-attribute", TMP, "in_write", lambda c: setattr(c, "saving_folder", Path("some/folder"))),
    ("json:numpy-scalar-attribute", TMP, "in_write", lambda c: setattr(c, "n_jobs", np.int64(2))),
    ("pickle:loss-unpicklable-early", LOSS, "in_write", lambda c: setattr(c.loss_function, "a_hook", lambda x: x)),
    ("pickle:loss-unpicklable-late", LOSS, "in_write",
     lambda c: (setattr(c.loss_function, "table", list(range(100000))), setattr(c.loss_function, "z_hook", lambda x: x))),
    ("pickle:sampler-unpicklable", SCHED, "in_write", lambda c: setattr(c.scheduler.samplers[0], "a_hook", lambda x: x)),
    ("csv:ragged-columns", None, "between", lambda c: setattr(c, "method_samp", c.method_samp[:-1])),
    ("h5:object-series", None, "in_op", lambda c: setattr(c, "series_samp", c.series_samp.astype(object))),
]


def run_r4_scenario(chk, sc, root, recs, stats, sp):
    """All crash points of one round-4 scenario. Appends records {case, label, obs, lit, kind...} to recs."""
    s = Scenario(sc, root)
    try:
        kind = sc["kind"]
        n = len(s.events)
        base = {"scenario": sc}

        def rec(kind_, label, obs, steps, **kw):
            recs.append({**base, "kind": kind_, "label": label, "obs": (obs[0], obs[1]), "spelling": obs[2] if len(obs) > 2 else None,
                         "lit": c_case2(s, steps, obs[0]),
                         "steps": [{"events": [list(map(str, e)) for e in evs], "stop": list(st)} for evs, st in steps],
                         "tokens": {"s0": s.t_s0, "s1": s.t_s1, "zrow": s.t_zrow, "has_prev": s.has_prev, "oldfmt": s.oldfmt},
                         "complete_error": s.complete_error, **kw})

        if kind.startswith("seq_"):
            run_sequences(chk, s, rec, stats, sp)
            return s
        if kind == "natural_faults":
            run_natural(chk, s, rec, stats, sp)
            return s
        rec("complete", "complete", classify_spelled(s, s.full, sp), [(s.events, ("complete",))], raised=False)
        for i in range(n):
            sp.advance()
            d = s.fresh_work()
            if s.has_prev and i % 2 == 0:
                shutil.rmtree(d)
                save_spelled(s.cal0, d, None, sp)
                if s.oldfmt:
                    strip_digests(d)
                if classify_spelled(s, d, sp)[0] != "Old":
                    shutil.rmtree(d)
                    shutil.copytree(s.old, d)
            fs = FaultFS(d.resolve(), fail_at=i)
            raised = False
            try:
                save_spelled(s.cal, d, fs, sp)
            except Fault:
                raised = True
            rec("event", strip_label(s.events, i), classify_spelled(s, d, sp), [(s.events, ("event", i))], raised=raised,
                event=list(map(str, s.events[i])))
        for fname in s.order:
            data = s.new_bytes(fname)
            for b in cut_positions(chk.rng, fname, data, "r4thorough" if chk.tier == "thorough" else "r4quick"):
                if b == 0:
                    st, label = ("cut", FILE_TOK[fname], True, "CutBytes"), f"{fname}:truncated"
                elif fname == CSV:
                    ct, lab = csv_cut_point(data, b)
                    st, label = ("cut", "FCsv", False, ct), f"{fname}:{lab}"
                else:
                    st, label = ("cut", FILE_TOK[fname], False, "CutBytes"), f"{fname}:cut"
                sp.advance()
                d = s.fresh_work()
                for g in s.order[:s.order.index(fname)]:
                    if g != TMP:
                        shutil.copy(s.full / g, d / g)
                (d / fname).write_bytes(data[:b])
                rec("cut", label, classify_spelled(s, d, sp), [(s.events, st)], file=fname, byte=b, raised=True)
    finally:
        s.cleanup()
    return s


def observe_save(s, d, tag):
    """The file operations of an uninterrupted save of s1 on a copy of folder d (and the exception it ends with, if any)."""
    probe = s.root / f"probe_{tag}"
    if probe.exists():
        shutil.rmtree(probe)
    shutil.copytree(d, probe, symlinks=True)
    fs = FaultFS(probe.resolve())
    err = None
    try:
        save(s.cal, probe, fs)
    except Exception as e:  # noqa: BLE001
        err = f"{type(e).__name__}: {str(e)[:120]}"
    cls = classify(probe, s.v0, s.v1, s.model)
    shutil.rmtree(probe)
    return fs.events, err, cls


def run_sequences(chk, s, rec, stats, sp):
    """An interrupted save, then a second save of the same state on what the first one left: completed, or interrupted too
    (then sometimes a third one that completes)."""
    n = len(s.events)
    quick = chk.tier == "quick"
    for i in range(n):
        d = s.fresh_work()
        try:
            save(s.cal, d, FaultFS(d.resolve(), fail_at=i))
        except Fault:
            pass
        first = s.root / "after_first"
        if first.exists():
            shutil.rmtree(first)
        shutil.copytree(d, first)
        ev2, err2, cls2 = observe_save(s, first, "a")
        lab_i = strip_label(s.events, i)
        stats["seq:retry-raises-by-itself" if err2 else "seq:retry-completes"] += 1
        rec("seq-retry", f"{lab_i} | retry", cls2 + ("str",), [(s.events, ("event", i)), (ev2, ("complete",))], raised=bool(err2),
            retry_error=err2, seq=[i, None])
        js = list(range(len(ev2))) if not quick else sorted({chk.rng.below(max(1, len(ev2))) for _ in range(3)})
        for j in js:
            if j >= len(ev2):
                continue
            shutil.rmtree(d)
            shutil.copytree(first, d)
            try:
                save(s.cal, d, FaultFS(d.resolve(), fail_at=j))
            except Fault:
                pass
            except Exception:  # noqa: BLE001
                pass
            lab_j = strip_label(ev2, j)
            sp.advance()
            steps = [(s.events, ("event", i)), (ev2, ("event", j))]
            rec("seq-crash-crash", f"{lab_i} | {lab_j}", classify_spelled(s, d, sp), steps, raised=True, seq=[i, j])
            if chk.rng.below(3) == 0:
                ev3, err3, cls3 = observe_save(s, d, "b")
                stats["seq:third-raises-by-itself" if err3 else "seq:third-completes"] += 1
                rec("seq-retry", f"{lab_i} | {lab_j} | retry", cls3 + ("str",), steps + [(ev3, ("complete",))], raised=bool(err3),
                    retry_error=err3, seq=[i, j, None])
        shutil.rmtree(first)


def run_natural(chk, s, rec, stats, sp):
    """Faults the code raises by itself while a file is being written (no injection)."""
    for name, fname, where, mutate in NATURAL:
        sp.advance()
        d = s.fresh_work()
        cal = copy.deepcopy(s.cal)
        mutate(cal)
        fs = FaultFS(d.resolve())
        err = None
        try:
            save(cal, d, fs)
        except Exception as e:  # noqa: BLE001
            err = f"{type(e).__name__}: {str(e)[:120]}"
        evs = fs.events
        if where == "in_write":
            size = (d / fname).stat().st_size if (d / fname).exists() else 0
            st = ("cut", FILE_TOK[fname], size == 0, "CutBytes")
        elif where == "in_op":
            st = ("event", len(evs) - 1)
        else:
            st = ("event", len(evs))
        stats[f"natural:{name}:{'raised' if err else 'NOT-raised'}"] += 1
        rec("natural", f"natural:{name}", classify_spelled(s, d, sp), [(s.events, st)], raised=bool(err), natural_error=err,
            observed_events=[list(map(str, e)) for e in evs])


def judge_r4(chk, recs, bad, stats):
    """Direct oracle of the property on the round-4 records, then the model correspondence."""
    for i, r in enumerate(recs):
        cls, detail = r["obs"]
        sc = r["scenario"]
        stats[f"r4:{sc['kind']}:{r['kind']}:{cls}"] += 1
        if r.get("spelling"):
            stats[f"r4:spelling:{r['spelling']}"] += 1
        case = {"backend": "fs4", "scenario": sc, "kind": r["kind"], "label": r["label"], "steps": r["steps"],
                "file": r.get("file"), "byte": r.get("byte"), "seq": r.get("seq")}
        fail = None
        completes = r["kind"] == "complete" or (r["kind"] == "seq-retry" and not r["raised"])
        if cls == "Hybrid" and not completes:
            if sc.get("oldfmt"):
                fail = ({"kind": "hybrid_over_digestless_checkpoint", "crash_after": r["label"]},
                        f"oracle:a save on top of a checkpoint written WITHOUT digests (older version of the library), interrupted "
                        f"at [{r['label']}], is restored silently as neither the previous nor the new checkpoint ({detail})")
            else:
                fail = ({"kind": "hybrid_restore", "crash_after": r["label"], "scenario": sc["kind"]},
                        f"oracle:restore after a save interrupted at [{r['label']}] ({sc['kind']}) returned silently a state that "
                        f"is neither the previous nor the new checkpoint ({detail})")
        elif completes and cls != "New" and not (r["kind"] == "complete" and r.get("complete_error")):
            fail = ({"kind": "complete_save_not_restored", "class": cls, "scenario": sc["kind"]},
                    f"oracle:restore after a save that completed ([{r['label']}], {sc['kind']}) is {cls} ({detail})")
        elif r["kind"] == "complete" and r.get("complete_error"):
            fail = ({"kind": "complete_save_raises", "scenario": sc["kind"]},
                    f"oracle:the uninterrupted save of this scenario raises: {r['complete_error']}")
        if fail:
            chk.violation(fail[0], {"failed": fail[1], "case": case, "observed": {"class": cls, "detail": detail,
                                                                                  "spelling": r.get("spelling")},
                                    "tokens": r["tokens"]})
        elif r["kind"] in ("event", "natural") and not r["raised"]:
            chk.violation({"kind": "correspondence", "name": "fault-not-propagated", "point": r["label"], "scenario": sc["kind"]},
                          {"failed": "correspondence:the exception raised inside a file operation of save_calibrator_state did not "
                                     "come out of create_checkpoint", "case": case, "observed": {"class": cls, "detail": detail}},
                          no_input=True)
        elif i in bad:
            chk.violation({"kind": "correspondence", "name": "load_class2", "point": r["label"], "scenario": sc["kind"]},
                          {"failed": "correspondence:CrashSeq.check_case2 (the operations observed in one of the saves of the sequence "
                                     "are not the ones the model predicts for the folder that save started on, or the class observed "
                                     "is not in the model's class set; the property oracle found no failing input)",
                           "case": case, "observed": {"class": cls, "detail": detail}, "tokens": r["tokens"], "coq_case": r["lit"]},
                          no_input=True)


def large_same_size(chk, stats):
    """Two checkpoints whose csv files have the SAME size and differ in one digit - in the first MiB, in the middle, in the
    last bytes: the csv of one over the files of the other must not be restored (a digest that samples part of a file, or
    trusts size / time stamps, would)."""
    from black_it.loss_functions.minkowski import MinkowskiLoss
    from black_it.samplers.random_uniform import RandomUniformSampler
    from black_it.schedulers.round_robin import RoundRobinScheduler
    from black_it.utils.json_pandas_checkpointing import load_calibrator_state, save_calibrator_state

    g = np.random.default_rng(int(chk.rng.below(2**31)))
    n = 60000
    root = SCRATCH / f"{os.getpid()}" / "c06_same_size"
    if root.exists():
        shutil.rmtree(root)
    params, losses, series = g.random((n, 2)), np.round(g.random(n), 6) + 1.0, g.random((n, 1, 2, 1))
    sched, loss = RoundRobinScheduler([RandomUniformSampler(batch_size=4)]), MinkowskiLoss()
    gstate = np.random.default_rng(0).bit_generator.state

    def save(folder, lo):
        save_calibrator_state(folder, np.array([[0.0, 0.0], [1.0, 1.0]]), np.array([0.0001, 0.0001]), np.zeros((2, 1)), 1, 2, 1, None,
                              False, None, 0, gstate, "m", sched, loss, 1, n, 1, params, lo, series,
                              np.zeros(n, dtype=int), np.zeros(n, dtype=int))

    a = root / "a"
    count = 0
    rows = (("first-MiB", 5), ("middle", n // 2), ("last-bytes", n - 1))
    for _, row in rows:
        losses[row] = 1.25                               # 1.25 -> 2.25: the same number of characters, exactly
    with contextlib.redirect_stdout(io.StringIO()):
        save(a, losses)
    size_a = (a / CSV_NAME).stat().st_size
    for where, row in rows:
        lo = losses.copy()
        lo[row] = 2.25
        b, torn = root / f"b_{where}", root / f"torn_{where}"
        shutil.copytree(a, b)
        with contextlib.redirect_stdout(io.StringIO()):
            save(b, lo)
        if (b / CSV_NAME).stat().st_size != size_a:
            stats["large-same-size:size-differs"] += 1
            continue
        for src, dst, what in ((a, b, "old csv under new json"), (b, a, "new csv under old json")):
            if torn.exists():
                shutil.rmtree(torn)
            shutil.copytree(dst, torn)
            shutil.copy(src / CSV_NAME, torn / CSV_NAME)
            os.utime(torn / CSV_NAME, ns=((dst / CSV_NAME).stat().st_atime_ns, (dst / CSV_NAME).stat().st_mtime_ns))
            count += 1
            stats["large-same-size"] += 1
            try:
                st = load_calibrator_state(torn, 1)
            except Exception:  # noqa: BLE001
                continue
            chk.violation({"kind": "hybrid_restore", "crash_after": f"{CSV_NAME}:same-size-other-content:{where}"},
                          {"failed": "oracle:hybrid", "detail": f"{what}: the two files have the same size ({size_a} bytes) and time "
                           f"stamps and differ in one digit ({where}, row {row}); the folder restores silently with loss[{row}]="
                           f"{st[18][row]!r} and the other checkpoint's json / digests",
                           "case": {"large_same_size": {"where": where, "direction": what}}})
    shutil.rmtree(root, ignore_errors=True)
    return count


# ---------------------------------------------------------------- SQLite, round 4
def sql_change_field(st, k, rng):
    """A copy of state `st` (sql_state layout) in which only field k differs."""
    s1 = [x.copy() if isinstance(x, np.ndarray) else copy.deepcopy(x) for x in st]
    v = s1[k]
    if isinstance(v, np.ndarray):
        if v.size == 0:
            s1[k] = np.zeros((1,) + v.shape[1:], dtype=v.dtype)
        elif v.dtype.kind == "f":
            flat = s1[k].reshape(-1)
            flat[rng.below(flat.size)] = np.nextafter(flat[0], np.inf) if rng.below(2) else -flat[0]
        else:
            s1[k] = v + 1
    elif isinstance(v, bool):
        s1[k] = not v
    elif v is None:
        s1[k] = 3
    elif isinstance(v, int):
        s1[k] = v + 1
    elif isinstance(v, float):
        s1[k] = None
    elif isinstance(v, str):
        s1[k] = v + "x"
    elif isinstance(v, dict):
        s1[k] = np.random.default_rng(rng.below(1000) + 1).bit_generator.state
    elif isinstance(v, list):
        s1[k] = v + ["one-more"]
    return s1


def sql_repr_state(rng, tag, how):
    """A state whose arrays come in another representation (they must be stored and given back as they are)."""
    st = sql_state(rng, tag)
    n = max(1, st[14])
    g = np.random.default_rng(rng.below(2**31))
    e = st[3]
    st[14] = n
    st[15], st[16], st[17], st[18], st[19] = g.random((n, 2)), g.random(n), g.random((n, e, 5, 2)), np.arange(n), np.arange(n) % 2
    if how == "float32":
        st[17], st[16] = st[17].astype(np.float32), st[16].astype(np.float32)
    elif how == "fortran":
        st[15], st[17] = np.asfortranarray(st[15]), np.asfortranarray(st[17])
    elif how == "strided":
        st[16], st[15] = g.random(2 * n)[::2], g.random((n, 4))[:, ::2]
    elif how == "int32":
        st[18], st[19] = st[18].astype(np.int32), st[19].astype(np.int32)
    elif how == "readonly":
        for k in (15, 16, 17, 18, 19):
            st[k].flags.writeable = False
    elif how == "special":
        st[16][0] = np.nan
        st[17].reshape(-1)[:4] = [-0.0, np.inf, 5e-324, 1e8 + 0.5]
        st[15][0, 0] = -0.0
    return st


SQL_NATURAL = [
    ("path-object-saving-folder", lambda st: st.__setitem__(8, Path("some/folder"))),
    ("seed-beyond-int64", lambda st: st.__setitem__(9, 2**70)),
    ("params-as-list", lambda st: st.__setitem__(15, st[15].tolist())),
    ("series-as-list", lambda st: st.__setitem__(17, st[17].tolist())),
    ("dict-model-name", lambda st: st.__setitem__(11, {"name": "model"})),
]


def sql_round4(chk, stats, quick):
    rng = chk.rng
    folder = SCRATCH / str(os.getpid()) / "sql4" / "db"
    lits, recs = [], []
    try:
        # (1) successive checkpoints that differ in ONE field: the completed save must be given back, a failed one must not
        s0 = sql_state(chk_rng(rng.below(2**31)), 0)
        s0[14] = max(s0[14], 1)
        for k in range(len(s0)):
            s1 = sql_change_field(s0, k, rng)
            ev, raised, out, detail = sql_run(folder, s0, s1, None)
            stats[f"sqlite4:one-field:complete:{out}"] += 1
            if out != "SNew":
                chk.violation({"kind": "sqlite_complete_save_not_restored", "outcome": out, "only_field_changed": k},
                              {"failed": f"oracle:two checkpoints that differ in field {k} only: load after the complete save of the "
                                         f"second is {out} ({detail})", "case": {"backend": "sqlite4", "one_field": k}})
            ci = [i for i, e in enumerate(ev) if e[0] == "commit"]
            if ci:
                ev2, raised, out, detail = sql_run(folder, s0, s1, (ci[0], False))
                stats[f"sqlite4:one-field:fault-at-commit:{out}"] += 1
                if out != "SOld":
                    chk.violation({"kind": "sqlite_previous_lost", "statement": "commit", "only_field_changed": k},
                                  {"failed": f"oracle:save of a checkpoint that differs in field {k} only fails at COMMIT: load gives {out} "
                                             f"({detail})", "case": {"backend": "sqlite4", "one_field": k, "fault": "commit"}})
        # (2) arrays in other representations
        for how in ("float32", "fortran", "strided", "int32", "readonly", "special"):
            a, b = sql_repr_state(chk_rng(rng.below(2**31)), 0, how), sql_repr_state(chk_rng(rng.below(2**31)), 1, how)
            ev, raised, out, detail = sql_run(folder, a, b, None)
            stats[f"sqlite4:repr:{how}:{out}"] += 1
            if out != "SNew":
                chk.violation({"kind": "sqlite_complete_save_not_restored", "outcome": out, "representation": how},
                              {"failed": f"oracle:arrays given as {how}: load after a complete save is {out} ({detail})",
                               "case": {"backend": "sqlite4", "representation": how}})
            for i in range(len(ev)):
                ev2, raised, out, detail = sql_run(folder, a, b, (i, False))
                stats[f"sqlite4:repr:{how}:fault:{out}"] += 1
                if raised and out != "SOld":
                    chk.violation({"kind": "sqlite_previous_lost", "statement": f"{i}", "representation": how},
                                  {"failed": f"oracle:arrays given as {how}: failed save at statement {i} leaves {out} ({detail})",
                                   "case": {"backend": "sqlite4", "representation": how, "fault": i}})
        # (3) faults sqlite3 raises by itself while binding the row
        for name, mutate in SQL_NATURAL:
            a, b = sql_state(chk_rng(rng.below(2**31)), 0), sql_repr_state(chk_rng(rng.below(2**31)), 1, "plain")
            mutate(b)
            import black_it.utils.sqlite3_checkpointing as sq

            if folder.parent.exists():
                shutil.rmtree(folder.parent)
            sq.save_calibrator_state(folder, *a)
            err = None
            try:
                sq.save_calibrator_state(folder, *b)
            except Exception as e:  # noqa: BLE001
                err = f"{type(e).__name__}: {str(e)[:100]}"
            try:
                out = "SOld" if sql_equal(sq.load_calibrator_state(folder), a) else "SOther"
                detail = None
            except Exception as e:  # noqa: BLE001
                out, detail = "SErr", f"{type(e).__name__}: {str(e)[:100]}"
            stats[f"sqlite4:natural:{name}:{'raised' if err else 'completed'}:{out}"] += 1
            if err and out != "SOld":
                chk.violation({"kind": "sqlite_previous_lost", "statement": f"natural:{name}"},
                              {"failed": f"oracle:the save raised by itself ({err}) and the previous checkpoint is no longer given back: "
                                         f"{out} ({detail})", "case": {"backend": "sqlite4", "natural": name}})
        # (4) sequences: failed saves one after the other, then (sometimes) one that completes
        for rep in range(2 if quick else 8):
            seed0, seed1 = rng.below(2**31), rng.below(2**31)
            for prev in (True, False):
                a = sql_state(chk_rng(seed0), 0) if prev else None
                b = sql_state(chk_rng(seed1), 1)
                ev, _, _, _ = sql_run(folder, a, b, None)
                ns = len(ev)
                seqs = [[(i, af), (j, bf)] for i in range(ns) for af in (False, True) for j, bf in
                        [(rng.below(ns), bool(rng.below(2))), (ns - 1, False)]]
                for faults in seqs:
                    for then_complete in (False, True):
                        out, detail, raised = sql_run_seq(folder, a, b, faults, then_complete)
                        recs.append({"prev": prev, "faults": faults, "then": then_complete, "out": out, "detail": detail, "events": ev,
                                     "seed0": seed0, "seed1": seed1, "raised": raised})
                        fl = clist([f"({cnat(i)}, {cbool(x)})" for i, x in faults])
                        lits.append(f"(mkSqlSeq {cbool(prev)} {clist([sql_stmt(e) for e in ev])} {fl} {cbool(then_complete)} {out})")
    finally:
        shutil.rmtree(SCRATCH / str(os.getpid()) / "sql4", ignore_errors=True)
    bad, errors = chk.coq_mismatches("C06sqlseq", IMPORTS2, "sqlseq_check", "sqlseq", lits, shard=400)
    bad = set(bad)
    for i, r in enumerate(recs):
        stats[f"sqlite4:seq:{'then-complete' if r['then'] else 'failures-only'}:{r['out']}"] += 1
        case = {"backend": "sqlite4", "s0": r["prev"], "seed0": r["seed0"], "seed1": r["seed1"], "faults": [list(f) for f in r["faults"]],
                "then_complete": r["then"]}
        committed = any(af and r["events"][i][0] == "commit" for i, af in r["faults"])
        fail = None
        if r["then"] and r["out"] != "SNew":
            fail = ({"kind": "sqlite_complete_save_not_restored", "outcome": r["out"], "after_failed_saves": True},
                    f"oracle:a save that completes after the failed saves {r['faults']} is loaded as {r['out']} ({r['detail']})")
        elif not r["then"] and r["prev"] and r["out"] not in (("SOld", "SNew") if committed else ("SOld",)):
            fail = ({"kind": "sqlite_previous_lost", "statement": "sequence-of-failed-saves"},
                    f"oracle:after the failed saves {r['faults']} the previous checkpoint is not given back: {r['out']} ({r['detail']})")
        elif r["out"] == "SOther":
            fail = ({"kind": "sqlite_hybrid"}, "oracle:the loaded row is neither the previous nor the new checkpoint")
        if fail:
            chk.violation(fail[0], {"failed": fail[1], "case": case, "observed": {"outcome": r["out"], "detail": r["detail"]}})
        elif not all(r["raised"]):
            chk.violation({"kind": "correspondence", "name": "sql-fault-not-propagated", "statement": "sequence"},
                          {"failed": "correspondence:an exception injected into a statement of the SQLite save did not come out of "
                                     "save_calibrator_state", "case": case}, no_input=True)
        elif i in bad:
            chk.violation({"kind": "correspondence", "name": "sqlseq_check", "faults": str(r["faults"])},
                          {"failed": "correspondence:CrashSeq.sqlseq_check (model and implementation disagree on the outcome of this "
                                     "sequence of failed saves)", "case": case, "observed": {"outcome": r["out"]},
                           "coq_case": lits[i]}, no_input=True)
    for e in errors:
        chk.violation({"kind": "correspondence", "name": "coqc-sqlseq"}, {"failed": "correspondence:coqc", "detail": e}, no_input=True)
    return len(recs), len(bad)


def sql_run_seq(folder, s0, s1, faults, then_complete):
    import black_it.utils.sqlite3_checkpointing as sq

    if Path(folder).parent.exists():
        shutil.rmtree(Path(folder).parent)
    if s0 is not None:
        sq.save_calibrator_state(folder, *s0)
    raised = []
    for f in faults:
        px = SqlProxy(*f)
        sq.sqlite3 = px
        try:
            sq.save_calibrator_state(folder, *s1)
            raised.append(False)
        except Fault:
            raised.append(True)
        finally:
            sq.sqlite3 = px.real
    if then_complete:
        sq.save_calibrator_state(folder, *s1)
    try:
        loaded = sq.load_calibrator_state(folder)
        out = "SOld" if (s0 is not None and sql_equal(loaded, s0)) else "SNew" if sql_equal(loaded, s1) else "SOther"
        detail = None
    except Exception as e:  # noqa: BLE001
        out, detail = "SErr", f"{type(e).__name__}: {str(e)[:120]}"
    return out, detail, raised


def run_round4(chk, stats):
    """The scenarios of the generator sweep. Returns the coverage counters."""
    rng = chk.rng
    quick = chk.tier == "quick"
    root = SCRATCH / str(os.getpid()) / "r4"
    sp = Speller()
    recs = []
    kinds = list(R4_KINDS) if quick else R4_KINDS * 2
    n_extra = large_same_size(chk, stats)
    cwd = os.getcwd()
    try:
        root.mkdir(parents=True, exist_ok=True)
        os.chdir(root)                       # relative spellings are relative to the scratch area
        for i, kind in enumerate(kinds):
            run_r4_scenario(chk, gen_scenario4(rng, 1000 + i, kind), root / f"sc{i}", recs, stats, sp)
    finally:
        os.chdir(cwd)
        shutil.rmtree(root, ignore_errors=True)
    bad, errors = chk.coq_mismatches("C06r4", IMPORTS2, "check_case2", "case2", [r["lit"] for r in recs], shard=300)
    bad = set(bad)
    judge_r4(chk, recs, bad, stats)
    for e in errors:
        chk.violation({"kind": "correspondence", "name": "coqc-r4"}, {"failed": "correspondence:coqc", "detail": e}, no_input=True)
    n_sql, bad_sql = sql_round4(chk, stats, quick)
    return {"evaluations": len(recs) + n_sql + n_extra, "disagreements": len(bad) + bad_sql,
            "nontrivial": sum(1 for r in recs if r["label"] not in ("nothing", "complete")) + n_sql,
            "samples": [{"scenario": r["scenario"]["kind"], "label": r["label"], "obs": r["obs"][0]} for r in recs[:: max(1, len(recs) // 5)]][:5]}


def replay_one(chk, rep):
    """Re-run the single crash point stored in a replay file."""
    case = rep["case"]
    root = SCRATCH / str(os.getpid()) / "replay"
    if case.get("backend") in ("fs4", "sqlite4") or "large_same_size" in case:
        return replay_r4(chk, case, root)
    if case.get("backend") == "sqlite":
        ev, raised, out, detail = sql_run(root / "db", case["s0"] and sql_state(chk_rng(case["seed0"]), 0),
                                          sql_state(chk_rng(case["seed1"]), 1), tuple(case["fault"]) if case["fault"] else None)
        print(f"replay sqlite: statements={ev} raised={raised} outcome={out} {detail or ''}")
        shutil.rmtree(root, ignore_errors=True)
        return 1 if (out == "SErr" or (case["fault"] and not case["fault"][1] and case["s0"] and out != "SOld")) else 0
    s = Scenario(case["scenario"], root)
    try:
        if case["kind"] == "event":
            i = int(case["point"].strip("()").split()[1])
            _, obs = s.run_event(i)
        elif case["kind"] == "cut":
            obs = s.run_cut(case["file"], case["byte"])
        else:
            obs = classify(s.full, s.v0, s.v1, s.model)
    finally:
        s.cleanup()
    print(f"replay: crash point {case['label']} -> {obs[0]} {obs[1] or ''}")
    return 1 if obs[0] == "Hybrid" or (case["kind"] == "complete" and obs[0] != "New") else 0


def replay_r4(chk, case, root):
    """Re-run one round-4 case."""
    stats = Counter()
    if "large_same_size" in case:
        before = len(chk.violations)
        large_same_size(chk, stats)
        return 1 if len(chk.violations) > before else 0
    if case.get("backend") == "sqlite4":
        before = len(chk.violations)
        sql_round4(chk, stats, True)
        print(f"replay sqlite4: the SQLite scenarios of round 4 were re-run; new violations: {len(chk.violations) - before}")
        return 1 if len(chk.violations) > before else 0
    recs = []
    cwd = os.getcwd()
    try:
        root.mkdir(parents=True, exist_ok=True)
        os.chdir(root)
        run_r4_scenario(chk, case["scenario"], root / "sc", recs, stats, Speller())
    finally:
        os.chdir(cwd)
        shutil.rmtree(root, ignore_errors=True)
    hits = [r for r in recs if r["kind"] == case["kind"] and r["label"] == case["label"] and r.get("byte") == case.get("byte")
            and r.get("seq") == case.get("seq")]
    bad = 0
    for r in hits:
        completes = r["kind"] == "complete" or (r["kind"] == "seq-retry" and not r["raised"])
        print(f"replay: [{r['label']}] ({r['scenario']['kind']}) -> {r['obs'][0]} {r['obs'][1] or ''}")
        if (r["obs"][0] == "Hybrid" and not completes) or (completes and r["obs"][0] != "New"):
            bad = 1
    if not hits:
        print("replay: the crash point of the replay file was not reached again")
    return bad


def chk_rng(seed):
    from common import SplitMix64

    return SplitMix64(seed)


def run(chk, replay=None):
    chk.proof_gate(extra_targets=["Model/Crash.vo"])
    if replay:
        try:
            return replay_one(chk, json.loads(open(replay).read()))
        finally:
            shutil.rmtree(SCRATCH / str(os.getpid()), ignore_errors=True)
    rng = chk.rng
    quick = chk.tier == "quick"
    root = SCRATCH / str(os.getpid())
    stats = Counter()
    n_large = large_file_cuts(chk, stats)
    n_large += sql_large(chk, stats)
    recs = []
    kinds = ["same_run"] * 4 + ["fresh", "no_new_rows", "other_run_empty"]
    n_sc = 14 if quick else 21
    scenarios = [gen_scenario(rng, i, kinds[i % len(kinds)]) for i in range(n_sc)]
    try:
        for sc in scenarios:
            run_fs_scenario(chk, sc, root / f"sc{sc['idx']}", recs, stats, None)
    finally:
        shutil.rmtree(root, ignore_errors=True)
    lits = [r["lit"] for r in recs]
    bad, errors = chk.coq_mismatches("C06", IMPORTS, "check_case", "case", lits, shard=300)
    bad = set(bad)
    # which write order does the tree implement (as detected by the model from the observed operations)?
    s_any = recs[0]["s"]
    vals, err = chk.coq_eval("C06v", IMPORTS, [f"detect true {clist([ev_op(e) or 'Close FTmp' for e in r['s'].events])}"
                                                 for r in recs if r["kind"] == "complete" and r["s"].has_prev][:1])
    variant = (vals[0] if vals else None) or "unknown"
    hybrid_points = Counter()
    for i, r in enumerate(recs):
        cls, detail = r["obs"]
        s = r.pop("s")
        stats[f"{r['kind']}:{cls}"] += 1
        stats[f"scenario:{r['scenario']['kind']}"] += 1
        case = {"backend": "fs", "scenario": r["scenario"], "kind": r["kind"], "point": r["point"], "label": r["label"],
                "file": r.get("file"), "byte": r.get("byte")}
        fail = None
        if cls == "Hybrid" and not (r["kind"] == "complete"):
            fail = ({"kind": "hybrid_restore", "crash_after": r["label"]},
                    f"oracle:restore after a save interrupted at [{r['label']}] returned silently a state that is neither the "
                    f"previous nor the new checkpoint ({detail})")
        elif r["kind"] == "complete" and cls != "New":
            fail = ({"kind": "complete_save_not_restored", "class": cls},
                    f"oracle:restore after a complete save is {cls} ({detail})")
        swallowed = r["kind"] == "event" and not r["raised"]
        if fail:
            hybrid_points[r["label"]] += 1
            chk.violation(fail[0], {"failed": fail[1], "case": case, "observed": {"class": cls, "detail": detail},
                                    "tokens": r["tokens"], "events": r["events"]})
        elif swallowed:
            chk.violation({"kind": "correspondence", "name": "fault-not-propagated", "point": r["label"]},
                          {"failed": "correspondence:the exception injected into a file operation of save_calibrator_state did not "
                                     "come out of create_checkpoint (the model's save stops at the failing operation)",
                           "case": case, "observed": {"class": cls, "detail": detail}, "events": r["events"]}, no_input=True)
        elif i in bad:
            chk.violation({"kind": "correspondence", "name": "load_class", "point": r["label"]},
                          {"failed": "correspondence:Crash.check_case (the model's class set for this crash point does not contain "
                                     "the class observed on the implementation, or the observed file operations match neither "
                                     "write order of the model; the property oracle found no failing input)",
                           "case": case, "observed": {"class": cls, "detail": detail}, "tokens": r["tokens"],
                           "events": r["events"], "coq_case": r["lit"]}, no_input=True)
    for e in errors:
        chk.violation({"kind": "correspondence", "name": "coqc"}, {"failed": "correspondence:coqc", "detail": e}, no_input=True)

    # ---------------- SQLite
    sql_lits, sql_recs = [], []
    sroot = SCRATCH / str(os.getpid()) / "sql"
    try:
        for k in range(3 if quick else 12):
            seed0, seed1 = rng.below(2**31), rng.below(2**31)
            for prev in (True, False):
                s0 = sql_state(chk_rng(seed0), 0) if prev else None
                s1 = sql_state(chk_rng(seed1), 1)
                ev, raised, out, detail = sql_run(sroot / "db", s0, s1, None)
                faults = [None] + [(i, a) for i in range(len(ev)) for a in (False, True)]
                for f in faults:
                    ev2, raised, out, detail = sql_run(sroot / "db", s0, s1, f) if f else (ev, raised, out, detail)
                    sql_recs.append({"prev": prev, "fault": f, "events": ev, "out": out, "detail": detail, "raised": raised,
                                     "seed0": seed0, "seed1": seed1})
                    flit = "None" if f is None else f"(Some ({cnat(f[0])}, {cbool(f[1])}))"
                    sql_lits.append(f"(mkSql {cbool(prev)} {clist([sql_stmt(e) for e in ev])} {flit} None {out})")
    finally:
        shutil.rmtree(SCRATCH / str(os.getpid()), ignore_errors=True)
    sbad, serrors = chk.coq_mismatches("C06sql", IMPORTS, "sql_check", "sqlcase", sql_lits, shard=400)
    sbad = set(sbad)
    for i, r in enumerate(sql_recs):
        stats[f"sqlite:{'complete' if r['fault'] is None else 'fault'}:{r['out']}"] += 1
        case = {"backend": "sqlite", "s0": r["prev"], "seed0": r["seed0"], "seed1": r["seed1"],
                "fault": list(r["fault"]) if r["fault"] else None}
        f = r["fault"]
        stmt = None if f is None else (r["events"][f[0]][1] if r["events"][f[0]][0] == "execute" else r["events"][f[0]][0])
        fail = None
        if f is None and r["out"] != "SNew":
            fail = ({"kind": "sqlite_complete_save_not_restored", "outcome": r["out"]}, "oracle:load after a complete SQLite save "
                    f"is {r['out']} ({r['detail']})")
        elif f is not None and r["raised"] and r["prev"] and not f[1] and r["out"] != "SOld":
            fail = ({"kind": "sqlite_previous_lost", "statement": str(stmt)},
                    f"oracle:the save failed with an exception in statement {f[0]} ({stmt}) and the previous checkpoint is no "
                    f"longer loadable: {r['out']} ({r['detail']})")
        elif f is not None and r["raised"] and r["prev"] and f[1] and r["out"] not in ("SOld", "SNew"):
            fail = ({"kind": "sqlite_previous_lost", "statement": f"after:{stmt}"},
                    f"oracle:an exception right after statement {f[0]} ({stmt}) leaves neither the previous nor the new "
                    f"checkpoint loadable: {r['out']} ({r['detail']})")
        elif r["out"] == "SOther":
            fail = ({"kind": "sqlite_hybrid"}, "oracle:the loaded row is neither the previous nor the new checkpoint")
        if not fail and f is not None and not r["raised"]:
            chk.violation({"kind": "correspondence", "name": "sql-fault-not-propagated", "statement": str(stmt)},
                          {"failed": "correspondence:the exception injected into a statement of the SQLite save did not come out "
                                     "of save_calibrator_state", "case": case,
                           "observed": {"outcome": r["out"], "statements": [list(map(str, e)) for e in r["events"]]}}, no_input=True)
        elif fail:
            chk.violation(fail[0], {"failed": fail[1], "case": case, "observed": {"outcome": r["out"], "detail": r["detail"],
                                                                                   "statements": [list(map(str, e)) for e in r["events"]]}})
        elif i in sbad and not (f is not None and not r["raised"]):
            chk.violation({"kind": "correspondence", "name": "sql_check", "fault": str(f)},
                          {"failed": "correspondence:Crash.sql_check (model and implementation disagree on the outcome of this "
                                     "fault, or the statements match neither statement order of the model)",
                           "case": case, "observed": {"outcome": r["out"], "statements": [list(map(str, e)) for e in r["events"]]},
                           "coq_case": sql_lits[i]}, no_input=True)
    for e in serrors:
        chk.violation({"kind": "correspondence", "name": "coqc-sql"}, {"failed": "correspondence:coqc", "detail": e}, no_input=True)

    r4 = run_round4(chk, stats)

    distinct = {(r["scenario"]["idx"], r["point"], r.get("byte")) for r in recs}
    nontrivial = {(r["scenario"]["idx"], r["point"], r.get("byte")) for r in recs
                  if r["kind"] != "complete" and r["label"] != "nothing"}
    cov = {
        "evaluations": len(recs) + len(sql_recs) + r4["evaluations"],
        "distinct": len(distinct) + len(sql_recs) + r4["evaluations"],
        "distinct_nontrivial": len(nontrivial) + sum(1 for r in sql_recs if r["fault"] is not None) + r4["nontrivial"],
        "rule": "one evaluation = one crash point of one (s0, s1) pair: save interrupted by an exception at a file operation, or "
                "a file of the completed save cut at a byte over the previous files (quick: 24 positions per file incl. 0, 1, "
                "every csv line boundary +-1, end-1; thorough: every byte of json/csv/pickles, 256 of the h5), then the real "
                "restore_from_checkpoint, classified by full-state comparison; pairs: successive checkpoints of one run (0-3 then "
                "1-3 more batches, sometimes a changed sampler line-up), first save into an empty folder, re-save without new "
                "rows, save over the row-less checkpoint of another run; SQLite: exception instead of / right after each "
                "statement, with and without a previous row. non-trivial = the folder was actually modified before the crash. "
                "Round 4 (model CrashSeq.v, check_case2): the same crash points on pairs where the folder holds another run with "
                "rows / a later state / edited rows / another ensemble size (series file re-created), pairs differing in one "
                "reassigned attribute, a run continued from the restored object, 12 parameters / 2 dimensions / sim_length / "
                "special values, a previous checkpoint without digests, two and three saves in sequence (crash, then retry or "
                "second crash), faults raised by json / pickle / pandas / h5py themselves, restore and save paths spelled as "
                "str / Path / relative / symlink; SQLite: pairs differing in one field, array representations, faults raised by "
                "sqlite3 itself, sequences of failed saves",
        "round4": r4,
        "write_order_detected": variant,
        "samples": [{k: r[k] for k in ("label", "point", "obs")} | {"scenario": r["scenario"]["kind"]}
                    for r in recs[:: max(1, len(recs) // 4)]][:4],
        "traces_validated_against_impl": len(recs) - len(bad) + len(sql_recs) - len(sbad) + r4["evaluations"] - r4["disagreements"],
        "model_impl_disagreements": len(bad) + len(sbad) + r4["disagreements"],
        "hybrid_crash_points_observed": dict(hybrid_points),
        "distribution": dict(sorted(stats.items())),
    }
    return chk.finish(
        cov,
        assumptions=["an exception / process stop between two file operations leaves what the completed operations wrote (open "
                     "text files are closed by their with block); what the OS leaves on disk after a power loss (page cache, HDF5 "
                     "metadata, SQLite journal recovery) is outside the model - the byte-cut sweep is the only evidence for it",
                     "a strict prefix of a JSON object text / pickle stream / HDF5 file is rejected by its reader (checked at every "
                     "sampled byte position)",
                     "Repaired order: SHA-256 digests of different file contents differ (digest injective in the model)",
                     "pairs whose series file is not a prefix of the new series (stale file of another run, C04) are not generated"],
        trusted=["modelled, not verified: json, pickle, pandas.read_csv/to_csv, h5py, sqlite3 (transaction semantics of the "
                 "Python driver: executescript commits, DML opens a transaction), os.replace atomicity"],
    )
