"""C06 - an interrupted checkpoint save is never restored as a silent hybrid.

Model: coq/Model/Crash.v   Theorems: coq/Properties/C06.v

Correspondence ("faultfs"): the real save_calibrator_state is run on a real folder holding a previous checkpoint s0
while saving s1, with Path.open / json.dump / pickle.dump / DataFrame.to_csv / h5py.File / Dataset.resize /
Dataset.__setitem__ / Group.create_dataset / os.replace wrapped so that the k-th file operation raises (every
operation prefix); and the files of a completed save are cut at byte b over the old files (every partially written
file).  Calibrator.restore_from_checkpoint is then called on the folder and the outcome classified
Error / exactly s0 / exactly s1 / hybrid by comparison of the full calibrator state; the class must be the one the
Coq model computes for the same crash point (a member of the model's set where the model is a monitor).
SQLite: a proxy connection raises at each execute / executescript / commit.
Direct oracle: the property statement (never a hybrid; SQLite: a failed save leaves the previous checkpoint loadable).
"""
from __future__ import annotations

import contextlib
import copy
import io
import json
import os
import pathlib
import pickle
import shutil
from collections import Counter
from pathlib import Path

import numpy as np

from common import cbool, clist, cnat
from props import calib_common as cc

IMPORTS = "From Coq Require Import List.\nFrom BlackIt Require Import Model.Crash."
SCRATCH = Path("/var/tmp/verif-scratch")
JSON, SCHED, LOSS, CSV, H5, TMP = ("calibration_params.json", "scheduler_pickled.pickle", "loss_function_pickled.pickle",
                                   "calibration_results.csv", "series_samp.h5", "calibration_params.json.tmp")
FILE_TOK = {JSON: "FJson", SCHED: "FSched", LOSS: "FLoss", CSV: "FCsv", H5: "FH5", TMP: "FTmp"}
CLS = {"Error": "Error", "Old": "Exactly_old", "New": "Exactly_new", "Hybrid": "Hybrid"}


class Fault(Exception):
    """The injected failure of a file operation / SQL statement."""


# ------------------------------------------------------------------------------------------------ faultfs
class FaultFS:
    """Counts the file operations of a save on `folder`; the operation number `fail_at` raises instead of running."""

    def __init__(self, folder, fail_at=None):
        self.folder, self.events, self.fail_at = str(folder), [], fail_at

    def tick(self, ev):
        k = len(self.events)
        self.events.append(ev)
        if self.fail_at is not None and k == self.fail_at:
            raise Fault(str(ev))

    @contextlib.contextmanager
    def installed(self):
        import h5py
        import pandas as pd

        import black_it.utils.json_pandas_checkpointing as jp

        fs = self
        o_open, o_csv, o_init = pathlib.Path.open, pd.DataFrame.to_csv, h5py.File.__init__
        o_resize, o_set, o_create, o_replace = (h5py.Dataset.resize, h5py.Dataset.__setitem__, h5py.Group.create_dataset,
                                                os.replace)

        def p_open(self, mode="r", *a, **k):
            if str(self).startswith(fs.folder):
                fs.tick(("open", self.name, mode))
            return o_open(self, mode, *a, **k)

        def p_csv(self, path_or_buf=None, *a, **k):
            fs.tick(("to_csv", Path(path_or_buf).name))
            return o_csv(self, path_or_buf, *a, **k)

        def p_init(self, name, mode="r", *a, **k):
            if isinstance(name, (str, bytes, os.PathLike)):
                fs.tick(("h5file", Path(os.fsdecode(name)).name, mode))
            return o_init(self, name, mode, *a, **k)

        def p_resize(self, *a, **k):
            fs.tick(("h5resize",))
            return o_resize(self, *a, **k)

        def p_set(self, *a, **k):
            fs.tick(("h5setitem",))
            return o_set(self, *a, **k)

        def p_create(self, *a, **k):
            fs.tick(("h5create_dataset",))
            return o_create(self, *a, **k)

        def p_replace(src, dst, *a, **k):
            fs.tick(("replace", Path(src).name, Path(dst).name))
            return o_replace(src, dst, *a, **k)

        class JsonShim:
            def __getattr__(self, n):
                return getattr(json, n)

            @staticmethod
            def dump(obj, f, *a, **k):
                fs.tick(("json.dump", Path(f.name).name))
                return json.dump(obj, f, *a, **k)

        class PickleShim:
            def __getattr__(self, n):
                return getattr(pickle, n)

            @staticmethod
            def dump(obj, f, *a, **k):
                fs.tick(("pickle.dump", Path(f.name).name))
                return pickle.dump(obj, f, *a, **k)

        pathlib.Path.open, pd.DataFrame.to_csv, h5py.File.__init__ = p_open, p_csv, p_init
        h5py.Dataset.resize, h5py.Dataset.__setitem__, h5py.Group.create_dataset = p_resize, p_set, p_create
        os.replace = p_replace
        jp.json, jp.pickle = JsonShim(), PickleShim()
        try:
            yield self
        finally:
            pathlib.Path.open, pd.DataFrame.to_csv, h5py.File.__init__ = o_open, o_csv, o_init
            h5py.Dataset.resize, h5py.Dataset.__setitem__, h5py.Group.create_dataset = o_resize, o_set, o_create
            os.replace = o_replace
            jp.json, jp.pickle = json, pickle


def ev_op(ev):
    """Observed event -> model operation (Coq literal), None if the event is not one the model knows."""
    k = ev[0]
    if k == "open":
        f = FILE_TOK.get(ev[1])
        if f is None:
            return None
        if ev[2] in ("w", "wb"):
            return f"OpenTrunc {f}"
        if ev[2] in ("rb", "r"):
            return f"Digest {f}"
        return None
    if k in ("json.dump", "pickle.dump"):
        f = FILE_TOK.get(ev[1])
        return None if f is None else f"Write {f}"
    if k == "to_csv":
        return "OpenTrunc FCsv" if ev[1] == CSV else None
    if k == "h5file":
        return {"a": "H5OpenRW", "w": "H5Create"}.get(ev[2]) if ev[1] == H5 else None
    if k == "replace":
        return "Replace" if (ev[1], ev[2]) == (TMP, JSON) else None
    return {"h5resize": "H5Resize", "h5setitem": "H5WriteRows", "h5create_dataset": "H5CreateDataset"}.get(k)


def ev_name(ev):
    """Human name of the state reached when event `ev` has completed (used in finding descriptors)."""
    k = ev[0]
    if k == "open":
        return f"{ev[1]}:truncated" if ev[2] in ("w", "wb") else f"{ev[1]}:digested"
    if k in ("json.dump", "pickle.dump", "to_csv"):
        return f"{ev[1]}:complete"
    if k == "h5file":
        return f"{ev[1]}:opened"
    if k == "replace":
        return f"{ev[2]}:replaced"
    return {"h5resize": f"{H5}:resized", "h5setitem": f"{H5}:complete", "h5create_dataset": f"{H5}:complete"}[k]


# ------------------------------------------------------------------------------------------------ states
def arr(a):
    a = np.asarray(a, dtype=float)
    return (a.shape, a.tobytes())


def full_view(cal):
    """Every persisted / observable attribute of a calibrator, grouped by the file that carries it."""
    sch = cal.scheduler
    gen = copy.deepcopy(cal.random_generator)
    return {
        "J": (int(cal.n_sampled_params), int(cal.current_batch_index), cal.ensemble_size, cal.N, cal.D, cal.convergence_precision,
              cal.verbose, cal.saving_folder, cal.random_state, json.dumps(cal.random_generator.bit_generator.state, sort_keys=True),
              int(gen.integers(2**62)), cal.n_jobs, arr(cal.param_grid.parameters_bounds),
              arr(cal.param_grid.parameters_precision), arr(cal.real_data), tuple(sorted(cal.samplers_id_table.items())),
              cal.model.__name__),
        "S": (type(sch).__name__, getattr(sch, "_batch_id", None),
              tuple((type(s).__name__, getattr(s, "tok_uid", None), getattr(s, "tok_calls", None), s.random_state, s.batch_size,
                     s.max_deduplication_passes) for s in sch.samplers)),
        "L": (type(cal.loss_function).__name__, tuple(cal.loss_function.palette), cal.loss_function.salt),
        "R": (arr(cal.params_samp), arr(cal.losses_samp), arr(cal.batch_num_samp), arr(cal.method_samp)),
        "H": arr(cal.series_samp),
    }


def csv_rows(cal):
    p = np.asarray(cal.params_samp, dtype=float)
    return [(float(cal.losses_samp[i]), int(cal.batch_num_samp[i]), int(cal.method_samp[i]), p[i].tobytes())
            for i in range(len(cal.losses_samp))]


def h5_rows(cal):
    s = np.asarray(cal.series_samp, dtype=float)
    return [s[i].tobytes() for i in range(s.shape[0])]


def make_calibrator(spec):
    from black_it.calibrator import Calibrator

    cc.G.update(fault=None, model_calls=0, loss_calls=0)
    loss = cc.TokLoss(spec["palette"], spec["salt"])
    samplers = [cc.make_sampler(s) for s in spec["samplers"]]
    with contextlib.redirect_stdout(io.StringIO()):
        cal = Calibrator(loss_function=loss, real_data=np.zeros((2, 1)), model=cc.tok_model, parameters_bounds=[[0.0], [10.0]],
                         parameters_precision=[1.0], ensemble_size=spec["E"], samplers=samplers,
                         convergence_precision=spec.get("prec"), verbose=bool(spec.get("verbose", True)),
                         random_state=spec["seed"], n_jobs=1)
    return cal


def apply_ops(cal, ops):
    with contextlib.redirect_stdout(io.StringIO()):
        for op in ops:
            if op[0] == "calibrate":
                cal.calibrate(op[1])
            elif op[0] == "set_samplers":
                cal.set_samplers([cc.make_sampler(s) for s in op[1]])


def save(cal, folder, fs=None):
    with contextlib.redirect_stdout(io.StringIO()):
        if fs is None:
            cal.create_checkpoint(str(folder))
        else:
            with fs.installed():
                cal.create_checkpoint(str(folder))


def restore(folder):
    from black_it.calibrator import Calibrator

    try:
        with contextlib.redirect_stdout(io.StringIO()), contextlib.redirect_stderr(io.StringIO()):
            c = Calibrator.restore_from_checkpoint(str(folder), model=cc.tok_model)
        return None, c
    except Exception as e:  # noqa: BLE001
        return f"{type(e).__name__}: {str(e)[:160]}", None


def classify(folder, v0, v1):
    err, c = restore(folder)
    if err:
        return "Error", err
    try:
        v = full_view(c)
    except Exception as e:  # noqa: BLE001
        return "Hybrid", f"restored object cannot be inspected: {type(e).__name__}: {e}"
    if v0 is not None and v == v0:
        return "Old", None
    if v == v1:
        return "New", None
    d0 = None if v0 is None else [k for k in v if v[k] != v0[k]]
    d1 = [k for k in v if v[k] != v1[k]]
    return "Hybrid", f"differs from previous in {d0}, from new in {d1}; counters n_sampled={v['J'][0]} batch={v['J'][1]} " \
                     f"rows csv={v['R'][1][0][0]} h5={v['H'][0][0]}"


# ------------------------------------------------------------------------------------------------ scenarios
def gen_scenario(rng, idx, kind):
    """kind: same_run | fresh | no_new_rows | other_run_empty"""
    def spec():
        ns = rng.randint(1, 3)
        return {"samplers": cc.gen_samplers(rng, ns, 0, 3), "E": rng.randint(1, 2), "seed": rng.below(2**31),
                "palette": [rng.choice([3.5, 1.25, 0.75, 2.0, 10.0, 0.375, 7.0, 0.0]) for _ in range(rng.randint(3, 6))],
                "salt": rng.below(1000), "prec": None, "verbose": bool(rng.below(2))}
    sc = {"idx": idx, "kind": kind, "spec": spec(), "pre": [], "mid": [], "spec0": None}
    a, b = rng.randint(0, 3), rng.randint(1, 3)
    if kind == "same_run":
        sc["pre"], sc["mid"] = [["calibrate", a]], [["calibrate", b]]
        if rng.below(4) == 0:
            sc["mid"].append(["set_samplers", cc.gen_samplers(rng, rng.randint(1, 2), 10, 3)])
    elif kind == "fresh":
        sc["pre"], sc["mid"] = None, [["calibrate", a + b - 1]]
    elif kind == "no_new_rows":
        sc["pre"], sc["mid"] = [["calibrate", max(a, 1)]], [["set_samplers", cc.gen_samplers(rng, rng.randint(1, 2), 10, 3)]]
    else:  # a checkpoint of another run that has no rows yet (its series file is a prefix of anything)
        sc["spec0"] = spec()
        sc["spec0"]["E"] = sc["spec"]["E"]
        sc["pre"], sc["mid"] = [], [["calibrate", b]]
    return sc


class Scenario:
    """Builds s0 (folder `old`), s1 (live calibrator), the event trace of a complete save and the folder `full`."""

    def __init__(self, sc, root):
        self.sc, self.root = sc, Path(root)
        if self.root.exists():
            shutil.rmtree(self.root)
        self.root.mkdir(parents=True)
        self.old, self.full, self.work = self.root / "old", self.root / "full", self.root / "work"
        self.has_prev = sc["pre"] is not None
        self.v0 = self.rows0 = self.h0 = None
        cal = make_calibrator(sc["spec"])
        if self.has_prev:
            cal0 = make_calibrator(sc["spec0"]) if sc["spec0"] else cal
            apply_ops(cal0, sc["pre"])
            save(cal0, self.old)
            self.v0, self.rows0, self.h0 = full_view(cal0), csv_rows(cal0), h5_rows(cal0)
            self.cal0 = copy.deepcopy(cal0)        # to re-commit the previous checkpoint in place (see run_event)
        else:
            self.old.mkdir()
        apply_ops(cal, sc["mid"])
        self.cal = cal
        self.v1, self.rows1, self.h1 = full_view(cal), csv_rows(cal), h5_rows(cal)
        shutil.copytree(self.old, self.full)
        fs = FaultFS(self.full)
        save(cal, self.full, fs)
        self.events = fs.events
        self.sanity = {"old": classify(self.old, self.v0, self.v1)[0] if self.has_prev else None}
        # token ids
        rid, hid = {}, {}
        tok = lambda d, x: d.setdefault(x, len(d))  # noqa: E731
        self.t_rows0 = [tok(rid, r) for r in (self.rows0 or [])]
        self.t_rows1 = [tok(rid, r) for r in self.rows1]
        self.t_h0 = [tok(hid, r) for r in (self.h0 or [])]
        self.t_h1 = [tok(hid, r) for r in self.h1]
        s1 = np.asarray(cal.series_samp, dtype=float)
        self.t_zrow = tok(hid, np.zeros(s1.shape[1:]).tobytes())
        eq = lambda k: 0 if (self.v0 is not None and self.v0[k] == self.v1[k]) else 1  # noqa: E731
        self.t_s0 = (0, 0, 0, 0, self.t_rows0, self.t_h0)
        self.t_s1 = (eq("J"), eq("S"), eq("L"), 0, self.t_rows1, self.t_h1)
        self.prefix = self.t_h0 == self.t_h1[:len(self.t_h0)]
        # the model identifies "same component" with "same file bytes" (digests): check that the two notions agree here
        self.view_bytes_disagree = [k for k, f in (("S", SCHED), ("L", LOSS)) if self.has_prev and
                                    ((self.old / f).read_bytes() == (self.full / f).read_bytes()) != (self.v0[k] == self.v1[k])]
        # write order of the files of a complete save
        self.order = []
        for ev in self.events:
            op = ev_op(ev)
            if op and (op.startswith("OpenTrunc") or op in ("H5OpenRW", "H5Create")):
                f = H5 if op.startswith("H5") else ev[1]
                if f not in self.order:
                    self.order.append(f)

    def fresh_work(self):
        if self.work.exists():
            shutil.rmtree(self.work)
        shutil.copytree(self.old, self.work)
        return self.work

    def run_event(self, i):
        d = self.fresh_work()
        if self.has_prev and i % 2 == 0:
            # half of the crash points: the previous checkpoint is committed by a real save into this very folder, in this
            # very process, as it is when a calibration runs - anything the library remembers per folder is then in play
            shutil.rmtree(d)
            save(self.cal0, d)
            if classify(d, self.v0, self.v1)[0] != "Old":
                shutil.rmtree(d)
                shutil.copytree(self.old, d)
        fs = FaultFS(d, fail_at=i)
        raised = False
        try:
            save(self.cal, d, fs)
        except Fault:
            raised = True
        return raised, classify(d, self.v0, self.v1)

    def run_cut(self, fname, b):
        """files written before `fname` complete, `fname` = first b bytes of its complete new content, rest old"""
        d = self.fresh_work()
        k = self.order.index(fname)
        for g in self.order[:k]:
            if g != TMP:
                shutil.copy(self.full / g, d / g)
        (d / fname).write_bytes(self.new_bytes(fname)[:b])
        return classify(d, self.v0, self.v1)

    def new_bytes(self, fname):
        return (self.full / (JSON if fname == TMP else fname)).read_bytes()

    def cleanup(self):
        shutil.rmtree(self.root, ignore_errors=True)


def csv_cut_point(data, b):
    """(model cut literal, label) for the first b bytes of the csv text `data` (0 < b < len)."""
    lines = data.split(b"\n")  # last element is b"" (file ends with a newline)
    hdr = len(lines[0])
    if b < hdr:
        return "CutHeader", "cut-in-header"
    if b <= hdr + 1:
        return "(CutRows 0 false)", "cut-at-line-boundary"
    pos = hdr + 1
    for j, ln in enumerate(lines[1:-1]):
        end = pos + len(ln)  # line j occupies [pos, end), its newline is at `end`
        if b == pos:
            return f"(CutRows {j} false)", "cut-at-line-boundary"
        if b < end:
            return f"(CutRows {j} true)", "cut-mid-line"
        if b == end:
            return f"(CutRows {j + 1} false)", "cut-at-line-boundary"
        pos = end + 1
    return f"(CutRows {len(lines) - 2} false)", "cut-at-line-boundary"


def cut_positions(rng, fname, data, tier):
    n = len(data)
    if n == 0:
        return []
    if tier == "thorough" and fname != H5:
        return list(range(n))
    want = 24 if tier == "quick" else 256
    pos = {0, 1, 2, n - 1, n - 2, n // 2}
    if fname == CSV:
        nl = [i for i, c in enumerate(data) if c == 10]
        for i in nl:
            pos.update((i, i + 1, i - 1))
        pos.add(nl[0] // 2)
    if fname == H5:
        pos.update(x for x in (8, 16, 40, 48, 96, 512, 1024, 2048, 2049, n - 8, n - 64) if 0 <= x < n)
    pos = {p for p in pos if 0 <= p < n}
    while len(pos) < min(want, n):
        pos.add(rng.below(n))
    return sorted(pos)


# ------------------------------------------------------------------------------------------------ Coq literals
def c_state(t):
    return (f"(mkState _ _ _ _ _ _ {cnat(t[0])} {cnat(t[1])} {cnat(t[2])} {cnat(t[3])} "
            f"{clist([cnat(x) for x in t[4]])} {clist([cnat(x) for x in t[5]])})")


def c_case(s, point, obs, expect):
    ops = [ev_op(e) for e in s.events]
    evs = clist([o if o else "Close FTmp" for o in ops])  # an unknown event can never match a write order
    exp = "None" if expect is None else f"(Some {expect})"
    return (f"(mkCase {cbool(s.has_prev)} {evs} {cnat(s.t_zrow)} {c_state(s.t_s0)} {c_state(s.t_s1)} {point} {exp} "
            f"{CLS[obs]})")


# ------------------------------------------------------------------------------------------------ SQLite
class SqlProxy:
    """Stands for the sqlite3 module inside sqlite3_checkpointing: connections count and fail statements."""

    def __init__(self, fail_at=None, after=False):
        import sqlite3

        self.real, self.fail_at, self.after, self.events = sqlite3, fail_at, after, []

    def __getattr__(self, n):
        return getattr(self.real, n)

    def connect(self, *a, **k):
        return _Conn(self, self.real.connect(*a, **k))

    def step(self, ev, thunk):
        k = len(self.events)
        self.events.append(ev)
        hit = self.fail_at is not None and k == self.fail_at
        if hit and not self.after:
            raise Fault(str(ev))
        r = thunk()
        if hit:
            raise Fault(str(ev))
        return r


class _Conn:
    def __init__(self, px, conn):
        self.px, self.conn = px, conn

    def cursor(self):
        return _Cur(self.px, self.conn.cursor())

    def commit(self):
        return self.px.step(("commit",), self.conn.commit)

    def __getattr__(self, n):
        return getattr(self.conn, n)


class _Cur:
    def __init__(self, px, cur):
        self.px, self.cur = px, cur

    def execute(self, sql, *a):
        return self.px.step(("execute", sql_kind(sql)), lambda: self.cur.execute(sql, *a))

    def executescript(self, sql):
        return self.px.step(("executescript", "DELETE" in sql.upper()), lambda: self.cur.executescript(sql))

    def __getattr__(self, n):
        return getattr(self.cur, n)


def sql_kind(sql):
    w = sql.strip().split()[0].upper()
    return w if w in ("PRAGMA", "INSERT", "DELETE", "SELECT") else "OTHER"


def sql_stmt(ev):
    if ev[0] == "commit":
        return "SCommit"
    if ev[0] == "executescript":
        return f"(SScript {cbool(ev[1])})"
    return {"PRAGMA": "SPragma", "INSERT": "SInsert", "DELETE": "SDelete"}.get(ev[1], "SCommit")  # unknown never matches twice


def sql_state(rng, tag):
    n, e = rng.randint(0, 4), rng.randint(1, 2)
    g = np.random.default_rng(rng.below(2**31))
    return [np.array([[0.0, 1.0], [1.0, 2.0]]).T, np.array([0.5, 0.25]), g.standard_normal((5, 2)), e, 5, 2,
            rng.choice([None, 0.1]), bool(rng.below(2)), f"folder{tag}", rng.below(100), g.bit_generator.state, "model",
            [f"sampler{tag}", rng.below(10)], f"loss{tag}", n, g.random((n, 2)), g.random(n), g.random((n, e, 5, 2)),
            np.arange(n), np.arange(n) % 2]


def sql_equal(loaded, st):
    if loaded is None or len(loaded) != len(st):
        return False
    for a, b in zip(loaded, st):
        if isinstance(b, np.ndarray):
            if not (isinstance(a, np.ndarray) and a.shape == b.shape and a.dtype == b.dtype and a.tobytes() == b.tobytes()):
                return False
        elif isinstance(b, bool):
            if bool(a) != b:
                return False
        elif a != b:
            return False
    return True


def sql_run(folder, s0, s1, fault):
    """fault = None | (i, after). Returns (events, raised, outcome) with outcome in SErr/SOld/SNew/SOther."""
    import black_it.utils.sqlite3_checkpointing as sq

    if Path(folder).exists():
        shutil.rmtree(folder)
    if s0 is not None:
        sq.save_calibrator_state(folder, *s0)
    px = SqlProxy(*(fault if fault else (None, False)))
    sq.sqlite3 = px
    raised = False
    try:
        sq.save_calibrator_state(folder, *s1)
    except Fault:
        raised = True
    finally:
        sq.sqlite3 = px.real
    try:
        loaded = sq.load_calibrator_state(folder)
        out = "SOld" if (s0 is not None and sql_equal(loaded, s0)) else "SNew" if sql_equal(loaded, s1) else "SOther"
        detail = None
    except Exception as e:  # noqa: BLE001
        out, detail = "SErr", f"{type(e).__name__}: {str(e)[:120]}"
    return px.events, raised, out, detail


def sql_large(chk, stats):
    """A previous checkpoint larger than SQLite's page cache: a failed save must still leave it loadable (a rollback that only
    works while everything fits in memory is not a rollback)."""
    g = np.random.default_rng(int(chk.rng.below(2**31)))     # data only
    n, e = 30000, 2

    def st(tag, n):
        return [np.array([[0.0, 1.0], [1.0, 2.0]]).T, np.array([0.5, 0.25]), g.standard_normal((5, 2)), e, 5, 2, None, True,
                f"folder{tag}", 7, np.random.default_rng(1).bit_generator.state, "model", [f"sampler{tag}", 1], f"loss{tag}", n,
                g.random((n, 2)), g.random(n), g.random((n, e, 5, 2)), np.arange(n), np.arange(n) % 2]

    s0, s1 = st("A", n), st("B", n + 10)
    folder = SCRATCH / f"{os.getpid()}" / "c06_sql_large"
    events, _, out, _ = sql_run(folder, s0, s1, None)
    count = 0
    for i in range(len(events)):
        for after in (False, True):
            ev, raised, out, detail = sql_run(folder, s0, s1, (i, after))
            count += 1
            stats["sqlite-large"] += 1
            committed = after and events[i][0] == "commit"        # a failure after the commit: the new checkpoint is in place
            if raised and out != ("SNew" if committed else "SOld"):
                chk.violation({"kind": "sqlite_previous_lost", "statement": f"large:{i}:{'after' if after else 'before'}"},
                              {"failed": "oracle:sqlite", "detail": f"previous checkpoint of {n} rows (~{n * e * 80 // 2**20} MiB of series) not "
                               f"loadable after a failure {'after' if after else 'at'} statement {i}: outcome {out} {detail}",
                               "case": {"sql_large": {"statement": i, "after": after}}})
    shutil.rmtree(folder, ignore_errors=True)
    return count


# ------------------------------------------------------------------------------------------------ the check
def run_fs_scenario(chk, sc, root, recs, stats, expect):
    s = Scenario(sc, root)
    try:
        n = len(s.events)
        base = {"scenario": sc}
        if any(ev_op(e) is None for e in s.events):
            stats["unknown-events"] += 1
        if s.view_bytes_disagree:
            stats["view-vs-bytes-disagreement"] += 1
            chk.notes.append(f"scenario {sc['idx']}: components {s.view_bytes_disagree} have equal views but different pickle "
                             "bytes (or the converse); the model's digest comparison may differ from the view comparison there")
        # complete save
        recs.append({**base, "point": "PComplete", "label": "complete", "obs": classify(s.full, s.v0, s.v1), "s": s,
                     "lit": None, "kind": "complete"})
        # every operation prefix
        for i in range(n):
            raised, obs = s.run_event(i)
            label = "nothing" if i == 0 else ev_name(s.events[i - 1])
            recs.append({**base, "point": f"(PEvent {i})", "label": label, "obs": obs, "s": s, "kind": "event",
                         "raised": raised, "event": list(map(str, s.events[i]))})
        # every file cut at a byte
        for fname in s.order:
            data = s.new_bytes(fname)
            for b in cut_positions(chk.rng, fname, data, chk.tier):
                if b == 0:
                    pt, label = f"(PCut {FILE_TOK[fname]} true CutBytes)", f"{fname}:truncated"
                elif fname == CSV:
                    ct, lab = csv_cut_point(data, b)
                    pt, label = f"(PCut FCsv false {ct})", f"{fname}:{lab}"
                else:
                    pt, label = f"(PCut {FILE_TOK[fname]} false CutBytes)", f"{fname}:cut"
                recs.append({**base, "point": pt, "label": label, "obs": s.run_cut(fname, b), "s": s, "kind": "cut",
                             "file": fname, "byte": b})
        for r in recs:
            if r.get("s") is s and r.get("lit") is None:
                r["lit"] = c_case(s, r["point"], r["obs"][0], expect)
                r["tokens"] = {"s0": s.t_s0, "s1": s.t_s1, "zrow": s.t_zrow, "prefix": s.prefix, "has_prev": s.has_prev}
                r["events"] = [list(map(str, e)) for e in s.events]
    finally:
        s.cleanup()
    return s


CSV_NAME = "calibration_results.csv"


def large_file_cuts(chk, stats):
    """Files larger than any read buffer: a save torn beyond the first MiB of calibration_results.csv (whose first MiB is
    unchanged, the history being append-only) with byte-identical pickles must not be restored as a truncated history."""
    from black_it.loss_functions.minkowski import MinkowskiLoss
    from black_it.samplers.random_uniform import RandomUniformSampler
    from black_it.schedulers.round_robin import RoundRobinScheduler
    from black_it.utils.json_pandas_checkpointing import load_calibrator_state, save_calibrator_state

    rng = np.random.default_rng(int(chk.rng.below(2**31)))     # data only
    n_a, extra = 52000, 400
    root = SCRATCH / f"{os.getpid()}" / "c06_large"
    if root.exists():
        shutil.rmtree(root)
    a, b, torn = root / "a", root / "b", root / "torn"
    n_b = n_a + extra
    params = rng.random((n_b, 2))
    losses = rng.random(n_b)
    series = rng.random((n_b, 1, 3, 1))
    sched = RoundRobinScheduler([RandomUniformSampler(batch_size=extra)])
    loss = MinkowskiLoss()
    gstate = np.random.default_rng(0).bit_generator.state

    def save(folder, n, batch):
        save_calibrator_state(folder, np.array([[0.0, 0.0], [1.0, 1.0]]), np.array([0.0001, 0.0001]), np.zeros((3, 1)), 1, 3, 1, None,
                              False, None, 0, gstate, "m", sched, loss, batch, n, 1, params[:n], losses[:n], series[:n],
                              np.zeros(n, dtype=int), np.zeros(n, dtype=int))

    def summary(st):
        return (st[14], st[15], st[17].tobytes(), st[18].tobytes(), st[19].tobytes())

    with contextlib.redirect_stdout(io.StringIO()):
        save(a, n_a, 1)
        shutil.copytree(a, b)
        save(b, n_b, 2)
    va, vb = summary(load_calibrator_state(a, 1)), summary(load_calibrator_state(b, 1))
    n = 0
    for fname in (CSV_NAME, "series_samp.h5"):
        new = (b / fname).read_bytes()
        cuts = [c for c in (len(new) // 2, (1 << 20) + 4097, len(new) - 7) if (1 << 20) < c < len(new)]
        for cut in cuts:
            if torn.exists():
                shutil.rmtree(torn)
            shutil.copytree(a, torn)
            (torn / fname).write_bytes(new[:cut])
            n += 1
            stats["large-file-cut"] += 1
            try:
                v = summary(load_calibrator_state(torn, 1))
            except Exception:  # noqa: BLE001
                continue
            if v not in (va, vb):
                chk.violation({"kind": "hybrid_restore", "crash_after": f"{fname}:cut-beyond-first-MiB"},
                              {"failed": "oracle:hybrid", "detail": f"{fname} ({len(new)} bytes) cut at byte {cut} over the previous checkpoint "
                               f"restores silently: n_sampled={v[1]}, batch={v[0]}, {len(v[3]) // 8} losses",
                               "case": {"large_file_cut": {"file": fname, "byte": cut}}})
    shutil.rmtree(root, ignore_errors=True)
    return n


def replay_one(chk, rep):
    """Re-run the single crash point stored in a replay file."""
    case = rep["case"]
    root = SCRATCH / str(os.getpid()) / "replay"
    if case.get("backend") == "sqlite":
        ev, raised, out, detail = sql_run(root / "db", case["s0"] and sql_state(chk_rng(case["seed0"]), 0),
                                          sql_state(chk_rng(case["seed1"]), 1), tuple(case["fault"]) if case["fault"] else None)
        print(f"replay sqlite: statements={ev} raised={raised} outcome={out} {detail or ''}")
        shutil.rmtree(root, ignore_errors=True)
        return 1 if (out == "SErr" or (case["fault"] and not case["fault"][1] and case["s0"] and out != "SOld")) else 0
    s = Scenario(case["scenario"], root)
    try:
        if case["kind"] == "event":
            i = int(case["point"].strip("()").split()[1])
            _, obs = s.run_event(i)
        elif case["kind"] == "cut":
            obs = s.run_cut(case["file"], case["byte"])
        else:
            obs = classify(s.full, s.v0, s.v1)
    finally:
        s.cleanup()
    print(f"replay: crash point {case['label']} -> {obs[0]} {obs[1] or ''}")
    return 1 if obs[0] == "Hybrid" or (case["kind"] == "complete" and obs[0] != "New") else 0


def chk_rng(seed):
    from common import SplitMix64

    return SplitMix64(seed)


def run(chk, replay=None):
    chk.proof_gate(extra_targets=["Model/Crash.vo"])
    if replay:
        try:
            return replay_one(chk, json.loads(open(replay).read()))
        finally:
            shutil.rmtree(SCRATCH / str(os.getpid()), ignore_errors=True)
    rng = chk.rng
    quick = chk.tier == "quick"
    root = SCRATCH / str(os.getpid())
    stats = Counter()
    n_large = large_file_cuts(chk, stats)
    n_large += sql_large(chk, stats)
    recs = []
    kinds = ["same_run"] * 4 + ["fresh", "no_new_rows", "other_run_empty"]
    n_sc = 14 if quick else 21
    scenarios = [gen_scenario(rng, i, kinds[i % len(kinds)]) for i in range(n_sc)]
    try:
        for sc in scenarios:
            run_fs_scenario(chk, sc, root / f"sc{sc['idx']}", recs, stats, None)
    finally:
        shutil.rmtree(root, ignore_errors=True)
    lits = [r["lit"] for r in recs]
    bad, errors = chk.coq_mismatches("C06", IMPORTS, "check_case", "case", lits, shard=300)
    bad = set(bad)
    # which write order does the tree implement (as detected by the model from the observed operations)?
    s_any = recs[0]["s"]
    vals, err = chk.coq_eval("C06v", IMPORTS, [f"detect true {clist([ev_op(e) or 'Close FTmp' for e in r['s'].events])}"
                                                 for r in recs if r["kind"] == "complete" and r["s"].has_prev][:1])
    variant = (vals[0] if vals else None) or "unknown"
    hybrid_points = Counter()
    for i, r in enumerate(recs):
        cls, detail = r["obs"]
        s = r.pop("s")
        stats[f"{r['kind']}:{cls}"] += 1
        stats[f"scenario:{r['scenario']['kind']}"] += 1
        case = {"backend": "fs", "scenario": r["scenario"], "kind": r["kind"], "point": r["point"], "label": r["label"],
                "file": r.get("file"), "byte": r.get("byte")}
        fail = None
        if cls == "Hybrid" and not (r["kind"] == "complete"):
            fail = ({"kind": "hybrid_restore", "crash_after": r["label"]},
                    f"oracle:restore after a save interrupted at [{r['label']}] returned silently a state that is neither the "
                    f"previous nor the new checkpoint ({detail})")
        elif r["kind"] == "complete" and cls != "New":
            fail = ({"kind": "complete_save_not_restored", "class": cls},
                    f"oracle:restore after a complete save is {cls} ({detail})")
        swallowed = r["kind"] == "event" and not r["raised"]
        if fail:
            hybrid_points[r["label"]] += 1
            chk.violation(fail[0], {"failed": fail[1], "case": case, "observed": {"class": cls, "detail": detail},
                                    "tokens": r["tokens"], "events": r["events"]})
        elif swallowed:
            chk.violation({"kind": "correspondence", "name": "fault-not-propagated", "point": r["label"]},
                          {"failed": "correspondence:the exception injected into a file operation of save_calibrator_state did not "
                                     "come out of create_checkpoint (the model's save stops at the failing operation)",
                           "case": case, "observed": {"class": cls, "detail": detail}, "events": r["events"]}, no_input=True)
        elif i in bad:
            chk.violation({"kind": "correspondence", "name": "load_class", "point": r["label"]},
                          {"failed": "correspondence:Crash.check_case (the model's class set for this crash point does not contain "
                                     "the class observed on the implementation, or the observed file operations match neither "
                                     "write order of the model; the property oracle found no failing input)",
                           "case": case, "observed": {"class": cls, "detail": detail}, "tokens": r["tokens"],
                           "events": r["events"], "coq_case": r["lit"]}, no_input=True)
    for e in errors:
        chk.violation({"kind": "correspondence", "name": "coqc"}, {"failed": "correspondence:coqc", "detail": e}, no_input=True)

    # ---------------- SQLite
    sql_lits, sql_recs = [], []
    sroot = SCRATCH / str(os.getpid()) / "sql"
    try:
        for k in range(3 if quick else 12):
            seed0, seed1 = rng.below(2**31), rng.below(2**31)
            for prev in (True, False):
                s0 = sql_state(chk_rng(seed0), 0) if prev else None
                s1 = sql_state(chk_rng(seed1), 1)
                ev, raised, out, detail = sql_run(sroot / "db", s0, s1, None)
                faults = [None] + [(i, a) for i in range(len(ev)) for a in (False, True)]
                for f in faults:
                    ev2, raised, out, detail = sql_run(sroot / "db", s0, s1, f) if f else (ev, raised, out, detail)
                    sql_recs.append({"prev": prev, "fault": f, "events": ev, "out": out, "detail": detail, "raised": raised,
                                     "seed0": seed0, "seed1": seed1})
                    flit = "None" if f is None else f"(Some ({cnat(f[0])}, {cbool(f[1])}))"
                    sql_lits.append(f"(mkSql {cbool(prev)} {clist([sql_stmt(e) for e in ev])} {flit} None {out})")
    finally:
        shutil.rmtree(SCRATCH / str(os.getpid()), ignore_errors=True)
    sbad, serrors = chk.coq_mismatches("C06sql", IMPORTS, "sql_check", "sqlcase", sql_lits, shard=400)
    sbad = set(sbad)
    for i, r in enumerate(sql_recs):
        stats[f"sqlite:{'complete' if r['fault'] is None else 'fault'}:{r['out']}"] += 1
        case = {"backend": "sqlite", "s0": r["prev"], "seed0": r["seed0"], "seed1": r["seed1"],
                "fault": list(r["fault"]) if r["fault"] else None}
        f = r["fault"]
        stmt = None if f is None else (r["events"][f[0]][1] if r["events"][f[0]][0] == "execute" else r["events"][f[0]][0])
        fail = None
        if f is None and r["out"] != "SNew":
            fail = ({"kind": "sqlite_complete_save_not_restored", "outcome": r["out"]}, "oracle:load after a complete SQLite save "
                    f"is {r['out']} ({r['detail']})")
        elif f is not None and r["raised"] and r["prev"] and not f[1] and r["out"] != "SOld":
            fail = ({"kind": "sqlite_previous_lost", "statement": str(stmt)},
                    f"oracle:the save failed with an exception in statement {f[0]} ({stmt}) and the previous checkpoint is no "
                    f"longer loadable: {r['out']} ({r['detail']})")
        elif f is not None and r["raised"] and r["prev"] and f[1] and r["out"] not in ("SOld", "SNew"):
            fail = ({"kind": "sqlite_previous_lost", "statement": f"after:{stmt}"},
                    f"oracle:an exception right after statement {f[0]} ({stmt}) leaves neither the previous nor the new "
                    f"checkpoint loadable: {r['out']} ({r['detail']})")
        elif r["out"] == "SOther":
            fail = ({"kind": "sqlite_hybrid"}, "oracle:the loaded row is neither the previous nor the new checkpoint")
        if not fail and f is not None and not r["raised"]:
            chk.violation({"kind": "correspondence", "name": "sql-fault-not-propagated", "statement": str(stmt)},
                          {"failed": "correspondence:the exception injected into a statement of the SQLite save did not come out "
                                     "of save_calibrator_state", "case": case,
                           "observed": {"outcome": r["out"], "statements": [list(map(str, e)) for e in r["events"]]}}, no_input=True)
        elif fail:
            chk.violation(fail[0], {"failed": fail[1], "case": case, "observed": {"outcome": r["out"], "detail": r["detail"],
                                                                                   "statements": [list(map(str, e)) for e in r["events"]]}})
        elif i in sbad and not (f is not None and not r["raised"]):
            chk.violation({"kind": "correspondence", "name": "sql_check", "fault": str(f)},
                          {"failed": "correspondence:Crash.sql_check (model and implementation disagree on the outcome of this "
                                     "fault, or the statements match neither statement order of the model)",
                           "case": case, "observed": {"outcome": r["out"], "statements": [list(map(str, e)) for e in r["events"]]},
                           "coq_case": sql_lits[i]}, no_input=True)
    for e in serrors:
        chk.violation({"kind": "correspondence", "name": "coqc-sql"}, {"failed": "correspondence:coqc", "detail": e}, no_input=True)

    distinct = {(r["scenario"]["idx"], r["point"], r.get("byte")) for r in recs}
    nontrivial = {(r["scenario"]["idx"], r["point"], r.get("byte")) for r in recs
                  if r["kind"] != "complete" and r["label"] != "nothing"}
    cov = {
        "evaluations": len(recs) + len(sql_recs),
        "distinct": len(distinct) + len(sql_recs),
        "distinct_nontrivial": len(nontrivial) + sum(1 for r in sql_recs if r["fault"] is not None),
        "rule": "one evaluation = one crash point of one (s0, s1) pair: save interrupted by an exception at a file operation, or "
                "a file of the completed save cut at a byte over the previous files (quick: 24 positions per file incl. 0, 1, "
                "every csv line boundary +-1, end-1; thorough: every byte of json/csv/pickles, 256 of the h5), then the real "
                "restore_from_checkpoint, classified by full-state comparison; pairs: successive checkpoints of one run (0-3 then "
                "1-3 more batches, sometimes a changed sampler line-up), first save into an empty folder, re-save without new "
                "rows, save over the row-less checkpoint of another run; SQLite: exception instead of / right after each "
                "statement, with and without a previous row. non-trivial = the folder was actually modified before the crash",
        "write_order_detected": variant,
        "samples": [{k: r[k] for k in ("label", "point", "obs")} | {"scenario": r["scenario"]["kind"]}
                    for r in recs[:: max(1, len(recs) // 4)]][:4],
        "traces_validated_against_impl": len(recs) - len(bad) + len(sql_recs) - len(sbad),
        "model_impl_disagreements": len(bad) + len(sbad),
        "hybrid_crash_points_observed": dict(hybrid_points),
        "distribution": dict(sorted(stats.items())),
    }
    return chk.finish(
        cov,
        assumptions=["an exception / process stop between two file operations leaves what the completed operations wrote (open "
                     "text files are closed by their with block); what the OS leaves on disk after a power loss (page cache, HDF5 "
                     "metadata, SQLite journal recovery) is outside the model - the byte-cut sweep is the only evidence for it",
                     "a strict prefix of a JSON object text / pickle stream / HDF5 file is rejected by its reader (checked at every "
                     "sampled byte position)",
                     "Repaired order: SHA-256 digests of different file contents differ (digest injective in the model)",
                     "pairs whose series file is not a prefix of the new series (stale file of another run, C04) are not generated"],
        trusted=["modelled, not verified: json, pickle, pandas.read_csv/to_csv, h5py, sqlite3 (transaction semantics of the "
                 "Python driver: executescript commits, DML opens a transaction), os.replace atomicity"],
    )
