"""C10 - the RL scheduler-agent exchange is correct under every thread interleaving.

Model: coq/Model/RLProto.v (`step` = protocol of the repaired tree, `step_old` = protocol before the repair)
Theorems: coq/Properties/C10.v
Correspondence: the real RLScheduler + MABCalibrationEnv + a logging agent are driven through EVERY interleaving
at the synchronisation points (depth-first enumeration with replay, props/c10_sched.py) for small session/batch
counts; every schedule is then executed by the Coq model and the enabled sets along the run and the final logs,
queue contents, thread liveness are compared.  A direct oracle of the property statement runs on the observations.
"""
from __future__ import annotations

import json
import time
import weakref
from collections import Counter
from fractions import Fraction

import numpy as np

from common import cbool, clist, cnat, copt, cq
from props.c10_sched import Abort, Ctl, VQueue, make_shim

IMPORTS = "From Coq Require Import List ZArith QArith.\nFrom BlackIt Require Import Model.RLProto."
CASE_T = "rl_case"

_HOLDER = {"ctl": None}


def _ctl():
    return _HOLDER["ctl"]


# ------------------------------------------------------------------------------------------ implementation run
LOSS_REPS = ("f64", "f32", "i64", "i32", "list", "tuple", "view", "revview", "readonly", "col", "0d", "object", "reuse")
ACT_REPS = ("int", "int64", "int32", "uint8", "0d")


def as_action(a, rep):
    """The agent's choice in the representation a user-written agent may return (all accepted by Discrete.contains)."""
    if rep == "int64":
        return np.int64(a)
    if rep == "int32":
        return np.int32(a)
    if rep == "uint8":
        return np.uint8(a)
    if rep == "0d":
        return np.array(a)
    return a


def as_losses(vals, rep, buf):
    """The losses of one batch in the representation `rep`; returns (object passed to update, array to scribble on afterwards)."""
    if rep == "f32":
        a = np.array(vals, dtype=np.float32)
    elif rep == "i64":
        a = np.array([int(v) for v in vals], dtype=np.int64)
    elif rep == "i32":
        a = np.array([int(v) for v in vals], dtype=np.int32)
    elif rep == "list":
        return list(vals), None
    elif rep == "tuple":
        return tuple(vals), None
    elif rep == "view":
        big = np.full(2 * len(vals) + 1, -7.0)
        big[1::2] = vals
        a = big[1::2]
    elif rep == "revview":
        a = np.array(list(vals)[::-1], dtype=float)[::-1]
    elif rep == "readonly":
        a = np.array(vals, dtype=float)
        a.setflags(write=False)
        return a, None
    elif rep == "col":
        a = np.array(vals, dtype=float).reshape(-1, 1)
    elif rep == "0d":
        a = np.array(float(vals[0]))
    elif rep == "object":
        a = np.array(list(vals), dtype=object)
    elif rep == "reuse":  # one buffer for all the batches of the run, overwritten in place by the caller
        if buf.get("a") is None or buf["a"].shape[0] != len(vals):
            buf["a"] = np.zeros(len(vals))
        buf["a"][:] = vals
        return buf["a"], None
    else:
        a = np.array(vals, dtype=float)
    return a, a


def batch_values(cfg, b):
    return cfg["batches"][b] if cfg.get("batches") else [cfg["losses"][b]]


def _build(cfg):
    """Real scheduler + env + logging agent with the instrumented queues/flag/thread (no repo file is edited)."""
    from black_it.samplers.halton import HaltonSampler
    from black_it.samplers.random_uniform import RandomUniformSampler
    from black_it.schedulers.rl import rl_scheduler as rlmod
    from black_it.schedulers.rl.agents.base import Agent
    from black_it.schedulers.rl.agents.epsilon_greedy import MABEpsilonGreedy
    from black_it.schedulers.rl.envs.mab import MABCalibrationEnv

    log = {"policy": [], "learn": []}

    class ScriptAgent(Agent):
        def __init__(self, script):
            super().__init__(random_state=0)
            self.script, self.k = script, 0

        def policy(self, state):  # noqa: ARG002
            a = self.script[self.k % len(self.script)]
            self.k += 1
            log["policy"].append(a)
            return as_action(a, cfg["agent"].get("act_rep", "int"))

        def learn(self, state, action, reward, next_state):  # noqa: ARG002
            log["learn"].append((int(action), float(reward), _ctl().last_src))

    class Draws:
        """Stands for numpy's Generator inside MABEpsilonGreedy.policy: the recorded draws are replayed."""

        def __init__(self, draws, eps, us=None):
            self.draws, self.k, self.eps, self.us = draws, 0, eps, us

        def random(self):
            if self.us:  # recorded uniform draws: the implementation compares them with the eps in force
                return self.us[self.k % len(self.us)]
            explore = self.draws[self.k % len(self.draws)][0]
            return 0.0 if explore else 1.0

        def choice(self, options, n):  # noqa: ARG002
            return [options[self.draws[self.k % len(self.draws)][1] % len(options)]]

    class LoggedGreedy(MABEpsilonGreedy):
        def __init__(self, n, alpha, init, draws, eps=0.5, us=None, assign_after=False):
            if assign_after:
                # public attributes reassigned after construction: the values in force are the assigned ones
                super().__init__(n, 0.125, 0.875, initial_values=7.0, random_state=0)
                self.alpha, self.eps, self.Q = alpha, eps, [init] * n
            else:
                super().__init__(n, alpha, eps, initial_values=init, random_state=0)
            self._draws = Draws(draws, eps, us)

        @property
        def random_generator(self):
            return self._draws

        def policy(self, obs):
            a = super().policy(obs)
            self._draws.k += 1
            log["policy"].append(a)
            return a

        def learn(self, state, action, reward, next_state):
            log["learn"].append((int(action), float(reward), _ctl().last_src))
            super().learn(state, action, reward, next_state)

    class VRL(rlmod.RLScheduler):
        @property
        def _stopped(self):
            c = _ctl()
            if c is not None:
                c.yield_point("read:stopped")
            return self.__dict__["_st"]

        @_stopped.setter
        def _stopped(self, v):
            c = _ctl()
            if c is not None:
                c.yield_point("write:stopped")
            self.__dict__["_st"] = v

    nsam, hal = cfg["nsam"], cfg["halton"]
    if cfg.get("halton_in", True):
        samplers = [HaltonSampler(batch_size=1) if i == hal else RandomUniformSampler(batch_size=1) for i in range(nsam)]
    else:  # no Halton sampler in the caller's line-up: the scheduler appends one (index nsam - 1 = cfg["halton"])
        samplers = [RandomUniformSampler(batch_size=1) for _ in range(nsam - 1)]
    if cfg.get("lineup", "list") == "tuple":
        samplers = tuple(samplers)
    env = MABCalibrationEnv(nsam)
    env._in_queue = VQueue(_ctl, "outcome")  # noqa: SLF001
    env._out_queue = VQueue(_ctl, "action")  # noqa: SLF001
    ag = cfg["agent"]
    if ag["kind"] == "script":
        agent = ScriptAgent(ag["script"])
    else:
        agent = LoggedGreedy(nsam, ag["alpha"], ag["init"], ag["draws"], ag.get("eps", 0.5), ag.get("us"), ag.get("assign_after", False))
    rlmod.threading = make_shim(_ctl)

    def make_scheduler():
        """A (further) scheduler on the same line-up, agent and environment; its construction is not a synchronisation point."""
        saved, _HOLDER["ctl"] = _HOLDER["ctl"], None
        try:
            return VRL(samplers, agent, env, random_state=0)
        finally:
            _HOLDER["ctl"] = saved

    sch = make_scheduler()
    return sch, env, agent, log, rlmod, make_scheduler


class InjectedBatchFault(Exception):
    pass


def run_schedule(cfg, prefix, max_steps=400, lenient=False):
    """One controlled run; returns the observation dict (schedule actually followed, enabled masks, logs).

    Optional keys of cfg (generator sweep, round 4): `batches` (the losses of every batch, several per batch), `loss_rep`
    (representation of the loss object handed to update()), `events` = [[session index, name], ...] run BEFORE that session
    (index len(sessions) = after the last): "reseed" (random_state reassigned), "bad_end" (end_session outside a session: has
    to be rejected), "rebuild" (a further scheduler on the same line-up, agent and environment takes over), `spurious_start`
    = [[session index, batch position], ...] (start_session inside a running session: has to be rejected)."""
    import threading as real_threading

    _HOLDER["ctl"] = None
    try:
        sch, env, agent, log, rlmod, make_scheduler = _build(cfg)
    except Exception as e:  # noqa: BLE001  the scheduler cannot even be constructed on this line-up
        return {"sched": "", "masks": [], "ops": [], "final_mask": 0, "deadlock": False, "capped": False, "diverged": False,
                "finished": False, "m_exc": f"constructing the scheduler: {type(e).__name__}: {e}", "a_exc": [],
                "agent_alive_at_end": False, "unreleased_threads": 0, "executed": [], "learned": [], "policy": [],
                "session_ends": [], "aq_end": [], "oq_end": [], "flag": True, "cbl": None, "best": None, "blocked": [],
                "qvals": [], "counts": [], "rejects": [], "strip": [], "boots": [0], "spurious_started": False}
    ctl = Ctl(prefix, max_steps, lenient)
    _HOLDER["ctl"] = ctl
    executed, session_ends, m_exc = [], [], None
    rejects, strip, boots = [], [], [0]
    b = 0
    faults = list(cfg.get("fault_at", []))      # a batch that raises after the sampler was designated (sampler / model / loss failure)
    events = [tuple(e) for e in cfg.get("events", [])]
    spur = [tuple(e) for e in cfg.get("spurious_start", [])]
    rep, buf = cfg.get("loss_rep", "f64"), {}

    def snap():
        return {"aq": [int(x) for x, _ in env._out_queue.items],  # noqa: SLF001
                "oq": [None if x is None else float(x[1]) for x, _ in env._in_queue.items],  # noqa: SLF001
                "flag": bool(sch.__dict__["_st"]), "thread": id(sch._agent_thread)}  # noqa: SLF001

    def rejected(kind, call, agent_exists):
        """A request that the scheduler has to refuse with ValueError, leaving everything as it was."""
        k0, before = len(ctl.sched), snap()
        raised = None
        ctl.force_m = True
        try:
            call()
        except ValueError as e:
            raised = f"ValueError: {e}"
        finally:
            ctl.force_m = False
        k1, after = len(ctl.sched), snap()
        mine = [k for k in range(k0, k1) if ctl.sched[k] == "M"]
        m_ops = [ctl.ops[k] for k in mine]
        moved = []
        if m_ops != ["read:stopped"]:
            moved.append(f"synchronisation operations of the calibration thread during the request: {m_ops}")
        for key in ("flag", "thread") + (() if agent_exists else ("aq", "oq")):
            if before[key] != after[key]:
                moved.append(f"{key}: {before[key]} -> {after[key]}")
        strip.extend(mine)
        rejects.append({"kind": kind, "raised": raised, "moved": moved, "at_step": k0})

    def run_events(si):
        nonlocal sch
        for i, name in events:
            if i != si:
                continue
            if name == "reseed":
                sch.random_state = 1000 + si
            elif name == "bad_end":
                rejected("end_session outside a session", sch.end_session, False)
            elif name == "rebuild":
                sch = make_scheduler()
                boots.append(b)

    try:
        for si, nb in enumerate(cfg["sessions"]):
            run_events(si)
            try:
                with sch.session():
                    for pos in range(nb):
                        if (si, pos) in spur:
                            ctl.no_start = True
                            rejected("start_session inside a session", sch.start_session, True)
                            ctl.no_start = False
                        s = sch.get_next_sampler()
                        idx = [i for i, x in enumerate(sch.samplers) if x is s][0]
                        if faults and faults[0] == b:
                            faults.pop(0)
                            raise InjectedBatchFault(b)        # the session is closed by session()'s finally; the batch did not run
                        executed.append((b, idx))
                        ctl.cur_batch = b
                        vals = batch_values(cfg, b)
                        lobj, scribble = as_losses(vals, rep, buf)
                        params = np.arange(float(b), float(b) + len(vals)).reshape(-1, 1)
                        sch.update(b, params, lobj, None)
                        if scribble is not None:
                            scribble[...] = -12345  # the caller reuses its array: the scheduler must not have kept a view of it
                        ctl.cur_batch = None
                        b += 1
            except InjectedBatchFault:
                pass
            session_ends.append({
                "aq": [int(x) for x, _ in env._out_queue.items],  # noqa: SLF001
                "oq": [None if x is None else float(x[1]) for x, _ in env._in_queue.items],  # noqa: SLF001
                "agent_alive": bool(sch._agent_thread is not None and sch._agent_thread.is_alive()),  # noqa: SLF001
            })
        run_events(len(cfg["sessions"]))
    except Abort:
        pass
    except Exception as e:  # noqa: BLE001
        m_exc = f"{type(e).__name__}: {e}"
    finished = len(session_ends) == len(cfg["sessions"]) and m_exc is None and not ctl.spurious_started
    # threads of the scheduler that have not terminated when the calibration thread is done / stuck
    a_alive = bool(sch._agent_thread is not None and sch._agent_thread.is_alive())  # noqa: SLF001
    stuck = ctl.finish()
    _HOLDER["ctl"] = None
    rlmod.threading = real_threading
    best = sch._best_loss  # noqa: SLF001
    obs = {
        "sched": "".join(ctl.sched), "masks": list(ctl.masks), "ops": list(ctl.ops), "final_mask": ctl.final_mask,
        "deadlock": ctl.deadlock, "capped": ctl.capped, "diverged": ctl.diverged, "finished": finished,
        "m_exc": m_exc, "a_exc": list(ctl.a_exc), "agent_alive_at_end": a_alive, "unreleased_threads": len(stuck),
        "executed": executed, "learned": list(log["learn"]), "policy": list(log["policy"]),
        "session_ends": session_ends,
        "aq_end": [int(x) for x, _ in env._out_queue.items],  # noqa: SLF001
        "oq_end": [None if x is None else float(x[1]) for x, _ in env._in_queue.items],  # noqa: SLF001
        "flag": bool(sch.__dict__["_st"]), "cbl": None if env._curr_best_loss is None else float(env._curr_best_loss),  # noqa: SLF001
        "best": None if best is None else float(best),
        "best_type": type(best).__name__, "cbl_type": type(env._curr_best_loss).__name__,  # noqa: SLF001
        "blocked": ctl.blocked_at_end, "qvals": [float(x) for x in agent.Q] if hasattr(agent, "Q") else [],
        "counts": [int(x) for x in agent.actions_count] if hasattr(agent, "actions_count") else [],
        "rejects": rejects, "strip": sorted(strip), "boots": boots, "spurious_started": ctl.spurious_started,
    }
    return obs


def explore(cfg, cap, max_steps=400):
    """Every maximal schedule, depth first with replay; returns (observations, complete?)."""
    out, stack = [], [[]]
    while stack:
        if len(out) >= cap:
            return out, False
        prefix = stack.pop()
        o = run_schedule(cfg, prefix, max_steps)
        out.append(o)
        sched, masks = o["sched"], o["masks"]
        for k in range(len(sched) - 1, len(prefix) - 1, -1):
            if masks[k] == 3 and sched[k] == "M":  # default choice was M; the alternative is A
                stack.append(list(sched[:k]) + ["A"])
    return out, True


# ------------------------------------------------------------------------------------------ Coq literals
# kind of synchronisation operation, as numbered by `opcode` in coq/Model/RLProto.v
OPCODE = {"read:stopped": 1, "write:stopped": 2, "start": 3, "get:action": 4, "put:outcome": 5, "join": 6,
          "get_nowait:action": 7, "put:action": 8, "get:outcome": 9}


def _agent_lit(cfg):
    ag, n = cfg["agent"], cfg["nsam"]
    if ag["kind"] == "script":
        return f"(mkag {clist([cnat(a) for a in ag['script']])} 0%nat false 0%Q [] [] {cnat(n)} [])"
    draws = clist([f"({cbool(e)}, {cnat(c)})" for e, c in ag["draws"]])
    qs = clist([cq(float(ag["init"]))] * n)
    return f"(mkag [] 0%nat true {cq(float(ag['alpha']))} {qs} {draws} {cnat(n)} {clist([cnat(0)] * n)})"


def fq(x):
    """Rational literal of a float; a non-finite value (only a broken tree produces one) becomes a sentinel no model value equals."""
    return cq(x) if np.isfinite(x) else cq(-(2.0**200) - 12345.0)


def emit(cfg, o, repaired=True):
    # the calibration thread's steps inside a rejected request (one read of the flag on a correct tree) are not steps of the model's
    # session list: they are deleted, and what remains has to be a run of `step` - i.e. the rejected request moved nothing
    # (theorem C10_rejected_request_moves_nothing is the model's side of this)
    drop = set(o.get("strip", []))
    keep = [k for k in range(len(o["sched"])) if k not in drop]
    sched = clist([o["sched"][k] for k in keep])
    masks = clist([cnat(o["masks"][k]) for k in keep])
    ops = clist([cnat(OPCODE.get(o["ops"][k], 99)) for k in keep])
    ex = clist([f"({cnat(b)}, {cnat(a)})" for b, a in o["executed"]])
    le = clist([f"({cnat(a)}, {fq(r)}, {copt(s, cnat)})" for a, r, s in o["learned"]])
    oq = clist([copt(x, fq) for x in o["oq_end"]])
    qv = clist([fq(x) for x in o.get("qvals", [])])
    obs = (f"(mkobs {cbool(o['finished'])} {cnat(o['final_mask'])} {ex} {le} {clist([cnat(a) for a in o['aq_end']])} {oq} "
           f"{cbool(o['agent_alive_at_end'])} {cbool(o['flag'])} {copt(o['cbl'], fq)} {copt(o['best'], fq)} "
           f"{cnat(len(o['policy']))} {qv})")
    return (f"(mkcase {cbool(repaired)} {cnat(cfg['nsam'])} {cnat(cfg['halton'])} {clist([cq(x) for x in cfg['losses']])} "
            f"{clist([cnat(n) for n in cfg['sessions']])} {_agent_lit(cfg)} {sched} {masks} {ops} {obs})")


# ------------------------------------------------------------------------------------------ direct oracle
def expected_rewards(losses, boots=(0,)):
    """Reward of batch k >= 1 from the losses alone (published rule: relative improvement of the running best); `boots` = the
    batches that are the first one of a scheduler (bootstrap batch: the running best starts there)."""
    out, best = {}, None
    for k, l in enumerate(losses):
        if best is None or k in boots:
            best = l
            continue
        nb = min(best, l)
        if nb < best and best == 0:
            out[k] = None  # the published rule divides by the previous best: undefined here (finding zero-reference-loss)
        else:
            out[k] = (best - nb) / best if nb < best else 0.0
        best = nb
    return out


def oracle(cfg, o, ref):
    """The property statement checked on what the implementation did (independent of the Coq model).
    Returns a list of (clause id, text)."""
    fails = []
    if o["deadlock"]:
        fails.append(("deadlock", f"no thread can proceed; blocked at {o['blocked']}"))
    if o["capped"]:
        fails.append(("no-termination", "step cap reached"))
    if o["m_exc"]:
        fails.append(("calibration-thread-raised", o["m_exc"]))
    if o["a_exc"]:
        fails.append(("agent-thread-died", o["a_exc"][0]))
    exe = o["executed"]
    boots = set(o.get("boots", [0]))  # first batch of a scheduler = bootstrap batch, not chosen by the agent
    chosen = [(b, a) for b, a in exe if b not in boots]
    wrong_boot = [(b, a) for b, a in exe if b in boots and a != cfg["halton"]]
    if wrong_boot:
        fails.append(("bootstrap", f"first batch of a scheduler (batch {wrong_boot[0][0]}) ran sampler {wrong_boot[0][1]}, not the bootstrap sampler"))
    for r in o.get("rejects", []):
        if r["raised"] is None:
            fails.append(("request-not-rejected", f"{r['kind']} (at step {r['at_step']}) was accepted"))
            break
        if r["moved"]:
            fails.append(("rejected-request-moved-state", f"{r['kind']} (at step {r['at_step']}) raised {r['raised']} but: " + "; ".join(r["moved"])))
            break
    if o.get("spurious_started"):
        fails.append(("second-agent-thread", "an agent thread was started while the session's agent thread was running"))
    if any(not 0 <= a < cfg["nsam"] for _, a in exe):
        fails.append(("invalid-index", "a sampler index outside the line-up was used"))
    term = [(a, r) for a, r, s in o["learned"] if s is None]
    if term:
        fails.append(("learned-unexecuted", f"learn(action={term[0][0]}, reward={term[0][1]}) on the end-of-session marker: "
                                            "that action was never executed"))
    real = [(s, a) for a, r, s in o["learned"] if s is not None]
    if Counter(s for s, _ in real) and max(Counter(s for s, _ in real).values()) > 1:
        fails.append(("learned-twice", "two learn calls for the same batch"))
    wrong = [(s, a) for s, a in real if (s, a) not in chosen]
    if wrong:
        fails.append(("misattributed", f"learn for batch {wrong[0][0]} credited sampler {wrong[0][1]}, but that batch ran "
                                       f"sampler {dict(chosen).get(wrong[0][0])}"))
    if o["finished"] and not wrong and not term and real != chosen:
        fails.append(("learn-once", f"batches chosen by the agent {chosen} but learn calls for {real}"))
    er = expected_rewards(cfg["losses"], boots)
    tol = cfg.get("reward_tol", 0.0)  # 0 wherever the arithmetic is exact (dyadic losses); see design.d/C10.md for the inexact ones
    for a, r, s in o["learned"]:
        if s is not None and er.get(s) is not None and not (r == er[s] or abs(r - er[s]) <= tol * abs(er[s])):
            fails.append(("wrong-reward", f"batch {s}: reward {r!r}, expected {er[s]!r} from that batch's outcome"))
            break
    for i, e in enumerate(o["session_ends"]):
        if e["aq"] or e["oq"]:
            fails.append(("leftover-message", f"after session {i}: action queue {e['aq']}, outcome queue {e['oq']}"))
            break
    if any(e["agent_alive"] for e in o["session_ends"]) or (o["finished"] and o["agent_alive_at_end"]):
        fails.append(("thread-alive", "agent thread alive after end_session"))
    if ref is not None and o["finished"] and ref["finished"]:
        if o["executed"] != ref["executed"]:
            fails.append(("schedule-dependent", f"samplers chosen {[a for _, a in o['executed']]} under this schedule but "
                                                f"{[a for _, a in ref['executed']]} under schedule {ref['sched']}"))
        elif o["learned"] != ref["learned"] or o["policy"] != ref["policy"]:
            fails.append(("schedule-dependent-learning", "learn/policy calls differ from those under schedule " + ref["sched"]))
    return fails


# ------------------------------------------------------------------------------------------ case generation
def loss_seq(kind, n):
    if kind == "improving":
        return [float(2 ** (12 - i)) for i in range(n)]
    if kind == "zero":
        return [0.0] * n
    if kind == "zero-cross":  # the best loss is exactly 0, then a loss improves on it
        return [1.0, 0.0, -1.0, -2.0, -2.0, -4.0][:n]
    if kind == "flat":
        return [64.0] + [64.0 + i for i in range(1, n)]
    # ---- round 4 (all dyadic, and every improvement starts from a power of two, so that (c - b) / c is exact)
    if kind == "near":      # one improvement of relative size 2^-20 (inside np.isclose's default rtol), then none
        return [4096.0, 4096.0 - 2.0**-8, 4096.0 - 2.0**-9, 4096.0, 4097.0, 4096.0 - 2.0**-8][:n]
    if kind == "far":       # far from the origin relative to the spread: 2^27 level, O(1) variation (relative 2^-27)
        return [2.0**27, 2.0**27 - 1.0, 2.0**27 - 0.5, 2.0**27, 2.0**27 + 1.0, 2.0**27 - 1.0][:n]
    if kind == "tiny":      # below np.isclose's default atol 1e-8
        return [2.0 ** (-40 - i) for i in range(n)]
    if kind == "huge":
        return [2.0 ** (60 - i) for i in range(n)]
    if kind == "negative":  # all negative, never crossing zero: the published rule gives (c - b) / c = -1 for a halving
        return [-(2.0 ** i) for i in range(n)]
    if kind == "negzero":   # signed zeros: no improvement, no division
        return [-0.0, 0.0, -0.0, 0.0, 0.0, -0.0][:n]
    if kind == "inexact":   # not dyadic: oracle only, with the tolerance of cfg["reward_tol"]
        return [3.0, 1.7, 1.1, 0.3, 0.29, 0.1, 0.07][:n]
    return [float(2 ** (12 - (i // 2) * 2)) + (0.0 if i % 2 == 0 else 3.0) for i in range(n)]  # improves every other batch


def gen_configs(chk):
    rng = chk.rng
    quick = chk.tier == "quick"
    top = 2 if quick else 3
    shapes = []
    for ns in range(1, top + 1):
        def rec(pre):
            if len(pre) == ns:
                shapes.append(list(pre))
                return
            for b in range(1, top + 1):
                rec(pre + [b])
        rec([])
    shapes += [[0], [0, 2], [2, 0, 1]] if quick else [[0], [0, 2], [2, 0, 1], [0, 0], [1, 0, 3]]
    cfgs = []
    for sh in shapes:
        n = sum(sh)
        for lk in (["improving", "flat"] if quick else ["improving", "flat", "mixed"]):
            for ak in ("script", "greedy"):
                nsam = rng.randint(2, 3)
                hal = rng.below(nsam)
                if ak == "script":
                    agent = {"kind": "script", "script": [rng.below(nsam) for _ in range(rng.randint(3, 5))]}
                else:
                    agent = {"kind": "greedy", "alpha": 0.5, "init": rng.choice([0.0, 1.0]),
                             "draws": [[rng.below(3) == 0, rng.below(nsam)] for _ in range(rng.randint(2, 5))]}
                cfgs.append({"sessions": sh, "losses": loss_seq(lk, max(n, 1)), "loss_kind": lk, "nsam": nsam, "halton": hal,
                             "agent": agent, "oracle": True})
    ngrid = len(cfgs)
    # losses that are all zero (reference loss 0: the reward rule must not divide)
    for sh in ([3], [2, 1]):
        cfgs.append({"sessions": sh, "losses": loss_seq("zero", 3), "loss_kind": "zero", "nsam": 2, "halton": rng.below(2),
                     "agent": {"kind": "script", "script": [rng.below(2) for _ in range(3)]}, "oracle": True})
    # a best loss of exactly 0 that is then improved upon (negative losses: a user-defined loss, negative weights): get_reward
    # divides by the reference loss (known finding zero-reference-loss; model: reward_raises -> the agent's thread dies)
    for sh in ([4], [3], [2, 2]):
        cfgs.append({"sessions": sh, "losses": loss_seq("zero-cross", sum(sh)), "loss_kind": "zero-cross", "nsam": 2,
                     "halton": rng.below(2), "agent": {"kind": "script", "script": [rng.below(2) for _ in range(3)]}, "oracle": True})
    # a batch that fails after its sampler was designated, then further sessions (retry): the Coq model has no fault step, so these
    # configurations are judged by the oracle alone ("never learns from an action that was not executed", "no message is left
    # over", attribution in the sessions that follow)
    for sh, fa in (([2, 2], [1]), ([1, 2], [0]), ([2, 1, 1], [1, 1]), ([3, 2], [2])):
        for lk in ("improving", "flat"):
            nsam = rng.randint(2, 3)
            cfgs.append({"sessions": sh, "losses": loss_seq(lk, sum(sh)), "loss_kind": lk, "nsam": nsam, "halton": rng.below(nsam),
                         "agent": {"kind": "script", "script": [rng.below(nsam) for _ in range(rng.randint(3, 5))]},
                         "oracle": True, "model": False, "fault_at": fa})
    # an agent that returns an index outside the action space: its thread dies (model validation only, no oracle)
    cfgs.append({"sessions": [2, 1], "losses": loss_seq("improving", 3), "loss_kind": "improving", "nsam": 2, "halton": 0,
                 "agent": {"kind": "script", "script": [1, 2, 0]}, "oracle": False})
    # the special and the round-4 configurations first, the grid of shapes last: the global cap on the number of schedules (reached
    # at the thorough tier) then cuts into the largest shapes of the grid and never drops a special configuration
    return cfgs[ngrid:] + sweep_configs(chk) + cfgs[:ngrid]


def sweep_configs(chk):
    """Round 4 (generator sweep): representations of the loss object and of the agent's action, line-up containers, sizes at the
    edges, rejected requests, reassigned attributes, scheduler rebuilt on a used environment, sample-average / boundary-epsilon
    agents, loss scales.  Every configuration is enumerated over ALL its interleavings like the others."""
    rng = chk.rng
    quick = chk.tier == "quick"
    out = []

    def script(nsam, act_rep="int"):
        return {"kind": "script", "script": [rng.below(nsam) for _ in range(rng.randint(3, 5))], "act_rep": act_rep}

    def add(dim, sessions, lk, nsam=None, agent=None, multi=0, **kw):
        n = max(sum(sessions), 1)
        nsam = nsam or rng.randint(2, 3)
        cfg = {"sessions": list(sessions), "losses": loss_seq(lk, n), "loss_kind": lk, "nsam": nsam, "halton": rng.below(nsam),
               "agent": agent or script(nsam), "oracle": True, "dim": dim}
        cfg.update(kw)
        if not cfg.get("halton_in", True):
            cfg["halton"] = nsam - 1
        if cfg.get("loss_rep") == "f32":
            cfg["losses"] = [float(np.float32(v)) for v in cfg["losses"]]
        if multi:
            cfg["batches"] = []
            fixed = rng.randint(1, multi)  # the re-used buffer has one length for the whole run
            for m in cfg["losses"]:
                extras = [m, m + abs(m), m + 2 * abs(m) + 1.0]
                vals = [m] + [rng.choice(extras) for _ in range(fixed if cfg.get("loss_rep") == "reuse" else rng.randint(1, multi))]
                rng.shuffle(vals)
                cfg["batches"].append(vals)
        out.append(cfg)
        return cfg

    # (1) representation of the losses handed to update(), of the action returned by the agent, of the line-up
    shapes = [[2], [1, 2], [2, 1], [3]] + ([] if quick else [[2, 2], [1, 1, 2]])
    kinds_for = {"i64": ["improving", "negative", "flat"], "i32": ["improving", "negative", "flat"],
                 "f32": ["improving", "near", "tiny", "negative", "flat", "huge"]}
    all_kinds = ["improving", "near", "far", "tiny", "huge", "negative", "flat", "mixed"]
    k = rng.below(8)
    for rep in LOSS_REPS:
        for _ in range(1 if quick else 2):
            nsam = rng.randint(2, 4)
            kinds = kinds_for.get(rep, all_kinds)
            add("representation", shapes[k % len(shapes)], kinds[k % len(kinds)], nsam=nsam,
                agent=script(nsam, ACT_REPS[k % len(ACT_REPS)]), multi=0 if rep == "0d" else 3, loss_rep=rep,
                lineup=("list", "tuple")[k % 2], halton_in=bool((k // 2) % 2))
            k += 1
    add("representation", [3], "negzero", nsam=2, loss_rep="f64")
    # not dyadic (and float32): judged by the oracle alone
    add("representation", [2, 1], "inexact", multi=2, loss_rep="f32", model=False, reward_tol=1e-10)
    add("representation", [3], "inexact", multi=2, loss_rep="f64", model=False, reward_tol=1e-10)
    # (4) sizes at the edges: a line-up of one, of more than ten
    add("size", [2, 1], "improving", nsam=1)
    add("size", [1, 2], "mixed", nsam=12, agent={"kind": "script", "script": [11, 10, 2, 0], "act_rep": "int64"}, lineup="tuple")
    add("size", [2], "flat", nsam=5, halton_in=False)
    # (6) rejected requests: end_session outside a session (before the first, between two, after the last), start_session inside one
    add("rejected", [1, 2], "improving", events=[[0, "bad_end"], [1, "bad_end"], [2, "bad_end"]])
    add("rejected", [2, 1], "flat", events=[[1, "bad_end"]], agent=None)
    add("rejected", [2], "improving", spurious_start=[[0, 0]])
    add("rejected", [2], "mixed", spurious_start=[[0, 1]])
    add("rejected", [1, 2], "improving", spurious_start=[[1, 1]], events=[[1, "bad_end"]])
    if not quick:
        add("rejected", [2, 2], "mixed", spurious_start=[[0, 1], [1, 0]], events=[[2, "bad_end"]])
        add("rejected", [3], "improving", spurious_start=[[0, 2]])
    # a failing batch, then a rejected request, then normal sessions (oracle only: the model has no fault step)
    add("rejected", [2, 2], "improving", fault_at=[1], events=[[1, "bad_end"]], model=False)
    # a failing batch, then an empty session, then a normal one
    add("sequence", [2, 0, 2], "improving", fault_at=[1], model=False)
    add("sequence", [1, 0, 2], "mixed", fault_at=[0], model=False)
    if not quick:
        add("size", [1, 1, 1, 1], "improving")      # more sessions than the property's quantifier lists
        add("size", [4], "mixed")
    # (3) attributes reassigned after construction: random_state between sessions (re-seeds samplers, agent and environment)
    add("reassigned", [2, 2], "improving", events=[[1, "reseed"]])
    add("reassigned", [1, 2], "mixed", events=[[0, "reseed"], [1, "reseed"]])
    # (2) object reuse: a further scheduler built on the line-up, agent and environment that an earlier one has used
    add("reuse", [2, 2], "improving", events=[[1, "rebuild"]], model=False)
    add("reuse", [1, 1, 2], "mixed", events=[[2, "rebuild"]], model=False, halton_in=False, nsam=3)
    add("reuse", [2, 1, 1], "flat", events=[[1, "rebuild"], [2, "rebuild"]], model=False)
    # (5) the epsilon-greedy agent outside its defaults: sample-average step (alpha = -1), epsilon 0 / 1 / draws equal to epsilon,
    # integer-typed options, attributes assigned after construction
    def greedy(nsam, alpha, eps, init, assign_after=False):
        n = rng.randint(3, 6)
        us = [rng.choice([0.0, 0.25, 0.5, 0.75]) for _ in range(n)]
        return {"kind": "greedy", "alpha": alpha, "init": init, "eps": eps, "us": us, "assign_after": assign_after,
                "draws": [[u < eps, rng.below(nsam)] for u in us]}

    for sh, lk, alpha, eps, init, aa in ([[1, 2], "improving", -1, 0.5, 0.0, False], [[2, 2], "mixed", -1, 0.25, 1, False],
                                        [[2, 1], "improving", 0.5, 0.0, 0.0, False], [[1, 2], "mixed", 1, 1.0, 0, False],
                                        [[2, 2], "improving", 0.25, 0.5, 1.0, True], [[3], "improving", -1.0, 0.75, 0.0, True]):
        for _try in range(30):
            nsam = rng.randint(2, 3)
            cfg = add("agent-options", sh, lk, nsam=nsam, agent=greedy(nsam, alpha, eps, init, aa))
            if alpha != -1:
                break
            # sample-average: 1/count has to be exact in binary for the rational model (counts 1, 2, 4, 8); the counts are the same
            # under every schedule of a correct tree, so one run decides
            if all(c in (0, 1, 2, 4, 8) for c in run_schedule(cfg, [])["counts"]):
                break
            out.pop()
    return out


# ------------------------------------------------------------------------------------------ the exchange inside a Calibrator
def calibrator_level(chk):
    """The same clauses observed through Calibrator.calibrate (token components of the calibrator family, scripted agent that
    logs its learn calls): early stops (convergence precision), several sessions, calibrate(0).  Oracle only - by the time
    calibrate() has returned (the session has ended) every batch but the bootstrap one has exactly one learn call, in order,
    for the sampler that ran it, with the reward of that very batch."""
    from props import calib_common as cc
    from props import calib_family as cf

    rng = chk.rng
    n = 60 if chk.tier == "quick" else 600
    out, stats = [], Counter()
    for i in range(n):
        c = cc.gen_case(rng, i, max_ops=5, max_samplers=4, allow=("calibrate",), rl=True, prec_prob=1 if i % 4 else 10**9, nmax=4)
        c["palette"] = [abs(x) for x in c["palette"]]
        o = cc.run_case(c)
        if o["ctor_exn"] or not o["views"]:
            continue
        tup = o["rl"]["samplers"]
        stopped_early = False
        fails = []
        for k, (op, v) in enumerate(zip(c["ops"], o["views"])):
            if v.get("exn"):
                fails.append(("calibrator-raised", f"op {k}: {v.get('exc')}"))
                break
            gs = cf.groups_of(v)
            if op[0] == "calibrate" and op[1] > 0 and k > 0 and len(gs) - len(cf.groups_of(o["views"][k - 1])) < op[1]:
                stopped_early = True
            if k == 0 and op[0] == "calibrate" and len(gs) < op[1]:
                stopped_early = True
            want = max(0, len(gs) - 1)
            if v.get("nlearned") != want:
                fails.append(("calibrator-learn-once", f"op {k} {op}: {len(gs)} batches recorded (1 bootstrap), {v.get('nlearned')} "
                                                       f"learn calls when calibrate returned, expected {want}"))
                break
        last = o["views"][-1]
        gs = cf.groups_of(last)
        learned = o.get("learned", [])
        if not fails and len(learned) == max(0, len(gs) - 1):
            mins = [min(last["losses"][j] for j in idxs) for _, _, idxs in gs]
            er = expected_rewards(mins)
            for g, (u, _c, _idxs) in enumerate(gs[1:], start=1):
                a, r = learned[g - 1]
                if a >= len(tup) or tup[a][1] != u:
                    fails.append(("calibrator-misattributed", f"batch {g} ran sampler uid {u}, its learn call credits action {a}"))
                    break
                if er.get(g) is not None and r != er[g]:
                    fails.append(("calibrator-wrong-reward", f"batch {g}: reward {r}, expected {er[g]} from the recorded losses"))
                    break
        stats["calibrator runs"] += 1
        stats["calibrator runs with an early stop"] += int(stopped_early)
        stats["calibrator sessions"] += len(c["ops"])
        if fails:
            out.append((c, o, fails))
    return out, stats


def _known_input(cfg, o, clause):
    """The input of the known finding `zero-reference-loss`: a best loss of exactly 0 improved upon, get_reward dividing by it."""
    died = (o.get("a_exc") or [""])[0]
    return bool(cfg.get("loss_kind") == "zero-cross" and "ZeroDivisionError" in died
                and clause in ("agent-thread-died", "deadlock", "leftover-message", "learn-once"))


def coq_mismatches_grouped(chk, name, check_fn, lits, shard=300, group=5, retries=2):
    """chk.coq_mismatches over at most `group` shards at a time (bounds the memory of the concurrent coqc processes; about 0.4 GB
    each) and with a shard whose coqc was KILLED (rc -9 / 137: the kernel's out-of-memory killer on a shared machine) re-run up
    to `retries` times.  Any other error, and a kill that persists, is reported as before (the check fails closed)."""
    bad, errors = [], []
    step = shard * group
    for k in range(0, len(lits), step):
        for attempt in range(retries + 1):
            b, e = chk.coq_mismatches(f"{name}g{k // step}", IMPORTS, check_fn, CASE_T, lits[k:k + step], shard=shard)
            killed = [x for x in e if "rc=-9" in x or "rc=137" in x]
            if not killed or attempt == retries:
                break
            chk.notes.append(f"coqc killed by the system on {len(killed)} shard(s) of group {k // step}; re-run")
            time.sleep(5 * (attempt + 1))
        bad += [k + i for i in b]
        errors += e
    return bad, errors


def _records(cfg, obs, complete, dt, keep_all=False):
    """What the main process needs of the runs of one configuration.  Built in the worker process: the full observations of a
    thorough run (200000 schedules) take more than 1 GB, which the shared build machine does not always have.  Per schedule: the
    oracle's verdict, the Coq literal, and the observation itself only for the reference schedule and the failing ones."""
    use_model = cfg.get("model", True)
    if not use_model:
        obs = obs[:400]
    ref = obs[0] if obs else None
    recs = []
    for j, o in enumerate(obs):
        fails = oracle(cfg, o, None if o is ref else ref) if cfg.get("oracle", True) else []
        recs.append({"sched": o["sched"], "nontrivial": 3 in o["masks"], "unreleased": o["unreleased_threads"],
                     "fails": [(c, t, _known_input(cfg, o, c)) for c, t in fails],
                     "lit": emit(cfg, o, True) if use_model else None,
                     "obs": o if (fails or j == 0 or keep_all) else None})
    return recs, complete, dt


def _explore_job(args):
    cfg, cap = args
    t0 = time.time()
    obs, complete = explore(cfg, cap)
    return _records(cfg, obs, complete, time.time() - t0)


def run(chk, replay=None):
    chk.proof_gate()
    quick = chk.tier == "quick"
    pool = None
    if replay:
        rc = json.loads(open(replay).read())["case"]
        cfgs = [rc["cfg"]]
        obs = [run_schedule(rc["cfg"], list(rc["schedule"]), lenient=True)]
        if rc.get("reference_schedule"):
            obs.insert(0, run_schedule(rc["cfg"], list(rc["reference_schedule"]), lenient=True))
        results = [_records(rc["cfg"], obs, True, 0.0, keep_all=True)]
    else:
        cfgs = gen_configs(chk)
        per_cfg_cap = 600 if quick else 20000
        import multiprocessing as mp

        pool = mp.get_context("fork").Pool(16)
        results = pool.imap(_explore_job, [(c, per_cfg_cap) for c in cfgs], chunksize=1)   # in order, streamed
    total_cap = 14000 if quick else 200000
    group = 5 if quick else 12
    chunk = 300 * group                      # Coq evaluates the schedules chunk by chunk while the enumeration goes on
    stride = 10 if quick else 500            # sample for the pre-repair diagnostic
    exhaustive = True
    stats = Counter()
    nmodel = unreleased = flushes = 0
    keys_n = nontrivial_n = max_per_cfg = 0
    impl_cpu = 0.0
    pending, pending_meta, bad, errors, sample_lits = [], [], set(), [], []
    worst, corr, samples, printed = {}, None, [], []

    def flush():
        nonlocal corr, flushes
        if not pending:
            return
        base = nmodel - len(pending)
        b, e = coq_mismatches_grouped(chk, f"C10f{flushes}", "check_case", pending, group=group)
        flushes += 1
        errors.extend(e)
        for j in b:
            bad.add(base + j)
            size, ci, sched, ref_sched, failing = pending_meta[j]
            if not failing and (corr is None or size < corr[0]):
                corr = (size, ci, sched, ref_sched)
        pending.clear()
        pending_meta.clear()

    for ci, (recs, complete, dt) in enumerate(results):
        cfg = cfgs[ci]
        impl_cpu += dt
        max_per_cfg = max(max_per_cfg, len(recs))
        if not complete:
            exhaustive = False
        ref_sched = recs[0]["sched"] if recs else None
        if ci in (0, len(cfgs) // 3, (2 * len(cfgs)) // 3, len(cfgs) - 1) and recs and recs[0]["obs"]:
            samples.append({"cfg": cfg, "schedule": recs[0]["sched"], "executed": recs[0]["obs"]["executed"],
                            "learned": recs[0]["obs"]["learned"]})
        use_model = cfg.get("model", True)
        for j, r in enumerate(recs):
            if use_model and nmodel >= total_cap:
                exhaustive = False
                break
            unreleased += r["unreleased"]
            case = {"cfg": cfg, "schedule": r["sched"], "reference_schedule": ref_sched if j else None}
            if replay:
                printed.append(r["obs"])
            if use_model:
                i = nmodel
                nmodel += 1
                pending.append(r["lit"])
                size = (len(r["sched"]), sum(cfg["sessions"]), i)
                pending_meta.append((size, ci, r["sched"], case["reference_schedule"], bool(r["fails"])))
                if i % stride == 0 and len(sample_lits) < 400:
                    sample_lits.append(r["lit"])
                keys_n += 1
                nontrivial_n += int(r["nontrivial"])
                stats[f"sessions={len(cfg['sessions'])}"] += 1
                stats[f"agent={cfg['agent']['kind']}"] += 1
                stats[f"losses={cfg['loss_kind']}"] += 1
                if cfg.get("dim"):
                    stats[f"sweep:{cfg['dim']}"] += 1
                    stats[f"sweep:loss_rep={cfg.get('loss_rep', 'f64')}"] += 1
                    stats[f"sweep:act_rep={cfg['agent'].get('act_rep', 'int')}"] += 1
                stats[f"steps={10 * (len(r['sched']) // 10)}-{10 * (len(r['sched']) // 10) + 9}"] += 1
            else:
                # oracle-only configurations (injected batch faults, rebuilt scheduler, inexact rewards)
                size = (len(r["sched"]), sum(cfg["sessions"]), 10**9 + ci)
                stats["fault-configs" if not cfg.get("dim") else f"sweep:{cfg['dim']} (oracle only)"] += 1
            for clause, text, known in r["fails"]:
                # the shortest failing schedule per clause, kept separately for the inputs of the known finding: a failure of the
                # same clause on any other input must not hide behind it
                wk = (clause, known)
                if wk not in worst or size < worst[wk][0]:
                    lit = r["lit"] or "(oracle-only configuration: no model step for an injected batch fault / a rebuilt scheduler / inexact rewards)"
                    worst[wk] = (size, case, text, [f"{c}: {t}" for c, t, _ in r["fails"]], r["obs"], lit)
        if len(pending) >= chunk:
            flush()
    flush()
    if pool is not None:
        pool.close()
        pool.join()
    # diagnostic only: which of a sample of the runs follow the protocol as it was before the repair
    old_bad, _ = coq_mismatches_grouped(chk, "C10old", "check_case_other", sample_lits)
    follows_old = len(sample_lits) - len(old_bad)
    for (clause, known), (_, case, text, allf, o, lit) in sorted(worst.items()):
        desc = {"kind": "oracle", "clause": clause}
        if known:
            desc["input"] = "zero-reference-loss"  # what the known finding is identified by; any other clause is reported as usual
        chk.violation(desc,
                      {"failed": f"oracle:{clause}: {text}", "all": allf, "case": case,
                       "observed": o, "coq_case": lit,
                       "follows_pre_repair_protocol_sample": f"{follows_old}/{len(sample_lits)}",
                       "note": "schedule = thread chosen at every synchronisation point (M calibration thread, A agent thread), "
                               "shortest failing schedule found for this clause; re-run with bin/check C10 --replay <this file>"})
    if corr is not None:
        _, ci, sched, ref_sched = corr
        o = run_schedule(cfgs[ci], list(sched), lenient=True)   # deterministic: the observation is re-made for the report
        chk.violation({"kind": "correspondence", "name": "step"},
                      {"failed": "correspondence:step (the tree does not follow the protocol of coq/Model/RLProto.v `step` on this "
                                 "schedule; the property oracle found no failing input)",
                       "case": {"cfg": cfgs[ci], "schedule": sched, "reference_schedule": ref_sched}, "observed": o,
                       "coq_case": emit(cfgs[ci], o, True), "disagreeing_cases": len(bad)}, no_input=True)
    for e in errors:
        chk.violation({"kind": "correspondence", "name": "coqc"}, {"failed": "correspondence:coqc", "detail": e}, no_input=True)
    cal_fails, cal_stats = ([], Counter()) if replay else calibrator_level(chk)
    seen_clause = set()
    for c, o, fails in cal_fails:
        clause, text = fails[0]
        if clause in seen_clause:
            continue
        seen_clause.add(clause)
        chk.violation({"kind": "oracle", "clause": clause},
                      {"failed": f"oracle:{clause}: {text}", "case": {x: c[x] for x in c}, "learned": o.get("learned"),
                       "last_view": {k: o["views"][-1][k] for k in ("params", "losses", "batchidx", "nlearned")},
                       "note": "token calibrator with an RL scheduler (harness/props/calib_common.py): parameters encode (sampler uid, call, "
                               "history length, row); losses come from the case's palette"})
    stats.update(cal_stats)
    if unreleased:
        chk.notes.append(f"{unreleased} controlled threads could not be released")
    if replay:
        for o in printed:
            print(json.dumps({k: o[k] for k in ("sched", "executed", "learned", "session_ends", "deadlock")}, default=str))
    cov = {
        "evaluations": nmodel, "distinct": keys_n, "distinct_nontrivial": nontrivial_n,
        "rule": "every maximal interleaving at the synchronisation points (queue put/get/get_nowait, _stopped read/write, thread "
                "start/join) of the real RLScheduler + MABCalibrationEnv + logging agent, enumerated depth-first with replay by a "
                "cooperative scheduler, for every list of 1-2 sessions of 1-2 batches (quick) / 1-3 of 1-3 (thorough) plus sessions "
                "with 0 batches, improving / non-improving (/ mixed) losses, a scripted agent and the real MABEpsilonGreedy with "
                "recorded draws, plus the round-4 configurations (representations of the loss object / action / line-up, loss scales, "
                "rejected start_session / end_session requests, random_state reassigned between sessions, sample-average and "
                "boundary-epsilon agents; a scheduler rebuilt on a used environment, failing batches and inexact rewards are judged "
                "by the oracle alone); each schedule is re-executed by the Coq model `step`, comparing the enabled set before every step "
                "and the final logs, queue contents, thread liveness, flag, reference losses, agent state; non-trivial = some "
                "decision had both threads enabled; distinct = distinct (configuration, schedule)",
        "samples": samples[:4],
        "traces_validated_against_impl": nmodel - len(bad), "model_impl_disagreements": len(bad),
        "distribution": dict(sorted(stats.items())),
        "exhaustive": bool(exhaustive and not replay),
        "exhaustive_part": "all interleavings of every listed configuration" if exhaustive else
                           "enumeration stopped at the cap for at least one configuration",
        "configurations": len(cfgs),
        "schedules_per_configuration_max": max_per_cfg,
        "sample_following_pre_repair_protocol": f"{follows_old}/{len(sample_lits)}",
        "implementation_cpu_s": round(impl_cpu, 1),
    }
    return chk.finish(
        cov,
        assumptions=["atomicity: code between two synchronisation points touches only thread-local state (the one shared variable "
                     "env._curr_best_loss is written by the calibration thread only in the step that starts the agent thread or "
                     "before, and otherwise only by the agent thread)",
                     "queue.Queue is a FIFO whose get blocks exactly when it is empty; Thread.join returns exactly when the target "
                     "returned or raised",
                     "losses and rewards used in the correspondence are dyadic so that float and rational arithmetic agree exactly"],
        trusted=["modelled, not verified: CPython thread switching between synchronisation points, queue.Queue, threading.Thread",
                 "the cooperative scheduler of harness/props/c10_sched.py"],
    )
