"""C10 - the RL scheduler-agent exchange is correct under every thread interleaving.

Model: coq/Model/RLProto.v (`step` = protocol of the repaired tree, `step_old` = protocol before the repair)
Theorems: coq/Properties/C10.v
Correspondence: the real RLScheduler + MABCalibrationEnv + a logging agent are driven through EVERY interleaving
at the synchronisation points (depth-first enumeration with replay, props/c10_sched.py) for small session/batch
counts; every schedule is then executed by the Coq model and the enabled sets along the run and the final logs,
queue contents, thread liveness are compared.  A direct oracle of the property statement runs on the observations.
"""
from __future__ import annotations

import json
import time
import weakref
from collections import Counter
from fractions import Fraction

import numpy as np

from common import cbool, clist, cnat, copt, cq
from props.c10_sched import Abort, Ctl, VQueue, make_shim

IMPORTS = "From Coq Require Import List ZArith QArith.\nFrom BlackIt Require Import Model.RLProto."
CASE_T = "rl_case"

_HOLDER = {"ctl": None}


def _ctl():
    return _HOLDER["ctl"]


# ------------------------------------------------------------------------------------------ implementation run
def _build(cfg):
    """Real scheduler + env + logging agent with the instrumented queues/flag/thread (no repo file is edited)."""
    from black_it.samplers.halton import HaltonSampler
    from black_it.samplers.random_uniform import RandomUniformSampler
    from black_it.schedulers.rl import rl_scheduler as rlmod
    from black_it.schedulers.rl.agents.base import Agent
    from black_it.schedulers.rl.agents.epsilon_greedy import MABEpsilonGreedy
    from black_it.schedulers.rl.envs.mab import MABCalibrationEnv

    log = {"policy": [], "learn": []}

    class ScriptAgent(Agent):
        def __init__(self, script):
            super().__init__(random_state=0)
            self.script, self.k = script, 0

        def policy(self, state):  # noqa: ARG002
            a = self.script[self.k % len(self.script)]
            self.k += 1
            log["policy"].append(a)
            return a

        def learn(self, state, action, reward, next_state):  # noqa: ARG002
            log["learn"].append((int(action), float(reward), _ctl().last_src))

    class Draws:
        """Stands for numpy's Generator inside MABEpsilonGreedy.policy: the recorded draws are replayed."""

        def __init__(self, draws, eps):
            self.draws, self.k, self.eps = draws, 0, eps

        def random(self):
            explore = self.draws[self.k % len(self.draws)][0]
            return 0.0 if explore else 1.0

        def choice(self, options, n):  # noqa: ARG002
            return [options[self.draws[self.k % len(self.draws)][1] % len(options)]]

    class LoggedGreedy(MABEpsilonGreedy):
        def __init__(self, n, alpha, init, draws):
            super().__init__(n, alpha, 0.5, initial_values=init, random_state=0)
            self._draws = Draws(draws, 0.5)

        @property
        def random_generator(self):
            return self._draws

        def policy(self, obs):
            a = super().policy(obs)
            self._draws.k += 1
            log["policy"].append(a)
            return a

        def learn(self, state, action, reward, next_state):
            log["learn"].append((int(action), float(reward), _ctl().last_src))
            super().learn(state, action, reward, next_state)

    class VRL(rlmod.RLScheduler):
        @property
        def _stopped(self):
            c = _ctl()
            if c is not None:
                c.yield_point("read:stopped")
            return self.__dict__["_st"]

        @_stopped.setter
        def _stopped(self, v):
            c = _ctl()
            if c is not None:
                c.yield_point("write:stopped")
            self.__dict__["_st"] = v

    nsam, hal = cfg["nsam"], cfg["halton"]
    samplers = [HaltonSampler(batch_size=1) if i == hal else RandomUniformSampler(batch_size=1) for i in range(nsam)]
    env = MABCalibrationEnv(nsam)
    env._in_queue = VQueue(_ctl, "outcome")  # noqa: SLF001
    env._out_queue = VQueue(_ctl, "action")  # noqa: SLF001
    ag = cfg["agent"]
    if ag["kind"] == "script":
        agent = ScriptAgent(ag["script"])
    else:
        agent = LoggedGreedy(nsam, ag["alpha"], ag["init"], ag["draws"])
    rlmod.threading = make_shim(_ctl)
    sch = VRL(samplers, agent, env, random_state=0)
    return sch, env, agent, log, rlmod


class InjectedBatchFault(Exception):
    pass


def run_schedule(cfg, prefix, max_steps=400, lenient=False):
    """One controlled run; returns the observation dict (schedule actually followed, enabled masks, logs)."""
    import threading as real_threading

    _HOLDER["ctl"] = None
    sch, env, agent, log, rlmod = _build(cfg)
    ctl = Ctl(prefix, max_steps, lenient)
    _HOLDER["ctl"] = ctl
    executed, session_ends, m_exc = [], [], None
    b = 0
    faults = list(cfg.get("fault_at", []))      # a batch that raises after the sampler was designated (sampler / model / loss failure)
    try:
        for nb in cfg["sessions"]:
            try:
                with sch.session():
                    for _ in range(nb):
                        s = sch.get_next_sampler()
                        idx = [i for i, x in enumerate(sch.samplers) if x is s][0]
                        if faults and faults[0] == b:
                            faults.pop(0)
                            raise InjectedBatchFault(b)        # the session is closed by session()'s finally; the batch did not run
                        executed.append((b, idx))
                        ctl.cur_batch = b
                        sch.update(b, np.array([[float(b)]]), np.array([cfg["losses"][b]]), None)
                        ctl.cur_batch = None
                        b += 1
            except InjectedBatchFault:
                pass
            session_ends.append({
                "aq": [int(x) for x, _ in env._out_queue.items],  # noqa: SLF001
                "oq": [None if x is None else float(x[1]) for x, _ in env._in_queue.items],  # noqa: SLF001
                "agent_alive": bool(sch._agent_thread is not None and sch._agent_thread.is_alive()),  # noqa: SLF001
            })
    except Abort:
        pass
    except Exception as e:  # noqa: BLE001
        m_exc = f"{type(e).__name__}: {e}"
    finished = len(session_ends) == len(cfg["sessions"]) and m_exc is None
    # threads of the scheduler that have not terminated when the calibration thread is done / stuck
    a_alive = bool(sch._agent_thread is not None and sch._agent_thread.is_alive())  # noqa: SLF001
    stuck = ctl.finish()
    _HOLDER["ctl"] = None
    rlmod.threading = real_threading
    obs = {
        "sched": "".join(ctl.sched), "masks": list(ctl.masks), "ops": list(ctl.ops), "final_mask": ctl.final_mask,
        "deadlock": ctl.deadlock, "capped": ctl.capped, "diverged": ctl.diverged, "finished": finished,
        "m_exc": m_exc, "a_exc": list(ctl.a_exc), "agent_alive_at_end": a_alive, "unreleased_threads": len(stuck),
        "executed": executed, "learned": list(log["learn"]), "policy": list(log["policy"]),
        "session_ends": session_ends,
        "aq_end": [int(x) for x, _ in env._out_queue.items],  # noqa: SLF001
        "oq_end": [None if x is None else float(x[1]) for x, _ in env._in_queue.items],  # noqa: SLF001
        "flag": bool(sch.__dict__["_st"]), "cbl": env._curr_best_loss, "best": sch._best_loss,  # noqa: SLF001
        "blocked": ctl.blocked_at_end, "qvals": [float(x) for x in agent.Q] if hasattr(agent, "Q") else [],
    }
    return obs


def explore(cfg, cap, max_steps=400):
    """Every maximal schedule, depth first with replay; returns (observations, complete?)."""
    out, stack = [], [[]]
    while stack:
        if len(out) >= cap:
            return out, False
        prefix = stack.pop()
        o = run_schedule(cfg, prefix, max_steps)
        out.append(o)
        sched, masks = o["sched"], o["masks"]
        for k in range(len(sched) - 1, len(prefix) - 1, -1):
            if masks[k] == 3 and sched[k] == "M":  # default choice was M; the alternative is A
                stack.append(list(sched[:k]) + ["A"])
    return out, True


# ------------------------------------------------------------------------------------------ Coq literals
# kind of synchronisation operation, as numbered by `opcode` in coq/Model/RLProto.v
OPCODE = {"read:stopped": 1, "write:stopped": 2, "start": 3, "get:action": 4, "put:outcome": 5, "join": 6,
          "get_nowait:action": 7, "put:action": 8, "get:outcome": 9}


def _agent_lit(cfg):
    ag, n = cfg["agent"], cfg["nsam"]
    if ag["kind"] == "script":
        return f"(mkag {clist([cnat(a) for a in ag['script']])} 0%nat false 0%Q [] [] {cnat(n)})"
    draws = clist([f"({cbool(e)}, {cnat(c)})" for e, c in ag["draws"]])
    qs = clist([cq(ag["init"])] * n)
    return f"(mkag [] 0%nat true {cq(ag['alpha'])} {qs} {draws} {cnat(n)})"


def emit(cfg, o, repaired=True):
    sched = clist(list(o["sched"]))
    masks = clist([cnat(m) for m in o["masks"]])
    ops = clist([cnat(OPCODE.get(x, 99)) for x in o["ops"]])
    ex = clist([f"({cnat(b)}, {cnat(a)})" for b, a in o["executed"]])
    le = clist([f"({cnat(a)}, {cq(r)}, {copt(s, cnat)})" for a, r, s in o["learned"]])
    oq = clist([copt(x, cq) for x in o["oq_end"]])
    qv = clist([cq(x) for x in o.get("qvals", [])])
    obs = (f"(mkobs {cbool(o['finished'])} {cnat(o['final_mask'])} {ex} {le} {clist([cnat(a) for a in o['aq_end']])} {oq} "
           f"{cbool(o['agent_alive_at_end'])} {cbool(o['flag'])} {copt(o['cbl'], cq)} {copt(o['best'], cq)} "
           f"{cnat(len(o['policy']))} {qv})")
    return (f"(mkcase {cbool(repaired)} {cnat(cfg['nsam'])} {cnat(cfg['halton'])} {clist([cq(x) for x in cfg['losses']])} "
            f"{clist([cnat(n) for n in cfg['sessions']])} {_agent_lit(cfg)} {sched} {masks} {ops} {obs})")


# ------------------------------------------------------------------------------------------ direct oracle
def expected_rewards(losses):
    """Reward of batch k >= 1 from the losses alone (published rule: relative improvement of the running best)."""
    out, best = {}, None
    for k, l in enumerate(losses):
        if best is None:
            best = l
            continue
        nb = min(best, l)
        if nb < best and best == 0:
            out[k] = None  # the published rule divides by the previous best: undefined here (finding zero-reference-loss)
        else:
            out[k] = (best - nb) / best if nb < best else 0.0
        best = nb
    return out


def oracle(cfg, o, ref):
    """The property statement checked on what the implementation did (independent of the Coq model).
    Returns a list of (clause id, text)."""
    fails = []
    if o["deadlock"]:
        fails.append(("deadlock", f"no thread can proceed; blocked at {o['blocked']}"))
    if o["capped"]:
        fails.append(("no-termination", "step cap reached"))
    if o["m_exc"]:
        fails.append(("calibration-thread-raised", o["m_exc"]))
    if o["a_exc"]:
        fails.append(("agent-thread-died", o["a_exc"][0]))
    exe = o["executed"]
    chosen = [(b, a) for b, a in exe if b >= 1]  # batch 0 is the bootstrap batch, not chosen by the agent
    if exe and exe[0] != (0, cfg["halton"]):
        fails.append(("bootstrap", f"first batch ever ran sampler {exe[0][1]}, not the bootstrap sampler"))
    if any(not 0 <= a < cfg["nsam"] for _, a in exe):
        fails.append(("invalid-index", "a sampler index outside the line-up was used"))
    term = [(a, r) for a, r, s in o["learned"] if s is None]
    if term:
        fails.append(("learned-unexecuted", f"learn(action={term[0][0]}, reward={term[0][1]}) on the end-of-session marker: "
                                            "that action was never executed"))
    real = [(s, a) for a, r, s in o["learned"] if s is not None]
    if Counter(s for s, _ in real) and max(Counter(s for s, _ in real).values()) > 1:
        fails.append(("learned-twice", "two learn calls for the same batch"))
    wrong = [(s, a) for s, a in real if (s, a) not in chosen]
    if wrong:
        fails.append(("misattributed", f"learn for batch {wrong[0][0]} credited sampler {wrong[0][1]}, but that batch ran "
                                       f"sampler {dict(chosen).get(wrong[0][0])}"))
    if o["finished"] and not wrong and not term and real != chosen:
        fails.append(("learn-once", f"batches chosen by the agent {chosen} but learn calls for {real}"))
    er = expected_rewards(cfg["losses"])
    for a, r, s in o["learned"]:
        if s is not None and er.get(s) is not None and r != er[s]:
            fails.append(("wrong-reward", f"batch {s}: reward {r}, expected {er[s]} from that batch's outcome"))
            break
    for i, e in enumerate(o["session_ends"]):
        if e["aq"] or e["oq"]:
            fails.append(("leftover-message", f"after session {i}: action queue {e['aq']}, outcome queue {e['oq']}"))
            break
    if any(e["agent_alive"] for e in o["session_ends"]) or (o["finished"] and o["agent_alive_at_end"]):
        fails.append(("thread-alive", "agent thread alive after end_session"))
    if ref is not None and o["finished"] and ref["finished"]:
        if o["executed"] != ref["executed"]:
            fails.append(("schedule-dependent", f"samplers chosen {[a for _, a in o['executed']]} under this schedule but "
                                                f"{[a for _, a in ref['executed']]} under schedule {ref['sched']}"))
        elif o["learned"] != ref["learned"] or o["policy"] != ref["policy"]:
            fails.append(("schedule-dependent-learning", "learn/policy calls differ from those under schedule " + ref["sched"]))
    return fails


# ------------------------------------------------------------------------------------------ case generation
def loss_seq(kind, n):
    if kind == "improving":
        return [float(2 ** (12 - i)) for i in range(n)]
    if kind == "zero":
        return [0.0] * n
    if kind == "zero-cross":  # the best loss is exactly 0, then a loss improves on it
        return [1.0, 0.0, -1.0, -2.0, -2.0, -4.0][:n]
    if kind == "flat":
        return [64.0] + [64.0 + i for i in range(1, n)]
    return [float(2 ** (12 - (i // 2) * 2)) + (0.0 if i % 2 == 0 else 3.0) for i in range(n)]  # improves every other batch


def gen_configs(chk):
    rng = chk.rng
    quick = chk.tier == "quick"
    top = 2 if quick else 3
    shapes = []
    for ns in range(1, top + 1):
        def rec(pre):
            if len(pre) == ns:
                shapes.append(list(pre))
                return
            for b in range(1, top + 1):
                rec(pre + [b])
        rec([])
    shapes += [[0], [0, 2], [2, 0, 1]] if quick else [[0], [0, 2], [2, 0, 1], [0, 0], [1, 0, 3]]
    cfgs = []
    for sh in shapes:
        n = sum(sh)
        for lk in (["improving", "flat"] if quick else ["improving", "flat", "mixed"]):
            for ak in ("script", "greedy"):
                nsam = rng.randint(2, 3)
                hal = rng.below(nsam)
                if ak == "script":
                    agent = {"kind": "script", "script": [rng.below(nsam) for _ in range(rng.randint(3, 5))]}
                else:
                    agent = {"kind": "greedy", "alpha": 0.5, "init": rng.choice([0.0, 1.0]),
                             "draws": [[rng.below(3) == 0, rng.below(nsam)] for _ in range(rng.randint(2, 5))]}
                cfgs.append({"sessions": sh, "losses": loss_seq(lk, max(n, 1)), "loss_kind": lk, "nsam": nsam, "halton": hal,
                             "agent": agent, "oracle": True})
    # losses that are all zero (reference loss 0: the reward rule must not divide)
    for sh in ([3], [2, 1]):
        cfgs.append({"sessions": sh, "losses": loss_seq("zero", 3), "loss_kind": "zero", "nsam": 2, "halton": rng.below(2),
                     "agent": {"kind": "script", "script": [rng.below(2) for _ in range(3)]}, "oracle": True})
    # a best loss of exactly 0 that is then improved upon (negative losses: a user-defined loss, negative weights): get_reward
    # divides by the reference loss (known finding zero-reference-loss; model: reward_raises -> the agent's thread dies)
    for sh in ([4], [3], [2, 2]):
        cfgs.append({"sessions": sh, "losses": loss_seq("zero-cross", sum(sh)), "loss_kind": "zero-cross", "nsam": 2,
                     "halton": rng.below(2), "agent": {"kind": "script", "script": [rng.below(2) for _ in range(3)]}, "oracle": True})
    # a batch that fails after its sampler was designated, then further sessions (retry): the Coq model has no fault step, so these
    # configurations are judged by the oracle alone ("never learns from an action that was not executed", "no message is left
    # over", attribution in the sessions that follow)
    for sh, fa in (([2, 2], [1]), ([1, 2], [0]), ([2, 1, 1], [1, 1]), ([3, 2], [2])):
        for lk in ("improving", "flat"):
            nsam = rng.randint(2, 3)
            cfgs.append({"sessions": sh, "losses": loss_seq(lk, sum(sh)), "loss_kind": lk, "nsam": nsam, "halton": rng.below(nsam),
                         "agent": {"kind": "script", "script": [rng.below(nsam) for _ in range(rng.randint(3, 5))]},
                         "oracle": True, "model": False, "fault_at": fa})
    # an agent that returns an index outside the action space: its thread dies (model validation only, no oracle)
    cfgs.append({"sessions": [2, 1], "losses": loss_seq("improving", 3), "loss_kind": "improving", "nsam": 2, "halton": 0,
                 "agent": {"kind": "script", "script": [1, 2, 0]}, "oracle": False})
    return cfgs


# ------------------------------------------------------------------------------------------ the exchange inside a Calibrator
def calibrator_level(chk):
    """The same clauses observed through Calibrator.calibrate (token components of the calibrator family, scripted agent that
    logs its learn calls): early stops (convergence precision), several sessions, calibrate(0).  Oracle only - by the time
    calibrate() has returned (the session has ended) every batch but the bootstrap one has exactly one learn call, in order,
    for the sampler that ran it, with the reward of that very batch."""
    from props import calib_common as cc
    from props import calib_family as cf

    rng = chk.rng
    n = 60 if chk.tier == "quick" else 600
    out, stats = [], Counter()
    for i in range(n):
        c = cc.gen_case(rng, i, max_ops=5, max_samplers=4, allow=("calibrate",), rl=True, prec_prob=1 if i % 4 else 10**9, nmax=4)
        c["palette"] = [abs(x) for x in c["palette"]]
        o = cc.run_case(c)
        if o["ctor_exn"] or not o["views"]:
            continue
        tup = o["rl"]["samplers"]
        stopped_early = False
        fails = []
        for k, (op, v) in enumerate(zip(c["ops"], o["views"])):
            if v.get("exn"):
                fails.append(("calibrator-raised", f"op {k}: {v.get('exc')}"))
                break
            gs = cf.groups_of(v)
            if op[0] == "calibrate" and op[1] > 0 and k > 0 and len(gs) - len(cf.groups_of(o["views"][k - 1])) < op[1]:
                stopped_early = True
            if k == 0 and op[0] == "calibrate" and len(gs) < op[1]:
                stopped_early = True
            want = max(0, len(gs) - 1)
            if v.get("nlearned") != want:
                fails.append(("calibrator-learn-once", f"op {k} {op}: {len(gs)} batches recorded (1 bootstrap), {v.get('nlearned')} "
                                                       f"learn calls when calibrate returned, expected {want}"))
                break
        last = o["views"][-1]
        gs = cf.groups_of(last)
        learned = o.get("learned", [])
        if not fails and len(learned) == max(0, len(gs) - 1):
            mins = [min(last["losses"][j] for j in idxs) for _, _, idxs in gs]
            er = expected_rewards(mins)
            for g, (u, _c, _idxs) in enumerate(gs[1:], start=1):
                a, r = learned[g - 1]
                if a >= len(tup) or tup[a][1] != u:
                    fails.append(("calibrator-misattributed", f"batch {g} ran sampler uid {u}, its learn call credits action {a}"))
                    break
                if er.get(g) is not None and r != er[g]:
                    fails.append(("calibrator-wrong-reward", f"batch {g}: reward {r}, expected {er[g]} from the recorded losses"))
                    break
        stats["calibrator runs"] += 1
        stats["calibrator runs with an early stop"] += int(stopped_early)
        stats["calibrator sessions"] += len(c["ops"])
        if fails:
            out.append((c, o, fails))
    return out, stats


def _explore_job(args):
    cfg, cap = args
    t0 = time.time()
    obs, complete = explore(cfg, cap)
    return obs, complete, time.time() - t0


def run(chk, replay=None):
    chk.proof_gate()
    quick = chk.tier == "quick"
    t_impl = time.time()
    if replay:
        rc = json.loads(open(replay).read())["case"]
        cfgs = [rc["cfg"]]
        results = [([run_schedule(rc["cfg"], list(rc["schedule"]), lenient=True)], True, 0.0)]
        if rc.get("reference_schedule"):
            results[0][0].insert(0, run_schedule(rc["cfg"], list(rc["reference_schedule"]), lenient=True))
    else:
        cfgs = gen_configs(chk)
        per_cfg_cap = 600 if quick else 20000
        import multiprocessing as mp

        with mp.get_context("fork").Pool(16) as pool:
            results = pool.map(_explore_job, [(c, per_cfg_cap) for c in cfgs], chunksize=1)
    total_cap = 6000 if quick else 200000
    cases, lits, owner, extra = [], [], [], []
    exhaustive = True
    stats = Counter()
    for ci, (cfg, (obs, complete, _dt)) in enumerate(zip(cfgs, results)):
        if not complete:
            exhaustive = False
        if not cfg.get("model", True):
            extra += [(ci, o) for o in obs[:400]]
            continue
        for o in obs:
            if len(cases) >= total_cap:
                exhaustive = False
                break
            cases.append(o)
            owner.append(ci)
            lits.append(emit(cfg, o, True))
    impl_wall = time.time() - t_impl
    bad, errors = chk.coq_mismatches("C10", IMPORTS, "check_case", CASE_T, lits, shard=600)
    bad = set(bad)
    # diagnostic only: which of a sample of the runs follow the protocol as it was before the repair
    sample_idx = list(range(0, len(cases), max(1, len(cases) // 300)))[:400]
    old_bad, _ = chk.coq_mismatches("C10old", IMPORTS, "check_case_other", CASE_T, [lits[i] for i in sample_idx], shard=600)
    follows_old = len(sample_idx) - len(old_bad)
    refs, nontrivial, keys = {}, set(), set()
    worst, corr = {}, None
    unreleased = 0
    for i, o in enumerate(cases):
        cfg = cfgs[owner[i]]
        ref = refs.setdefault(owner[i], o)
        unreleased += o["unreleased_threads"]
        key = (owner[i], o["sched"])
        keys.add(key)
        stats[f"sessions={len(cfg['sessions'])}"] += 1
        stats[f"agent={cfg['agent']['kind']}"] += 1
        stats[f"losses={cfg['loss_kind']}"] += 1
        stats[f"steps={10 * (len(o['sched']) // 10)}-{10 * (len(o['sched']) // 10) + 9}"] += 1
        if 3 in o["masks"]:
            nontrivial.add(key)
        case = {"cfg": cfg, "schedule": o["sched"], "reference_schedule": ref["sched"] if ref is not o else None}
        fails = oracle(cfg, o, None if ref is o else ref) if cfg.get("oracle", True) else []
        size = (len(o["sched"]), sum(cfg["sessions"]), i)
        for clause, text in fails:
            if clause not in worst or size < worst[clause][0]:
                worst[clause] = (size, i, case, text, fails)
        if not fails and i in bad and (corr is None or size < corr[0]):
            corr = (size, i, case)
    # oracle-only configurations (injected batch faults)
    xrefs = {}
    for ci, o in extra:
        cfg = cfgs[ci]
        ref = xrefs.setdefault(ci, o)
        stats["fault-configs"] += 1
        case = {"cfg": cfg, "schedule": o["sched"], "reference_schedule": ref["sched"] if ref is not o else None}
        fails = oracle(cfg, o, None if ref is o else ref)
        size = (len(o["sched"]), sum(cfg["sessions"]), len(cases) + len(xrefs))
        for clause, text in fails:
            if clause not in worst or size < worst[clause][0]:
                cases.append(o)
                owner.append(ci)
                lits.append("(oracle-only configuration with an injected batch fault)")
                worst[clause] = (size, len(cases) - 1, case, text, fails)
    for clause, (_, i, case, text, fails) in sorted(worst.items()):
        desc = {"kind": "oracle", "clause": clause}
        died = (cases[i].get("a_exc") or [""])[0]
        if (case["cfg"].get("loss_kind") == "zero-cross" and "ZeroDivisionError" in died
                and clause in ("agent-thread-died", "deadlock", "leftover-message", "learn-once")):
            desc["input"] = "zero-reference-loss"  # what the known finding is identified by; any other clause is reported as usual
        chk.violation(desc,
                      {"failed": f"oracle:{clause}: {text}", "all": [f"{c}: {t}" for c, t in fails], "case": case,
                       "observed": cases[i], "coq_case": lits[i],
                       "follows_pre_repair_protocol_sample": f"{follows_old}/{len(sample_idx)}",
                       "note": "schedule = thread chosen at every synchronisation point (M calibration thread, A agent thread), "
                               "shortest failing schedule found for this clause; re-run with bin/check C10 --replay <this file>"})
    if corr is not None:
        _, i, case = corr
        chk.violation({"kind": "correspondence", "name": "step"},
                      {"failed": "correspondence:step (the tree does not follow the protocol of coq/Model/RLProto.v `step` on this "
                                 "schedule; the property oracle found no failing input)", "case": case, "observed": cases[i],
                       "coq_case": lits[i], "disagreeing_cases": len(bad)}, no_input=True)
    for e in errors:
        chk.violation({"kind": "correspondence", "name": "coqc"}, {"failed": "correspondence:coqc", "detail": e}, no_input=True)
    cal_fails, cal_stats = ([], Counter()) if replay else calibrator_level(chk)
    seen_clause = set()
    for c, o, fails in cal_fails:
        clause, text = fails[0]
        if clause in seen_clause:
            continue
        seen_clause.add(clause)
        chk.violation({"kind": "oracle", "clause": clause},
                      {"failed": f"oracle:{clause}: {text}", "case": {x: c[x] for x in c}, "learned": o.get("learned"),
                       "last_view": {k: o["views"][-1][k] for k in ("params", "losses", "batchidx", "nlearned")},
                       "note": "token calibrator with an RL scheduler (harness/props/calib_common.py): parameters encode (sampler uid, call, "
                               "history length, row); losses come from the case's palette"})
    stats.update(cal_stats)
    if unreleased:
        chk.notes.append(f"{unreleased} controlled threads could not be released")
    if replay:
        for o in cases:
            print(json.dumps({k: o[k] for k in ("sched", "executed", "learned", "session_ends", "deadlock")}, default=str))
    cov = {
        "evaluations": len(cases), "distinct": len(keys), "distinct_nontrivial": len(nontrivial),
        "rule": "every maximal interleaving at the synchronisation points (queue put/get/get_nowait, _stopped read/write, thread "
                "start/join) of the real RLScheduler + MABCalibrationEnv + logging agent, enumerated depth-first with replay by a "
                "cooperative scheduler, for every list of 1-2 sessions of 1-2 batches (quick) / 1-3 of 1-3 (thorough) plus sessions "
                "with 0 batches, improving / non-improving (/ mixed) losses, a scripted agent and the real MABEpsilonGreedy with "
                "recorded draws; each schedule is re-executed by the Coq model `step`, comparing the enabled set before every step "
                "and the final logs, queue contents, thread liveness, flag, reference losses, agent state; non-trivial = some "
                "decision had both threads enabled; distinct = distinct (configuration, schedule)",
        "samples": [{"cfg": cfgs[owner[i]], "schedule": cases[i]["sched"], "executed": cases[i]["executed"],
                     "learned": cases[i]["learned"]} for i in range(0, len(cases), max(1, len(cases) // 3))][:4],
        "traces_validated_against_impl": len(cases) - len(bad), "model_impl_disagreements": len(bad),
        "distribution": dict(sorted(stats.items())),
        "exhaustive": bool(exhaustive and not replay),
        "exhaustive_part": "all interleavings of every listed configuration" if exhaustive else
                           "enumeration stopped at the cap for at least one configuration",
        "configurations": len(cfgs),
        "schedules_per_configuration_max": max((len(r[0]) for r in results), default=0),
        "sample_following_pre_repair_protocol": f"{follows_old}/{len(sample_idx)}",
        "implementation_wall_s": round(impl_wall, 1),
    }
    return chk.finish(
        cov,
        assumptions=["atomicity: code between two synchronisation points touches only thread-local state (the one shared variable "
                     "env._curr_best_loss is written by the calibration thread only in the step that starts the agent thread or "
                     "before, and otherwise only by the agent thread)",
                     "queue.Queue is a FIFO whose get blocks exactly when it is empty; Thread.join returns exactly when the target "
                     "returned or raised",
                     "losses and rewards used in the correspondence are dyadic so that float and rational arithmetic agree exactly"],
        trusted=["modelled, not verified: CPython thread switching between synchronisation points, queue.Queue, threading.Thread",
                 "the cooperative scheduler of harness/props/c10_sched.py"],
    )
