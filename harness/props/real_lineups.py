"""Real built-in samplers / losses for the end-to-end oracles of C01 and C05."""
from __future__ import annotations

import contextlib
import io
import shutil
import os
from pathlib import Path

import numpy as np

SCRATCH = Path("/var/tmp/verif-scratch")
CHEAP = ["halton", "rseq", "uniform", "bestbatch", "pso", "cors"]
ALL9 = CHEAP + ["rf", "xgb", "gp"]


def make_sampler(kind, bs, seed, opts=None):
    """opts (round 4, optional): None = the options used since round 1; "nondefault" = every public option of the class set to
    a value different from its default (a checkpoint / reseed that rebuilds a sampler from its class loses them)."""
    if opts == "nondefault":
        return make_sampler_nondefault(kind, bs, seed)
    from black_it.samplers.best_batch import BestBatchSampler
    from black_it.samplers.cors import CORSSampler
    from black_it.samplers.gaussian_process import GaussianProcessSampler
    from black_it.samplers.halton import HaltonSampler
    from black_it.samplers.particle_swarm import ParticleSwarmSampler
    from black_it.samplers.r_sequence import RSequenceSampler
    from black_it.samplers.random_forest import RandomForestSampler
    from black_it.samplers.random_uniform import RandomUniformSampler
    from black_it.samplers.xgboost import XGBoostSampler

    if kind == "halton":
        return HaltonSampler(batch_size=bs, random_state=seed)
    if kind == "rseq":
        return RSequenceSampler(batch_size=bs, random_state=seed)
    if kind == "uniform":
        return RandomUniformSampler(batch_size=bs, random_state=seed)
    if kind == "bestbatch":
        return BestBatchSampler(batch_size=bs, random_state=seed)
    if kind == "pso":
        return ParticleSwarmSampler(batch_size=bs, random_state=seed)
    if kind == "cors":
        return CORSSampler(batch_size=bs, max_samples=40, random_state=seed)
    if kind == "rf":
        return RandomForestSampler(batch_size=bs, random_state=seed, candidate_pool_size=40, n_estimators=8, n_classes=3)
    if kind == "xgb":
        return XGBoostSampler(batch_size=bs, random_state=seed, candidate_pool_size=40, n_estimators=4, max_depth=2)
    if kind == "gp":
        return GaussianProcessSampler(batch_size=bs, random_state=seed, candidate_pool_size=40, optimize_restarts=1)
    raise ValueError(kind)


def make_sampler_nondefault(kind, bs, seed):
    from black_it.samplers.best_batch import BestBatchSampler
    from black_it.samplers.cors import CORSSampler
    from black_it.samplers.gaussian_process import GaussianProcessSampler
    from black_it.samplers.halton import HaltonSampler
    from black_it.samplers.particle_swarm import ParticleSwarmSampler
    from black_it.samplers.r_sequence import RSequenceSampler
    from black_it.samplers.random_forest import RandomForestSampler
    from black_it.samplers.random_uniform import RandomUniformSampler
    from black_it.samplers.xgboost import XGBoostSampler

    if kind == "halton":
        return HaltonSampler(batch_size=bs, random_state=seed, max_deduplication_passes=2)
    if kind == "rseq":
        return RSequenceSampler(batch_size=bs, random_state=seed, max_deduplication_passes=2)
    if kind == "uniform":
        return RandomUniformSampler(batch_size=bs, random_state=seed, max_deduplication_passes=1)
    if kind == "bestbatch":
        return BestBatchSampler(batch_size=bs, random_state=seed, max_deduplication_passes=3, a=1.5, b=2.0, perturbation_range=12)
    if kind == "pso":
        return ParticleSwarmSampler(batch_size=bs, random_state=seed, inertia=0.6, c1=0.4, c2=0.7, global_minimum_across_samplers=True)
    if kind == "cors":
        return CORSSampler(batch_size=bs, max_samples=25, rho0=0.3, p=2.0, random_state=seed)
    if kind == "rf":
        return RandomForestSampler(batch_size=bs, random_state=seed, max_deduplication_passes=2, candidate_pool_size=30, n_estimators=5,
                                   criterion="entropy", n_classes=4)
    if kind == "xgb":
        return XGBoostSampler(batch_size=bs, random_state=seed, max_deduplication_passes=2, candidate_pool_size=30, colsample_bytree=0.9,
                              learning_rate=0.3, max_depth=3, alpha=0.5, n_estimators=6)
    if kind == "gp":
        return GaussianProcessSampler(batch_size=bs, random_state=seed, max_deduplication_passes=2, candidate_pool_size=30,
                                      optimize_restarts=2, acquisition="mean", jitter=0.3)
    raise ValueError(kind)


def ar1_model(theta, N, seed):  # noqa: N803
    rng = np.random.default_rng(seed)
    x = np.zeros((N, 2))
    e = rng.standard_normal((N, 2))
    a = float(theta[0])
    for t in range(1, N):
        x[t] = a * x[t - 1] + e[t] * (0.5 + abs(float(theta[-1])))
    return x


def nan_model(theta, N, seed):  # noqa: N803
    """like ar1_model, but the series are NaN on part of the parameter space (a model that fails numerically there)"""
    x = ar1_model(theta, N, seed)
    if float(theta[0]) > 0.55:
        x[:] = np.nan
    return x


def mut_model(theta, N, seed):  # noqa: N803
    """a model that rescales its parameter vector IN PLACE (a legitimate, if careless, user model): the calibrator must be
    immune to it in the same way whatever the number of jobs"""
    theta *= 0.5
    theta += 0.25
    return ar1_model(theta, N, seed)


def make_loss(kind):
    from black_it.loss_functions.fourier import FourierLoss
    from black_it.loss_functions.gsl_div import GslDivLoss
    from black_it.loss_functions.likelihood import LikelihoodLoss
    from black_it.loss_functions.minkowski import MinkowskiLoss
    from black_it.loss_functions.msm import MethodOfMomentsLoss

    return {"minkowski": MinkowskiLoss, "msm": MethodOfMomentsLoss, "fourier": FourierLoss, "gsl": GslDivLoss,
            "likelihood": LikelihoodLoss}[kind]()


def small_model(theta, N, seed):  # noqa: N803
    """the same process in small units (losses of the order of 1e-2 and below: rounding a loss to two decimals matters)"""
    return 0.01 * ar1_model(theta, N, seed)


def uneven_model(theta, N, seed):  # noqa: N803
    """a model whose running time depends on the run (as every real simulator's does): with several workers the runs of a batch
    complete in an order other than the one they were dispatched in"""
    import time

    time.sleep(0.06 if seed % 3 == 0 else (0.02 if seed % 3 == 1 else 0.0))
    return ar1_model(theta, N, seed)


def f32_model(theta, N, seed):  # noqa: N803
    """returns a float32, Fortran-ordered, non-contiguous, read-only view (a simulator wrapped from single-precision code)"""
    x = np.asfortranarray(np.repeat(ar1_model(theta, N, seed), 2, axis=1).astype(np.float32))[:, ::2]
    x.setflags(write=False)
    return x


def list_model(theta, N, seed):  # noqa: N803
    """returns nested Python lists"""
    return ar1_model(theta, N, seed).tolist()


def wide_model(theta, N, seed):  # noqa: N803
    """series whose scale spans six hundred orders of magnitude over the parameter space (finite: scipy's distances reject
    infinities): losses from O(1) to 1e300, all legitimate float values that a checkpoint has to carry"""
    e = int(round(float(np.sin(7.0 * float(theta[0]))) * 300))          # -300 .. 300 over any parameter range wider than 1
    return ar1_model(theta, N, seed) * (10.0 ** e)


MODELS = {"ar1_model": ar1_model, "nan_model": nan_model, "mut_model": mut_model, "small_model": small_model,
          "uneven_model": uneven_model, "f32_model": f32_model, "list_model": list_model, "wide_model": wide_model}


def make_loss_variant(kind, variant):
    """Loss objects with NON-default options (round 4): a checkpoint that re-creates the loss from its class loses them."""
    from black_it.loss_functions.fourier import FourierLoss
    from black_it.loss_functions.gsl_div import GslDivLoss
    from black_it.loss_functions.likelihood import LikelihoodLoss
    from black_it.loss_functions.minkowski import MinkowskiLoss
    from black_it.loss_functions.msm import MethodOfMomentsLoss

    if variant != "nondefault":
        raise ValueError(variant)
    if kind == "minkowski":
        return MinkowskiLoss(p=1, coordinate_weights=np.array([0.25, 3.0]))
    if kind == "msm":
        return MethodOfMomentsLoss(coordinate_weights=np.array([2.0, 0.5]))
    if kind == "fourier":
        return FourierLoss(f=0.5, coordinate_weights=np.array([0.25, 3.0]))
    if kind == "gsl":
        return GslDivLoss(nb_values=6, nb_word_lengths=3, coordinate_weights=np.array([0.25, 3.0]))
    if kind == "likelihood":
        return LikelihoodLoss(h=0.7)
    raise ValueError(kind)


HOOKS = {}
"""name -> callable, registered by the props modules (round 4).  Three kinds of hook can be named in build(..., hooks={...}):
"samplers": f(list of samplers, spec) -> list      (e.g. samplers that were used before, attributes reassigned)
"args":     f(dict of Calibrator keyword arguments, spec) -> dict   (e.g. the same values in another representation)
"cal":      f(calibrator, spec) -> None             (e.g. attributes assigned after construction)
Hooks are referred to by NAME so that a replay file (JSON) can carry them."""


def build(spec, folder=None, ctor_seed_shift=0, n_jobs=1, verbose=False, hooks=None):
    """spec = {kinds: [(kind, bs)], nparams, E, seed, loss, rl: bool}
    optional keys (round 4; absent = the behaviour of rounds 1-3): precision (list), sim_length, conv_prec, sampler_opts,
    loss_variant, sched_seed (an explicitly constructed scheduler with its own constructor seed), data_len."""
    from black_it.calibrator import Calibrator

    hooks = hooks or {}
    samplers = [make_sampler(k, bs, (1000 + 7 * i + ctor_seed_shift) if ctor_seed_shift is not None else None, *(
                [spec["sampler_opts"]] if spec.get("sampler_opts") else []))
                for i, (k, bs) in enumerate(spec["kinds"])]
    if hooks.get("samplers"):
        samplers = HOOKS[hooks["samplers"]](samplers, spec)
    npar = spec["nparams"]
    bounds = spec.get("bounds") or [[-0.9] + [0.0] * (npar - 1), [0.9] + [1.0] * (npar - 1)]
    prec = spec.get("precision") or [0.01] * npar
    real = MODELS["small_model" if spec.get("model") == "small_model" else "ar1_model"]([0.5] + [0.3] * (npar - 1), spec.get("data_len", 24), 12345)
    kw = {}
    sched_seed = None
    if spec.get("sched_seed") is not None and ctor_seed_shift is not None:
        sched_seed = spec["sched_seed"] + ctor_seed_shift
    if spec.get("rl"):
        from black_it.schedulers.rl.agents.epsilon_greedy import MABEpsilonGreedy
        from black_it.schedulers.rl.envs.mab import MABCalibrationEnv
        from black_it.schedulers.rl.rl_scheduler import RLScheduler

        has_h = any(k == "halton" for k, _ in spec["kinds"])
        n_act = len(samplers) + (0 if has_h else 1)
        agent = MABEpsilonGreedy(n_actions=n_act, alpha=0.1, eps=spec.get("eps", 0.2), initial_values=1.0, random_state=(3 + ctor_seed_shift) if ctor_seed_shift is not None else None)
        kw["scheduler"] = RLScheduler(samplers, agent, MABCalibrationEnv(n_act), *([sched_seed] if spec.get("sched_seed") is not None else []))
    elif spec.get("sched_seed") is not None:
        from black_it.schedulers.round_robin import RoundRobinScheduler

        kw["scheduler"] = RoundRobinScheduler(samplers, random_state=sched_seed)
    else:
        kw["samplers"] = samplers
    loss = make_loss_variant(spec["loss"], spec["loss_variant"]) if spec.get("loss_variant") else make_loss(spec["loss"])
    args = dict(loss_function=loss, real_data=real, model=MODELS[spec.get("model", "ar1_model")],
                parameters_bounds=bounds, parameters_precision=prec, ensemble_size=spec["E"],
                convergence_precision=spec.get("conv_prec"), verbose=verbose, saving_folder=folder, random_state=spec["seed"],
                n_jobs=n_jobs, **kw)
    if spec.get("sim_length") is not None:
        args["sim_length"] = spec["sim_length"]
    if hooks.get("args"):
        args = HOOKS[hooks["args"]](args, spec)
    with contextlib.redirect_stdout(io.StringIO()):
        cal = Calibrator(**args)
    if hooks.get("cal"):
        HOOKS[hooks["cal"]](cal, spec)
    return cal


def history(cal):
    return {
        "params": cal.params_samp.tobytes(), "losses": cal.losses_samp.tobytes(), "series": cal.series_samp.tobytes(),
        "bnums": cal.batch_num_samp.astype(np.int64).tobytes(), "methods": cal.method_samp.astype(np.int64).tobytes(),
        "shape": (cal.params_samp.shape, cal.series_samp.shape, int(cal.n_sampled_params), int(cal.current_batch_index)),
    }


def diff(a, b):
    return [k for k in a if a[k] != b[k]]


def run_segments(spec, segments, boundaries, folder=None, lead_restore=False, **kw):
    """Run calibrate(seg) for each segment; boundary i in {'plain','restore','restore_auto'} separates segment i and i+1.
    lead_restore (round 4, optional): the freshly built calibrator is checkpointed and restored before its first batch."""
    from black_it.calibrator import Calibrator

    cal = build(spec, folder=folder, **kw)
    ret = None
    with contextlib.redirect_stdout(io.StringIO()), np.errstate(all="ignore"):
        if lead_restore:
            cal.create_checkpoint(folder)
            cal = Calibrator.restore_from_checkpoint(folder, model=MODELS[spec.get("model", "ar1_model")])
        for i, seg in enumerate(segments):
            ret = cal.calibrate(seg)
            if i < len(boundaries) and boundaries[i] in ("restore", "restore_auto"):
                # "restore_auto" (round 4): no explicit create_checkpoint - the run is resumed from what calibrate() itself left
                # in its saving folder after the last completed batch (the process died, or was simply stopped, there)
                if boundaries[i] == "restore":
                    cal.create_checkpoint(folder)
                cal = Calibrator.restore_from_checkpoint(folder, model=MODELS[spec.get("model", "ar1_model")])
    h = history(cal)
    h["ret"] = (ret[0].tobytes(), ret[1].tobytes()) if ret is not None else None
    th = getattr(cal.scheduler, "_agent_thread", None)
    if th is not None and th.is_alive():
        cal.scheduler._stopped = True  # noqa: SLF001
        cal.scheduler._out_queue.put(None)  # noqa: SLF001
        th.join(timeout=5)
    return h


def scratch(tag):
    d = SCRATCH / f"{os.getpid()}" / tag
    if d.exists():
        shutil.rmtree(d)
    d.mkdir(parents=True)
    return d


def compositions(n):
    if n == 0:
        yield []
        return
    for first in range(1, n + 1):
        for rest in compositions(n - first):
            yield [first, *rest]
