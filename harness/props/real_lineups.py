"""Real built-in samplers / losses for the end-to-end oracles of C01 and C05."""
from __future__ import annotations

import contextlib
import io
import shutil
import os
from pathlib import Path

import numpy as np

SCRATCH = Path("/var/tmp/verif-scratch")
CHEAP = ["halton", "rseq", "uniform", "bestbatch", "pso", "cors"]
ALL9 = CHEAP + ["rf", "xgb", "gp"]


def make_sampler(kind, bs, seed):
    from black_it.samplers.best_batch import BestBatchSampler
    from black_it.samplers.cors import CORSSampler
    from black_it.samplers.gaussian_process import GaussianProcessSampler
    from black_it.samplers.halton import HaltonSampler
    from black_it.samplers.particle_swarm import ParticleSwarmSampler
    from black_it.samplers.r_sequence import RSequenceSampler
    from black_it.samplers.random_forest import RandomForestSampler
    from black_it.samplers.random_uniform import RandomUniformSampler
    from black_it.samplers.xgboost import XGBoostSampler

    if kind == "halton":
        return HaltonSampler(batch_size=bs, random_state=seed)
    if kind == "rseq":
        return RSequenceSampler(batch_size=bs, random_state=seed)
    if kind == "uniform":
        return RandomUniformSampler(batch_size=bs, random_state=seed)
    if kind == "bestbatch":
        return BestBatchSampler(batch_size=bs, random_state=seed)
    if kind == "pso":
        return ParticleSwarmSampler(batch_size=bs, random_state=seed)
    if kind == "cors":
        return CORSSampler(batch_size=bs, max_samples=40, random_state=seed)
    if kind == "rf":
        return RandomForestSampler(batch_size=bs, random_state=seed, candidate_pool_size=40, n_estimators=8, n_classes=3)
    if kind == "xgb":
        return XGBoostSampler(batch_size=bs, random_state=seed, candidate_pool_size=40, n_estimators=4, max_depth=2)
    if kind == "gp":
        return GaussianProcessSampler(batch_size=bs, random_state=seed, candidate_pool_size=40, optimize_restarts=1)
    raise ValueError(kind)


def ar1_model(theta, N, seed):  # noqa: N803
    rng = np.random.default_rng(seed)
    x = np.zeros((N, 2))
    e = rng.standard_normal((N, 2))
    a = float(theta[0])
    for t in range(1, N):
        x[t] = a * x[t - 1] + e[t] * (0.5 + abs(float(theta[-1])))
    return x


def nan_model(theta, N, seed):  # noqa: N803
    """like ar1_model, but the series are NaN on part of the parameter space (a model that fails numerically there)"""
    x = ar1_model(theta, N, seed)
    if float(theta[0]) > 0.55:
        x[:] = np.nan
    return x


def mut_model(theta, N, seed):  # noqa: N803
    """a model that rescales its parameter vector IN PLACE (a legitimate, if careless, user model): the calibrator must be
    immune to it in the same way whatever the number of jobs"""
    theta *= 0.5
    theta += 0.25
    return ar1_model(theta, N, seed)


def make_loss(kind):
    from black_it.loss_functions.fourier import FourierLoss
    from black_it.loss_functions.gsl_div import GslDivLoss
    from black_it.loss_functions.likelihood import LikelihoodLoss
    from black_it.loss_functions.minkowski import MinkowskiLoss
    from black_it.loss_functions.msm import MethodOfMomentsLoss

    return {"minkowski": MinkowskiLoss, "msm": MethodOfMomentsLoss, "fourier": FourierLoss, "gsl": GslDivLoss,
            "likelihood": LikelihoodLoss}[kind]()


def small_model(theta, N, seed):  # noqa: N803
    """the same process in small units (losses of the order of 1e-2 and below: rounding a loss to two decimals matters)"""
    return 0.01 * ar1_model(theta, N, seed)


MODELS = {"ar1_model": ar1_model, "nan_model": nan_model, "mut_model": mut_model, "small_model": small_model}


def build(spec, folder=None, ctor_seed_shift=0, n_jobs=1, verbose=False):
    """spec = {kinds: [(kind, bs)], nparams, E, seed, loss, rl: bool}"""
    from black_it.calibrator import Calibrator

    samplers = [make_sampler(k, bs, (1000 + 7 * i + ctor_seed_shift) if ctor_seed_shift is not None else None)
                for i, (k, bs) in enumerate(spec["kinds"])]
    npar = spec["nparams"]
    bounds = spec.get("bounds") or [[-0.9] + [0.0] * (npar - 1), [0.9] + [1.0] * (npar - 1)]
    prec = [0.01] * npar
    real = MODELS["small_model" if spec.get("model") == "small_model" else "ar1_model"]([0.5] + [0.3] * (npar - 1), 24, 12345)
    kw = {}
    if spec.get("rl"):
        from black_it.schedulers.rl.agents.epsilon_greedy import MABEpsilonGreedy
        from black_it.schedulers.rl.envs.mab import MABCalibrationEnv
        from black_it.schedulers.rl.rl_scheduler import RLScheduler

        has_h = any(k == "halton" for k, _ in spec["kinds"])
        n_act = len(samplers) + (0 if has_h else 1)
        agent = MABEpsilonGreedy(n_actions=n_act, alpha=0.1, eps=spec.get("eps", 0.2), initial_values=1.0, random_state=(3 + ctor_seed_shift) if ctor_seed_shift is not None else None)
        kw["scheduler"] = RLScheduler(samplers, agent, MABCalibrationEnv(n_act))
    else:
        kw["samplers"] = samplers
    with contextlib.redirect_stdout(io.StringIO()):
        cal = Calibrator(loss_function=make_loss(spec["loss"]), real_data=real, model=MODELS[spec.get("model", "ar1_model")],
                         parameters_bounds=bounds, parameters_precision=prec, ensemble_size=spec["E"],
                         convergence_precision=None, verbose=verbose, saving_folder=folder, random_state=spec["seed"],
                         n_jobs=n_jobs, **kw)
    return cal


def history(cal):
    return {
        "params": cal.params_samp.tobytes(), "losses": cal.losses_samp.tobytes(), "series": cal.series_samp.tobytes(),
        "bnums": cal.batch_num_samp.astype(np.int64).tobytes(), "methods": cal.method_samp.astype(np.int64).tobytes(),
        "shape": (cal.params_samp.shape, cal.series_samp.shape, int(cal.n_sampled_params), int(cal.current_batch_index)),
    }


def diff(a, b):
    return [k for k in a if a[k] != b[k]]


def run_segments(spec, segments, boundaries, folder=None, **kw):
    """Run calibrate(seg) for each segment; boundary i in {'plain','restore'} separates segment i and i+1."""
    from black_it.calibrator import Calibrator

    cal = build(spec, folder=folder, **kw)
    ret = None
    with contextlib.redirect_stdout(io.StringIO()), np.errstate(all="ignore"):
        for i, seg in enumerate(segments):
            ret = cal.calibrate(seg)
            if i < len(boundaries) and boundaries[i] == "restore":
                cal.create_checkpoint(folder)
                cal = Calibrator.restore_from_checkpoint(folder, model=MODELS[spec.get("model", "ar1_model")])
    h = history(cal)
    h["ret"] = (ret[0].tobytes(), ret[1].tobytes()) if ret is not None else None
    th = getattr(cal.scheduler, "_agent_thread", None)
    if th is not None and th.is_alive():
        cal.scheduler._stopped = True  # noqa: SLF001
        cal.scheduler._out_queue.put(None)  # noqa: SLF001
        th.join(timeout=5)
    return h


def scratch(tag):
    d = SCRATCH / f"{os.getpid()}" / tag
    if d.exists():
        shutil.rmtree(d)
    d.mkdir(parents=True)
    return d


def compositions(n):
    if n == 0:
        yield []
        return
    for first in range(1, n + 1):
        for rest in compositions(n - first):
            yield [first, *rest]
