"""C20 - time-series filters and the moment summary equal their definitions.

Model: coq/Model/HP.v, coq/Model/LogData.v   Theorems: coq/Properties/C20.v
Correspondence (certificate style): the real hp_filter / hp_cycle_lamb1600_filter / log_and_hp_filter /
diff_log_demean_filter are run on generated series; their outputs are injected into Coq as exact rationals
(a float is m*2^e) and `check_hp_case` evaluates, exactly, cycle = y - trend up to one rounding and the residual of
the HP optimality system (I + lam K'K) trend - y.  The values log(y_i) used by the two log filters are certified
by verified interval arithmetic (`check_ln_case`).  A direct oracle of the property statement (exact Fractions,
written independently of the model) runs on the same observations; the 18-number moment summary is checked by
the oracle only (finite on every shape; equal to its definition on well-conditioned series).
"""
from __future__ import annotations

import json
import math
from collections import Counter
from fractions import Fraction

import re

import numpy as np

import common
from common import clist

# common.parse_assumptions takes the header line "Axioms:" of a non-closed `Print Assumptions` for an axiom name
# (no property before this one rested on axioms).  common.py must not be edited from here, so the header is removed
# before the shared parser sees the output; everything else (allowed-prefix test, counting) is the shared code.
if not getattr(common.parse_assumptions, "_c20_header_fix", False):
    _shared_parse = common.parse_assumptions

    def _parse_without_header(out, names):
        return _shared_parse(re.sub(r"^Axioms:[ \t]*$", "", out, flags=re.M), names)

    _parse_without_header._c20_header_fix = True
    common.parse_assumptions = _parse_without_header

IMPORTS_HP = "From Coq Require Import List ZArith QArith Floats.\nFrom BlackIt Require Import Lib.FloatDy Model.HP."
IMPORTS_LN = "From Coq Require Import List ZArith QArith Floats.\nFrom BlackIt Require Import Lib.FloatDy Model.HP Model.LogData."
PREAMBLE = "Open Scope float_scope."
SHAPES = ["constant", "linear", "alternating", "random_walk", "random"]
F = Fraction
REL = F(1, 10**10)  # 1e-10 : residual tolerance relative to (1+16 lam) max|trend|
LOGT = F(1, 10**12)  # 1e-12 : slack for filters of which only one output is observable / log rounding
EPS52 = F(1, 2**52)


# ---------------------------------------------------------------- literals
def cdy(x: float) -> str:
    """Exact dyadic (m, e) = m * 2^e of a finite float: a native hexadecimal float literal decomposed inside Coq
    (Lib/FloatDy.fd) - decimal Z numerals cost about 1 ms each to parse, hex floats 30 us."""
    return f"(fd {float(x).hex()})"


def cdyl(xs) -> str:
    return "(fdl " + clist([float(v).hex() for v in xs]) + ")"


def hexl(xs):
    return [float(v).hex() for v in xs]


def unhex(xs):
    return np.array([float.fromhex(v) for v in xs], dtype=float)


# ---------------------------------------------------------------- generators
def gauss(rng):
    u1 = max(rng.random(), 1e-300)
    return math.sqrt(-2.0 * math.log(u1)) * math.cos(2.0 * math.pi * rng.random())


def pick_n(rng, lo, hi):
    """lengths: small ones and the extremes are hit deliberately, the rest log-uniformly."""
    k = rng.below(30)
    if k < 3:
        return lo + rng.below(3)
    if k == 3:
        return hi - rng.below(3)
    return int(round(math.exp(rng.uniform(math.log(lo), math.log(hi)))))


def base_series(rng, shape, n):
    if shape == "constant":
        v = rng.choice([0.3, 1.0, -2.5, 0.1, 7.0, rng.uniform(-5, 5)])
        return [v] * n
    if shape == "linear":
        a, b = rng.uniform(-3, 3), rng.choice([0.1, -0.25, 1.0, rng.uniform(-2, 2)])
        return [a + b * i for i in range(n)]
    if shape == "alternating":
        a, b = rng.choice([0.0, 1.0, rng.uniform(-2, 2)]), rng.choice([1.0, 0.5, rng.uniform(0.1, 3)])
        return [a + b * (-1.0) ** i for i in range(n)]
    if shape == "random_walk":
        s, out = rng.uniform(-1, 1), []
        for _ in range(n):
            s += gauss(rng)
            out.append(s)
        return out
    return [gauss(rng) for _ in range(n)]


def make_series(rng, shape, n, positive, wide_scale):
    xs = base_series(rng, shape, n)
    if positive:
        # positive series for the log filters: exp of a moderate multiple, or a shift above zero
        if rng.below(2) == 0:
            k = rng.choice([0.01, 0.1, 1.0, 3.0])
            amp = max(1.0, max(abs(v) for v in xs))
            xs = [math.exp(k * v / amp * rng.choice([1.0, 10.0])) for v in xs]
        else:
            lo = min(xs)
            off = rng.choice([1e-3, 0.5, 1.0, 100.0])
            xs = [v - lo + off for v in xs]
        sc = rng.choice([1.0, 1.0, 1e-6, 1e6, 1e-3, 1e3])
    else:
        sc = rng.choice(wide_scale)
    return [float(v * sc) for v in xs], sc


def gen_cases(rng, tier):
    big = tier != "quick"
    nmax = 2000 if big else 200
    plan = {"hp": 600, "cycle1600": 150, "loghp": 200, "difflog": 200, "moments": 350} if big else \
           {"hp": 50, "cycle1600": 14, "loghp": 16, "difflog": 16, "moments": 40}
    cases = []
    for kind, cnt in plan.items():
        for j in range(cnt):
            shape = SHAPES[j % 5] if j < 2 * len(SHAPES) else rng.choice(SHAPES)
            if kind == "moments":
                n = pick_n(rng, 8, nmax)
                ys, sc = make_series(rng, shape, n, False, [1.0, 1.0, 1.0, 1e-8, 1e8, 1e-150, 1e150, 1e-300, 1e300])
            else:
                n = pick_n(rng, 3, nmax)
                ys, sc = make_series(rng, shape, n, kind in ("loghp", "difflog"), [1.0, 1.0, 1.0, 1e-6, 1e6, 1e-100, 1e100])
            case = {"kind": kind, "shape": shape, "n": n, "scale": sc, "series": hexl(ys)}
            if kind == "hp":
                lam = math.exp(rng.uniform(math.log(1e-3), math.log(1e7)))
                if j % 7 == 0:
                    lam = rng.choice([1e-3, 1.0, 1600.0, 129600.0, 1e7])
                case["lam"] = float(lam).hex()
            cases.append(case)
    return cases


# ---------------------------------------------------------------- implementation
def run_impl(case):
    from black_it.utils import time_series as ts

    y = unhex(case["series"])
    kind = case["kind"]
    obs = {"error": None}
    try:
        # the caller's array object is passed as is (and kept): "sum to the input" is judged against the array the caller
        # still holds after the call, and a second call on that same array must give the same answer
        arr = y.copy()
        if kind == "hp":
            c, t = ts.hp_filter(arr, float.fromhex(case["lam"]))
            c, t = np.array(c, dtype=float).ravel(), np.array(t, dtype=float).ravel()
            obs["cycle"], obs["trend"] = hexl(c), hexl(t)
            obs["cycle_bitwise_y_minus_trend"] = bool(np.array_equal(c, y - t))
            obs["held_input"] = hexl(arr)
            c2, t2 = ts.hp_filter(arr, float.fromhex(case["lam"]))
            obs["repeat_equal"] = bool(np.array_equal(np.asarray(c2).ravel(), c, equal_nan=True) and np.array_equal(np.asarray(t2).ravel(), t, equal_nan=True))
        elif kind == "cycle1600":
            c = np.array(ts.hp_cycle_lamb1600_filter(arr), dtype=float).ravel()
            obs["out"] = hexl(c)
            obs["held_input"] = hexl(arr)
            obs["repeat_equal"] = bool(np.array_equal(np.asarray(ts.hp_cycle_lamb1600_filter(arr)).ravel(), c, equal_nan=True))
            obs["bitwise_equals_hp_filter_1600"] = bool(np.array_equal(c, ts.hp_filter(y.copy(), 1600)[0]))
        elif kind == "loghp":
            o = np.array(ts.log_and_hp_filter(arr), dtype=float).ravel()
            obs["out"] = hexl(o)
            obs["held_input"] = hexl(arr)
            obs["repeat_equal"] = bool(np.array_equal(np.asarray(ts.log_and_hp_filter(arr)).ravel(), o, equal_nan=True))
            obs["nplog"] = hexl(np.log(y))
        elif kind == "difflog":
            o = np.array(ts.diff_log_demean_filter(arr), dtype=float).ravel()
            obs["out"] = hexl(o)
            obs["held_input"] = hexl(arr)
            obs["repeat_equal"] = bool(np.array_equal(np.asarray(ts.diff_log_demean_filter(arr)).ravel(), o, equal_nan=True))
            obs["nplog"] = hexl(np.log(y))
        elif kind == "moments":
            m = np.asarray(ts.get_mom_ts_1d(y.copy()))
            obs["shape"] = list(m.shape)
            obs["moments"] = [float(v).hex() if math.isfinite(v) else repr(float(v)) for v in m.ravel()]
            m2 = np.asarray(ts.get_mom_ts(np.column_stack([y, y[::-1]])))
            obs["shape2d"] = list(m2.shape)
            obs["col0_equals_1d"] = bool(m2.shape == (18, 2) and np.array_equal(m2[:, 0], m, equal_nan=True))
    except Exception as e:  # noqa: BLE001
        obs["error"] = f"{type(e).__name__}: {e}"
    return obs


# ---------------------------------------------------------------- direct oracle (exact rationals)
def fr(xs):
    return [F(float.fromhex(v)) if isinstance(v, str) else F(float(v)) for v in xs]


def all_finite_hex(xs):
    try:
        return all(math.isfinite(float.fromhex(v)) for v in xs)
    except ValueError:
        return False


def hp_residual_max(lam, t, y):
    """max_j | t_j + lam * sum_i K[i,j] (K t)_i - y_j |  with K[i,i..i+2] = (1,-2,1), i < n-2  (the matrix of the
    docstring, written row by row; not the list recursion of the Coq model)."""
    n = len(t)
    kt = [t[i] - 2 * t[i + 1] + t[i + 2] for i in range(n - 2)]
    coef = (1, -2, 1)
    worst = F(0)
    for j in range(n):
        acc = F(0)
        for d in range(3):
            i = j - d
            if 0 <= i < n - 2:
                acc += coef[d] * kt[i]
        worst = max(worst, abs(t[j] + lam * acc - y[j]))
    return worst


def amax(xs):
    return max((abs(v) for v in xs), default=F(0))


def residual_clause(lam, y, t, slack, name):
    tol = (1 + 16 * lam) * (REL * amax(t) + slack)
    r = hp_residual_max(lam, t, y)
    if r > tol:
        return [f"{name}: optimality residual {float(r):.3e} exceeds {float(tol):.3e}"], False
    # is the case able to tell lam from lam/2 ?  (measured, for the coverage statistics)
    sensitive = hp_residual_max(lam / 2, t, y) > tol
    return [], sensitive


def central(xs):
    n = len(xs)
    m = sum(xs) / n
    d = [v - m for v in xs]
    return m, d, [sum(v**k for v in d) / n for k in (2, 3, 4)]


def sroot(v, k):
    return math.copysign(abs(v) ** (1.0 / k), v) if v != 0 else 0.0


def moments_half_reference(xs):
    """(mean, std, skew, excess kurtosis, acf1..5) of the definition; central moments and acf are exact rationals."""
    n = len(xs)
    m, d, (m2, m3, m4) = central(xs)
    if m2 == 0:
        return None
    sd = math.sqrt(m2)
    den = sum(v * v for v in d)
    acf = [float(sum(d[t] * d[t + k] for t in range(n - k)) / den) for k in range(1, 6)]
    return float(m), sd, float(m3) / float(m2) ** 1.5, float(m4 / (m2 * m2)) - 3.0, acf


def well_conditioned(xs):
    if len(xs) < 8:
        return False
    mx = amax(xs)
    if mx == 0 or not (F(1, 10**100) < mx < F(10**100)):
        return False
    _, _, (m2, _, _) = central(xs)
    return m2 > (mx / 1000) ** 2


def oracle(case, obs):
    fails, info = [], {"nontrivial": False}
    if obs["error"]:
        return [f"exception: {obs['error']}"], info
    kind = case["kind"]
    y = fr(case["series"])
    n = len(y)
    if "held_input" in obs and obs["held_input"] != list(case["series"]):
        fails.append("held-input: the array passed in no longer holds the series after the call, so the returned parts do not sum to "
                     "the input the caller has in hand")
    if obs.get("repeat_equal") is False:
        fails.append("repeat: a second call on the same array object returned a different result")
    if kind == "hp":
        lam = F(float.fromhex(case["lam"]))
        if len(obs["cycle"]) != n or len(obs["trend"]) != n:
            return [f"length: cycle {len(obs['cycle'])}, trend {len(obs['trend'])}, series {n}"], info
        if not (all_finite_hex(obs["cycle"]) and all_finite_hex(obs["trend"])):
            return ["nonfinite: hp_filter returned a non-finite value"], info
        c, t = fr(obs["cycle"]), fr(obs["trend"])
        for i in range(n):
            if abs(c[i] + t[i] - y[i]) > EPS52 * max(abs(y[i]), abs(t[i])):
                fails.append(f"sum: cycle + trend differs from the series at index {i} by more than one rounding")
                break
        f2, sens = residual_clause(lam, y, t, F(0), "residual")
        fails += f2
        info["nontrivial"] = sens
    elif kind in ("cycle1600", "loghp"):
        if len(obs["out"]) != n:
            return [f"length: output {len(obs['out'])}, series {n}"], info
        if not all_finite_hex(obs["out"]):
            return ["nonfinite: filter returned a non-finite value"], info
        out = fr(obs["out"])
        base = y if kind == "cycle1600" else [F(math.log(float(v))) for v in y]
        t = [b - o for b, o in zip(base, out)]
        f2, sens = residual_clause(F(1600), base, t, LOGT * amax(base), "residual1600")
        fails += f2
        info["nontrivial"] = sens
    elif kind == "difflog":
        if len(obs["out"]) != n:
            return [f"length: output {len(obs['out'])}, series {n}"], info
        if not all_finite_hex(obs["out"]):
            return ["nonfinite: filter returned a non-finite value"], info
        out = fr(obs["out"])
        lg = [F(math.log(float(v))) for v in y]
        if abs(sum(out)) > LOGT * n * amax(out):
            fails.append(f"zero_mean: |sum(out)| = {float(abs(sum(out))):.3e} for max|out| = {float(amax(out)):.3e}")
        d = [F(0)] + [lg[i + 1] - lg[i] for i in range(n - 1)]
        mean = sum(d) / n
        tol = LOGT * amax(lg)
        for i in range(n):
            if abs(out[i] - (d[i] - mean)) > tol:
                fails.append(f"definition: element {i} is not the de-meaned difference of the logs (prepend = first)")
                break
        info["nontrivial"] = abs(mean) > tol
    elif kind == "moments":
        if obs["shape"] != [18]:
            return [f"shape: get_mom_ts_1d returned shape {obs['shape']}"], info
        if not all_finite_hex(obs["moments"]):
            bad = [i for i, v in enumerate(obs["moments"]) if not all_finite_hex([v])]
            return [f"nonfinite: moments {bad} are not finite"], info
        if obs["shape2d"] != [18, 2] or not obs["col0_equals_1d"]:
            fails.append("get_mom_ts: column 0 of the 2-d summary differs from get_mom_ts_1d of column 0")
        m = [float.fromhex(v) for v in obs["moments"]]
        halves = [("series", y, 0), ("absdiff", [abs(y[i + 1] - y[i]) for i in range(n - 1)], 9)]
        checked = 0
        for name, xs, o in halves:
            if not well_conditioned(xs):
                continue
            ref = moments_half_reference(xs)
            if ref is None:
                continue
            mean, sd, sk, ku, acf = ref
            scale = float(amax(xs))
            cl = []
            if abs(m[o] - mean) > 1e-10 * scale:
                cl.append("mean")
            if abs(m[o + 1] - sd) > 1e-9 * sd:
                cl.append("std")
            if abs(m[o + 2] ** 3 - sk) > 1e-8 * (1 + abs(sk)):
                cl.append("skew_cuberoot")
            if abs(math.copysign(abs(m[o + 3]) ** 4, m[o + 3]) - ku) > 1e-8 * (1 + abs(ku)):
                cl.append("kurtosis_fourthroot")
            for k in range(5):
                if abs(m[o + 4 + k] - acf[k]) > 1e-8:
                    cl.append(f"acf{k + 1}")
            if cl:
                fails.append(f"moments_definition: {name} half: {','.join(cl)} differ from the definition")
            checked += 1
        info["nontrivial"] = checked > 0
        info["halves_checked"] = checked
    return fails, info


# ---------------------------------------------------------------- Coq literals
def emit_hp(case, obs):
    """hp_case literal, or None when the observation cannot be written as rationals (then the oracle has failed)."""
    kind = case["kind"]
    y = unhex(case["series"])
    try:
        if kind == "hp":
            if not (all_finite_hex(obs["cycle"]) and all_finite_hex(obs["trend"])):
                return None
            return (f"CaseHP {cdy(float.fromhex(case['lam']))} {cdyl(y)} {cdyl(unhex(obs['trend']))} "
                    f"{cdyl(unhex(obs['cycle']))}")
        if not all_finite_hex(obs["out"]):
            return None
        out = unhex(obs["out"])
        if kind == "cycle1600":
            return f"CaseCycle1600 {cdyl(y)} {cdyl(out)}"
        if not all_finite_hex(obs["nplog"]):
            return None
        lg = unhex(obs["nplog"])
        if kind == "loghp":
            return f"CaseLogHP {cdyl(lg)} {cdyl(out)}"
        if kind == "difflog":
            return f"CaseDiffDemean {cdyl(lg)} {cdyl(out)}"
    except (KeyError, TypeError):
        return None
    return None


def emit_ln(case, obs):
    if case["kind"] not in ("loghp", "difflog") or obs.get("nplog") is None or not all_finite_hex(obs["nplog"]):
        return None
    return f"({cdyl(unhex(case['series']))}, {cdyl(unhex(obs['nplog']))})"


def bucket(n):
    for b in (4, 8, 20, 50, 200, 500, 2000):
        if n <= b:
            return f"n<={b}"
    return "n>2000"


def interleave(idx, weight, nshards):
    """order indices so that consecutive shards of equal size carry similar total weight (large first, round robin)."""
    order = sorted(idx, key=lambda i: -weight(i))
    shards = [[] for _ in range(nshards)]
    for k, i in enumerate(order):
        shards[k % nshards].append(i)
    return shards


def interleaved_calls(chk, cases, observations):
    """The helpers are plain functions of their arguments: hp / cycle1600 / loghp cases evaluated again from several threads
    at once (different lengths and lambdas in flight together - a coordinate filter is called from whatever thread evaluates
    a loss) must return, bit for bit, what the one-at-a-time evaluation returned."""
    from concurrent.futures import ThreadPoolExecutor

    idx = [i for i, c in enumerate(cases) if c["kind"] in ("hp", "cycle1600", "loghp") and not observations[i]["error"]
           and c["n"] <= 400]
    idx = idx[: 48 if chk.tier == "quick" else 400]
    if len(idx) < 4:
        return 0, []

    def again(i):
        o = run_impl(cases[i])
        keys = ("cycle", "trend") if cases[i]["kind"] == "hp" else ("out",)
        return i, [k for k in keys if o.get(k) != observations[i].get(k)] + (["error"] if o["error"] else [])

    bad = []
    import sys

    old_switch = sys.getswitchinterval()
    sys.setswitchinterval(1e-6)   # let the interpreter change thread between (almost) any two bytecodes
    with ThreadPoolExecutor(max_workers=6) as ex:
        for rep in range(3):
            order = idx[rep:] + idx[:rep]
            for i, d in ex.map(again, order):
                if d:
                    bad.append((i, d))
    # many short calls: six threads, each with its own smoothing constant, series of ONE length (whatever is shared between
    # calls is then wrong for the neighbour), every result compared bit for bit with the same call made alone
    import threading

    from black_it.utils import time_series as ts

    n_long = 3 * len(idx)
    rng = np.random.default_rng(chk.rng.below(2**31))
    ys = [np.cumsum(rng.standard_normal(120)) + 10.0 for _ in range(8)]
    lams = (1600.0, 6.25, 129600.0)
    ref = {(k, lam): [a.tobytes() for a in ts.hp_filter(ys[k].copy(), lam)] for k in range(len(ys)) for lam in lams}
    iters = 700 if chk.tier == "quick" else 4000
    found, counts = [], [0] * 6
    long_case = {"kind": "hp", "shape": "walk", "n": 120, "scale": 1.0, "lam": None, "series": [],
                 "note": f"random walks of length 120 (numpy default_rng seeded from VERIF_SEED), lambdas {lams}, 6 threads x {iters} calls"}

    def worker(w):
        lam = lams[w % len(lams)]
        for it in range(iters):
            if found:
                return
            k = (it + w) % len(ys)
            try:
                d = [a.tobytes() for a in ts.hp_filter(ys[k].copy(), lam)] != ref[(k, lam)]
            except Exception as e:  # noqa: BLE001
                d = f"{type(e).__name__}: {e}"
            counts[w] += 1
            if d:
                found.append((long_case, ["trend/cycle" if d is True else d]))
                return

    ths = [threading.Thread(target=worker, args=(w,), daemon=True) for w in range(6)]
    for t in ths:
        t.start()
    for t in ths:
        t.join(600)
    n_long += sum(counts)
    bad += found[:1]
    sys.setswitchinterval(old_switch)
    return n_long, bad


def run(chk, replay=None):
    chk.proof_gate()
    if replay:
        cases = [json.loads(open(replay).read())["case"]]
    else:
        cases = []
        cdir = chk.case_dir.parents[2] / "corpus" / "C20"
        for f in sorted(cdir.glob("*.json")):
            cases.append(json.loads(f.read_text())["case"])
        cases += gen_cases(chk.rng, chk.tier)
    observations = [run_impl(c) for c in cases]

    # ---- model side: one Coq evaluation per shard, shards balanced by series length
    def coq_run(name, imports, fn, ctype, emitter, select):
        idx = [i for i in range(len(cases)) if select(cases[i])]
        lits = {i: emitter(cases[i], observations[i]) for i in idx}
        idx = [i for i in idx if lits[i] is not None]
        if not idx:
            return set(), [], 0
        shards = interleave(idx, lambda i: cases[i]["n"], max(1, min(16, len(idx))))
        order = [i for s in shards for i in s]
        # coq_mismatches cuts the list into consecutive chunks; the interleaved order keeps their weights similar
        b, errors = chk.coq_mismatches(name, imports, fn, ctype, [lits[i] for i in order],
                                       shard=max(len(s) for s in shards), timeout=1700, preamble=PREAMBLE)
        return {order[k] for k in b}, errors, len(order)

    bad_hp, err_hp, n_hp = coq_run("C20hp", IMPORTS_HP, "check_hp_case", "hp_case", emit_hp,
                                   lambda c: c["kind"] != "moments")
    bad_ln, err_ln, n_ln = coq_run("C20ln", IMPORTS_LN, "check_ln_case", "list dy * list dy", emit_ln,
                                   lambda c: c["kind"] in ("loghp", "difflog"))

    stats = Counter()
    nontrivial, keys = set(), set()
    diag = Counter()
    for i, (c, o) in enumerate(zip(cases, observations)):
        fails, info = oracle(c, o)
        key = json.dumps([c["kind"], c.get("lam"), c["series"]])
        keys.add(key)
        stats[f"kind={c['kind']}"] += 1
        stats[f"shape={c['shape']}"] += 1
        stats[bucket(c["n"])] += 1
        stats[f"scale={c['scale']:g}"] += 1
        if c["kind"] == "hp":
            stats[f"lam~1e{int(math.floor(math.log10(float.fromhex(c['lam']))))}"] += 1
            diag["hp_cycle_bitwise_equal_y_minus_trend"] += int(bool(o.get("cycle_bitwise_y_minus_trend")))
        if c["kind"] == "cycle1600":
            diag["cycle1600_bitwise_equal_hp_filter_1600"] += int(bool(o.get("bitwise_equals_hp_filter_1600")))
        if c["kind"] == "moments":
            diag["moment_halves_compared_with_definition"] += info.get("halves_checked", 0)
        if info["nontrivial"]:
            nontrivial.add(key)
        desc_case = {"kind": c["kind"], "shape": c["shape"]}
        if fails:
            diag["oracle_failures"] += 1
            diag["oracle_failures_also_rejected_in_coq"] += int(i in bad_hp or i in bad_ln)
            chk.violation({"kind": "oracle", "filter": c["kind"], "clause": fails[0].split(":")[0]},
                          {"failed": "oracle:" + fails[0], "all": fails, "case": c, "observed": o})
        elif i in bad_hp:
            chk.violation({"kind": "correspondence", "name": "check_hp_case", "filter": c["kind"]},
                          {"failed": "correspondence:check_hp_case (the certificate evaluated in Coq rejects the "
                                     "implementation's output; the property oracle found no failing input)",
                           "case": c, "observed": o, "descriptor_case": desc_case}, no_input=True)
        elif i in bad_ln:
            chk.violation({"kind": "correspondence", "name": "check_ln_case", "filter": c["kind"]},
                          {"failed": "correspondence:check_ln_case (np.log value not within 2^-44 of the verified "
                                     "enclosure of ln)", "case": c, "observed": o}, no_input=True)
    n_threaded, tbad = (0, []) if replay else interleaved_calls(chk, cases, observations)
    diag["evaluations_repeated_from_6_threads"] = n_threaded
    if tbad:
        i, d = tbad[0]
        tc = i if isinstance(i, dict) else cases[i]
        chk.violation({"kind": "oracle", "filter": tc["kind"], "clause": "concurrent-call-differs"},
                      {"failed": f"oracle:concurrent-call-differs: {tc['kind']} (n={tc['n']}, lam={tc.get('lam')}) evaluated "
                                 f"while other lengths / lambdas were being evaluated in other threads returned a different {d} than "
                                 f"when evaluated alone ({len(tbad)} of {n_threaded} repeated evaluations differ)",
                       "case": tc, "observed": None if isinstance(i, dict) else observations[i]})
    for e in err_hp + err_ln:
        chk.violation({"kind": "correspondence", "name": "coqc"}, {"failed": "correspondence:coqc", "detail": e}, no_input=True)

    step = max(1, len(cases) // 4)
    cov = {
        "evaluations": len(cases),
        "distinct_nontrivial": len(nontrivial),
        "distinct": len(keys),
        "rule": "one evaluation = one call of a function of black_it.utils.time_series on a generated series (shapes constant/"
                "linear/alternating/random walk/random, lengths 3..200 quick, ..2000 thorough (8.. for the moments), scales "
                "1e-100..1e100 (1e-300..1e300 for the moments), lam log-uniform in [1e-3,1e7] plus fixed values). Non-trivial "
                "(measured): for hp/cycle1600/loghp the same output FAILS the residual test under lam/2, i.e. the case "
                "distinguishes the smoothing constant (constant and linear series do not: K t = 0); for difflog the removed "
                "mean exceeds the tolerance; for moments at least one half (series / |diff|) is well-conditioned and was "
                "compared with the exact-rational definition. distinct = distinct (kind, lam, series)",
        "samples": [{"kind": cases[i]["kind"], "shape": cases[i]["shape"], "n": cases[i]["n"], "lam": cases[i].get("lam"),
                     "series_head": cases[i]["series"][:4],
                     "observed_head": {k: (v[:3] if isinstance(v, list) else v) for k, v in observations[i].items()}}
                    for i in range(0, len(cases), step)][:5],
        "traces_validated_against_impl": n_hp - len(bad_hp),
        "coq_hp_cases": n_hp,
        "coq_ln_cases": n_ln,
        "model_impl_disagreements": len(bad_hp) + len(bad_ln),
        "distribution": dict(sorted(stats.items())),
        "diagnostics_not_gating": dict(diag),
        "exhaustive": False,
    }
    return chk.finish(
        cov,
        assumptions=[
            "the solver (scipy.sparse.linalg.spsolve / UMFPACK) is not modelled: its result is certified a posteriori by "
            "the exact residual, on the generated inputs only",
            "np.log is not modelled: its values are certified per element by a verified interval enclosure of ln (2^-44 rel.)",
            "scipy.stats.skew/kurtosis, statsmodels acf, np.nan_to_num are exercised through the oracle only (no model)",
            "the definitional comparison of the moments is limited to well-conditioned halves (std > 1e-3 max|x|, "
            "1e-100 < max|x| < 1e100); on the others only finiteness and shape are checked",
        ],
        trusted=["CoqInterval (FloatIntervalFull over BigIntRadix2) for the ln enclosures",
                 "the property oracle uses Python Fractions and math.log"],
    )
