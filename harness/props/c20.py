"""C20 - time-series filters and the moment summary equal their definitions.

Model: coq/Model/HP.v, coq/Model/LogData.v   Theorems: coq/Properties/C20.v
Correspondence (certificate style): the real hp_filter / hp_cycle_lamb1600_filter / log_and_hp_filter /
diff_log_demean_filter are run on generated series; their outputs are injected into Coq as exact rationals
(a float is m*2^e) and `check_hp_case` evaluates, exactly, cycle = y - trend up to one rounding and the residual of
the HP optimality system (I + lam K'K) trend - y.  The values log(y_i) used by the two log filters are certified
by verified interval arithmetic (`check_ln_case`).  A direct oracle of the property statement (exact Fractions,
written independently of the model) runs on the same observations; the 18-number moment summary is checked by
the oracle only (finite on every shape; equal to its definition on well-conditioned series).
"""
from __future__ import annotations

import json
import math
from collections import Counter
from fractions import Fraction

import re

import numpy as np

import common
from common import clist

# common.parse_assumptions takes the header line "Axioms:" of a non-closed `Print Assumptions` for an axiom name
# (no property before this one rested on axioms).  common.py must not be edited from here, so the header is removed
# before the shared parser sees the output; everything else (allowed-prefix test, counting) is the shared code.
if not getattr(common.parse_assumptions, "_c20_header_fix", False):
    _shared_parse = common.parse_assumptions

    def _parse_without_header(out, names):
        return _shared_parse(re.sub(r"^Axioms:[ \t]*$", "", out, flags=re.M), names)

    _parse_without_header._c20_header_fix = True
    common.parse_assumptions = _parse_without_header

IMPORTS_HP = "From Coq Require Import List ZArith QArith Floats.\nFrom BlackIt Require Import Lib.FloatDy Model.HP."
IMPORTS_LN = "From Coq Require Import List ZArith QArith Floats.\nFrom BlackIt Require Import Lib.FloatDy Model.HP Model.LogData."
PREAMBLE = "Open Scope float_scope."
SHAPES = ["constant", "linear", "alternating", "random_walk", "random"]
F = Fraction
REL = F(1, 10**10)  # 1e-10 : residual tolerance relative to (1+16 lam) max|trend|
LOGT = F(1, 10**12)  # 1e-12 : slack for filters of which only one output is observable / log rounding
EPS52 = F(1, 2**52)


# ---------------------------------------------------------------- literals
def cdy(x: float) -> str:
    """Exact dyadic (m, e) = m * 2^e of a finite float: a native hexadecimal float literal decomposed inside Coq
    (Lib/FloatDy.fd) - decimal Z numerals cost about 1 ms each to parse, hex floats 30 us."""
    return f"(fd {float(x).hex()})"


def cdyl(xs) -> str:
    return "(fdl " + clist([float(v).hex() for v in xs]) + ")"


def hexl(xs):
    return [float(v).hex() for v in xs]


def unhex(xs):
    return np.array([float.fromhex(v) for v in xs], dtype=float)


# ---------------------------------------------------------------- generators
def gauss(rng):
    u1 = max(rng.random(), 1e-300)
    return math.sqrt(-2.0 * math.log(u1)) * math.cos(2.0 * math.pi * rng.random())


def pick_n(rng, lo, hi):
    """lengths: small ones and the extremes are hit deliberately, the rest log-uniformly."""
    k = rng.below(30)
    if k < 3:
        return lo + rng.below(3)
    if k == 3:
        return hi - rng.below(3)
    return int(round(math.exp(rng.uniform(math.log(lo), math.log(hi)))))


def base_series(rng, shape, n):
    if shape == "constant":
        v = rng.choice([0.3, 1.0, -2.5, 0.1, 7.0, rng.uniform(-5, 5)])
        return [v] * n
    if shape == "linear":
        a, b = rng.uniform(-3, 3), rng.choice([0.1, -0.25, 1.0, rng.uniform(-2, 2)])
        return [a + b * i for i in range(n)]
    if shape == "alternating":
        a, b = rng.choice([0.0, 1.0, rng.uniform(-2, 2)]), rng.choice([1.0, 0.5, rng.uniform(0.1, 3)])
        return [a + b * (-1.0) ** i for i in range(n)]
    if shape == "random_walk":
        s, out = rng.uniform(-1, 1), []
        for _ in range(n):
            s += gauss(rng)
            out.append(s)
        return out
    return [gauss(rng) for _ in range(n)]


def make_series(rng, shape, n, positive, wide_scale):
    xs = base_series(rng, shape, n)
    if positive:
        # positive series for the log filters: exp of a moderate multiple, or a shift above zero
        if rng.below(2) == 0:
            k = rng.choice([0.01, 0.1, 1.0, 3.0])
            amp = max(1.0, max(abs(v) for v in xs))
            xs = [math.exp(k * v / amp * rng.choice([1.0, 10.0])) for v in xs]
        else:
            lo = min(xs)
            off = rng.choice([1e-3, 0.5, 1.0, 100.0])
            xs = [v - lo + off for v in xs]
        sc = rng.choice([1.0, 1.0, 1e-6, 1e6, 1e-3, 1e3])
    else:
        sc = rng.choice(wide_scale)
    return [float(v * sc) for v in xs], sc


def gen_cases(rng, tier):
    big = tier != "quick"
    nmax = 2000 if big else 200
    plan = {"hp": 600, "cycle1600": 150, "loghp": 200, "difflog": 200, "moments": 350} if big else \
           {"hp": 50, "cycle1600": 14, "loghp": 16, "difflog": 16, "moments": 40}
    cases = []
    for kind, cnt in plan.items():
        for j in range(cnt):
            shape = SHAPES[j % 5] if j < 2 * len(SHAPES) else rng.choice(SHAPES)
            if kind == "moments":
                n = pick_n(rng, 8, nmax)
                ys, sc = make_series(rng, shape, n, False, [1.0, 1.0, 1.0, 1e-8, 1e8, 1e-150, 1e150, 1e-300, 1e300])
            else:
                n = pick_n(rng, 3, nmax)
                ys, sc = make_series(rng, shape, n, kind in ("loghp", "difflog"), [1.0, 1.0, 1.0, 1e-6, 1e6, 1e-100, 1e100])
            case = {"kind": kind, "shape": shape, "n": n, "scale": sc, "series": hexl(ys)}
            if kind == "hp":
                lam = math.exp(rng.uniform(math.log(1e-3), math.log(1e7)))
                if j % 7 == 0:
                    lam = rng.choice([1e-3, 1.0, 1600.0, 129600.0, 1e7])
                case["lam"] = float(lam).hex()
            cases.append(case)
    return cases + gen_sweep_cases(rng, tier)


# ---------------------------------------------------------------- round 4: the generator sweep
# How the series is handed to the function.  The property quantifies over finite series, not over one container: a
# coordinate filter receives `sim_data_ensemble[j, :, i]` (a strided view of a 3-d array) from BaseLoss._filter_data,
# the moment calculator a row of the filtered ensemble or a column `real_data[:, i]`, and users pass lists, integer
# counts and single-precision model output.  Object arrays are outside (scipy.sparse and np.log reject them with an
# exception in the unchanged tree; nothing is silently wrong).
REPRS = ["f32", "f16", "i64", "i32", "list", "tuple", "strided", "3dview", "reversed", "c-col", "f-col", "readonly"]
DT = {"f32": np.float32, "f16": np.float16, "i64": np.int64, "i32": np.int32}
EPS_DT = {"f32": F(1, 2**23), "f16": F(1, 2**10)}   # unit roundoff x 2 of the narrow float formats
LAM_REPRS = ["int", "npint64", "npfloat32", "0d", "kw", "npfloat64"]
LAM_EXACT = [1.0, 1600.0, 129600.0, 4.0, 25.0, 10000000.0]     # integers, exact in float32 as well
KINDS = ["hp", "cycle1600", "loghp", "difflog", "moments"]


def to_repr_values(ys, rep, positive):
    """the exact float64 values of the series once stored in the container `rep` (narrow floats round, integers round
    to the nearest integer): the case records THESE values, so that the oracle judges the series the function was given"""
    a = np.array(ys, dtype=float)
    if rep in ("f32", "f16"):
        fi = np.finfo(DT[rep])
        a = np.clip(a, float(fi.tiny) if positive else -float(fi.max), float(fi.max))
        return [float(v) for v in a.astype(DT[rep]).astype(float)]
    if rep in ("i64", "i32"):
        a = np.clip(np.round(a), 1 if positive else -2.0**30, 2.0**30) + 0.0   # (+ 0.0: an integer has no negative zero)
        return [float(v) for v in a]
    return [float(v) for v in a]


def far_series(rng, shape, n, positive):
    """values far from the origin relative to their spread: level 1e5 .. 1e8 with O(1) variation"""
    xs = base_series(rng, shape, n)
    level = rng.choice([1e5, 1e6, 1e7, 1e8, 3.3e5, 7.1e7])
    if not positive and rng.below(3) == 0:
        level = -level
    return [level + v for v in xs], level


def tiny_mix(rng, xs):
    """signed zeros and subnormal entries inside an ordinary series"""
    xs = list(xs)
    special = [0.0, -0.0, 5e-324, -5e-324, 1e-310, -1e-310, 2.2250738585072014e-308]
    for _ in range(max(1, len(xs) // 4)):
        xs[rng.below(len(xs))] = rng.choice(special)
    return xs


def extreme_positive(rng, shape, n):
    """positive series whose logarithms span the whole binary64 range (-744 .. 709): subnormal and huge neighbours"""
    if shape == "alternating":
        ls = [rng.choice([700.0, 650.0]) * (-1.0) ** i for i in range(n)]
    elif shape == "linear":
        ls = [-743.0 + (709.0 + 743.0) * i / (n - 1) for i in range(n)]
    elif shape == "constant":
        v = rng.choice([-744.0, -720.0, 709.0])
        ls = [v] * n
    else:
        ls = [rng.uniform(-744.0, 709.0) for _ in range(n)]
    out = []
    for v in ls:
        try:
            e = math.exp(v)
        except OverflowError:
            e = 1.7e308
        out.append(min(max(e, 5e-324), 1.7976931348623157e308))
    return out


def gen_sweep_cases(rng, tier):
    big = tier != "quick"
    cases = []

    def add(kind, shape, ys, tag, **extra):
        case = {"kind": kind, "shape": shape, "n": len(ys), "scale": extra.pop("scale", 1.0), "series": hexl(ys), "tag": tag}
        if kind == "hp":
            lam = extra.pop("lam", None)
            if lam is None:
                lam = math.exp(rng.uniform(math.log(1e-3), math.log(1e7)))
                if rng.below(3) == 0:
                    lam = rng.choice([1e-3, 1.0, 1600.0, 129600.0, 1e7])
            case["lam"] = float(lam).hex()
        else:
            extra.pop("lam", None)
        case.update(extra)
        cases.append(case)
        return case

    def positive_series(shape, n):
        return make_series(rng, shape, n, True, None)

    # (1) representation of the input
    for rnd in range(6 if big else 1):
        for kind in KINDS:
            pos = kind in ("loghp", "difflog")
            for rep in REPRS:
                shape = rng.choice(SHAPES)
                n = pick_n(rng, 8 if kind == "moments" else 3, 300 if big else 60)
                if rep in DT:
                    xs = base_series(rng, shape, n)
                    if pos:
                        lo = min(xs)
                        xs = [v - lo + rng.choice([1.0, 2.0, 40.0]) for v in xs]
                        sc = rng.choice([1.0, 8.0, 100.0] if rep != "f32" else [1.0, 1e-6, 1e6, 1e-30, 1e30])
                    else:
                        sc = rng.choice([1.0, 10.0, 1000.0] if rep != "f32" else [1.0, 1e-6, 1e6, 1e-30, 1e30])
                    ys = to_repr_values([v * sc for v in xs], rep, pos)
                else:
                    ys, sc = make_series(rng, shape, n, pos, [1.0, 1.0, 1e-6, 1e6])
                add(kind, shape, ys, "repr", repr=rep, scale=sc, mom2d=rng.choice(["C3", "F3", "view3", "col1"]))
    # (2) far from the origin, signed zeros / subnormals, extreme dynamic range of positive series
    reps = 5 if big else 1
    for _ in range(reps):
        for kind, cnt in (("hp", 6), ("cycle1600", 4), ("loghp", 2), ("difflog", 2), ("moments", 8)):
            for j in range(cnt):
                shape = SHAPES[1 + j % 4]
                n = pick_n(rng, 8 if kind == "moments" else 3, 300 if big else 80)
                ys, level = far_series(rng, shape, n, kind in ("loghp", "difflog"))
                add(kind, shape, ys, "far", scale=level, mom2d=rng.choice(["C3", "F3", "view3", "col1"]),
                    repr=rng.choice(["f64", "f64", "3dview", "i64", "list"]) if j % 2 else "f64")
                if cases[-1].get("repr") == "i64":
                    cases[-1]["series"] = hexl(to_repr_values(ys, "i64", True))
        for kind, cnt in (("hp", 4), ("cycle1600", 2), ("moments", 4)):
            for j in range(cnt):
                shape = rng.choice(SHAPES)
                n = pick_n(rng, 8 if kind == "moments" else 3, 80)
                if j % 2 == 0:
                    ys = tiny_mix(rng, base_series(rng, shape, n))
                    add(kind, shape, ys, "zeros-subnormals")
                else:
                    # a whole series on the subnormal grid (1e-308 .. 1e-310; below that one rounding is no longer small
                    # against the values and "up to rounding" says nothing)
                    sc = rng.choice([1e-308, 1e-309] if kind == "cycle1600" else [1e-308, 1e-309, 1e-310])
                    add(kind, shape, [v * sc for v in base_series(rng, shape, n)], "subnormal-scale", scale=sc)
        for kind in ("loghp", "difflog"):
            for j in range(3):
                shape = SHAPES[(j + 1) % 5] if j < 2 else rng.choice(SHAPES)
                n = pick_n(rng, 3, 60)
                add(kind, shape, extreme_positive(rng, shape, n), "extreme-range")
    # (3) lengths at the upper end of the quantifier in the quick tier too (the first-built quick tier stopped at 200)
    if not big:
        for kind, n in (("hp", 2000), ("hp", 1999), ("cycle1600", 1500), ("loghp", 1200), ("difflog", 2000), ("moments", 2000),
                        ("moments", 1001)):
            shape = rng.choice(["random_walk", "random", "alternating"])
            ys, sc = make_series(rng, shape, n, kind in ("loghp", "difflog"), [1.0])
            add(kind, shape, ys, "long", scale=sc)
    # (4) the smoothing constant in other clothes: Python int, numpy integer / float32 / float64 scalars, 0-d array, keyword
    for rnd in range(4 if big else 1):
        for lr in LAM_REPRS:
            shape = rng.choice(SHAPES[2:])
            ys, sc = make_series(rng, shape, pick_n(rng, 3, 120), False, [1.0, 1e6])
            add("hp", shape, ys, "lam-repr", lam=rng.choice(LAM_EXACT), lam_repr=lr, scale=sc)
    # (5) families for the re-use scenarios: members share the length (and, for hp, series under several constants and one
    # constant under several series), so whatever a call leaves behind is wrong for the next one
    for fam in range(4 if big else 1):
        for kind in KINDS:
            n = pick_n(rng, 8 if kind == "moments" else 3, 150 if big else 60)
            pos = kind in ("loghp", "difflog")
            members = []
            for j in range(4):
                shape = ["random_walk", "alternating", "random", "linear"][j]
                ys, sc = make_series(rng, shape, n, pos, [1.0])
                members.append((shape, ys))
            if kind == "hp":
                lams = [1600.0, rng.choice([0.01, 6.25, 40.0]), rng.choice([129600.0, 1e7])]
                plan = [(0, 0), (0, 1), (1, 1), (1, 0), (2, 2), (0, 2), (3, 0)]
                for (m, l) in plan:
                    add(kind, members[m][0], members[m][1], "family", lam=lams[l], family=f"{kind}-{fam}")
            else:
                for shape, ys in members:
                    add(kind, shape, ys, "family", family=f"{kind}-{fam}")
    return cases


JUNK = 7.25
STRIDED = ("strided", "3dview", "reversed", "c-col")


def same_up_to_log_rounding(a, b, case):
    """bit-equal; for log_and_hp_filter / diff_log_demean_filter on a NON-CONTIGUOUS view also equal up to 1e-12 max|log y|:
    numpy 1.26 evaluates np.log of a strided float64 view either in its vector loop or through libm depending on where the
    output buffer happens to lie, and the two differ in the last bit on about 8 % of the elements (measured: 35 of 20000
    identical calls np.log(x[:, 1]) returned the other variant, every difference exactly 1 ulp).  That is rounding of the log,
    which the definition clauses allow for anyway; contiguous input is reproducible bit for bit and stays judged so."""
    a, b = np.asarray(a, dtype=float).ravel(), np.asarray(b, dtype=float).ravel()
    if a.shape == b.shape and np.array_equal(a, b, equal_nan=True):
        return True
    if case["kind"] in ("loghp", "difflog") and case.get("repr") in STRIDED and a.shape == b.shape:
        with np.errstate(all="ignore"):
            tol = 1e-12 * float(np.max(np.abs(np.log(unhex(case["series"])))))
            return bool(np.all(np.abs(a - b) <= tol))
    return False


def build_input(case):
    """the object handed to the function, and a function telling whether it (and the array it is a view of) still
    holds what it held"""
    y = unhex(case["series"])
    rep = case.get("repr", "f64")
    n = len(y)
    parent = None
    if rep in DT:
        arr = y.astype(DT[rep])
        if not np.array_equal(arr.astype(float), y):
            raise ValueError(f"harness: series not exactly representable as {rep}")
    elif rep == "list":
        arr = [float(v) for v in y]
    elif rep == "tuple":
        arr = tuple(float(v) for v in y)
    elif rep == "strided":
        parent = np.full(2 * n, JUNK)
        parent[::2] = y
        arr = parent[::2]
    elif rep == "3dview":
        parent = np.full((3, n, 2), JUNK)
        parent[0, :, 1] = y[::-1]
        parent[1, :, 1] = y
        arr = parent[1, :, 1]
    elif rep == "reversed":
        parent = y[::-1].copy()
        arr = parent[::-1]
    elif rep == "c-col":
        parent = np.column_stack([np.full(n, JUNK), y, y[::-1]])
        arr = parent[:, 1]
    elif rep == "f-col":
        parent = np.asfortranarray(np.column_stack([np.full(n, JUNK), y, y[::-1]]))
        arr = parent[:, 1]
    elif rep == "readonly":
        arr = y.copy()
        arr.setflags(write=False)
    else:
        arr = y.copy()
    before = None if parent is None else parent.tobytes()

    def held():
        if parent is not None and parent.tobytes() != before:
            return None      # something outside the view was written
        if isinstance(arr, (list, tuple)):
            return hexl(arr) if len(arr) == n else None
        return hexl(np.asarray(arr, dtype=float))

    return arr, held


def lam_object(case):
    lam = float.fromhex(case["lam"])
    lr = case.get("lam_repr", "float")
    if lr == "int":
        return int(lam)
    if lr == "npint64":
        return np.int64(lam)
    if lr == "npfloat32":
        return np.float32(lam)
    if lr == "npfloat64":
        return np.float64(lam)
    if lr == "0d":
        return np.array(lam)
    return lam


def mom_2d(case, y):
    """the 2-d argument of get_mom_ts in several layouts / element types"""
    rep = case.get("repr", "f64")
    dt = DT.get(rep, float)
    cols = [y, y[::-1], np.roll(y, 1)]
    lay = case.get("mom2d", "C3")
    if lay == "col1":
        return np.array(y, dtype=dt).reshape(-1, 1)
    a = np.column_stack(cols).astype(dt)
    if lay == "F3":
        return np.asfortranarray(a)
    if lay == "view3":
        big = np.full((len(y), 6), JUNK).astype(dt)
        big[:, ::2] = a
        return big[:, ::2]
    return a


# ---------------------------------------------------------------- implementation
def run_impl(case):
    from black_it.utils import time_series as ts

    y = unhex(case["series"])
    kind = case["kind"]
    obs = {"error": None}
    try:
        # the caller's array object is passed as is (and kept): "sum to the input" is judged against the array the caller
        # still holds after the call, and a second call on that same array must give the same answer
        arr, held = build_input(case)
        if kind == "hp":
            if case.get("lam_repr") == "kw":
                def call_hp(a):
                    return ts.hp_filter(a, lamb=float.fromhex(case["lam"]))
            else:
                def call_hp(a):
                    return ts.hp_filter(a, lam_object(case))
            c, t = call_hp(arr)
            c, t = np.array(c, dtype=float).ravel(), np.array(t, dtype=float).ravel()
            obs["cycle"], obs["trend"] = hexl(c), hexl(t)
            obs["cycle_bitwise_y_minus_trend"] = bool(np.array_equal(c, y - t))
            obs["held_input"] = held()
            c2, t2 = call_hp(arr)
            obs["repeat_equal"] = bool(np.array_equal(np.asarray(c2).ravel(), c, equal_nan=True) and np.array_equal(np.asarray(t2).ravel(), t, equal_nan=True))
        elif kind == "cycle1600":
            c = np.array(ts.hp_cycle_lamb1600_filter(arr), dtype=float).ravel()
            obs["out"] = hexl(c)
            obs["held_input"] = held()
            obs["repeat_equal"] = bool(np.array_equal(np.asarray(ts.hp_cycle_lamb1600_filter(arr)).ravel(), c, equal_nan=True))
            obs["bitwise_equals_hp_filter_1600"] = bool(np.array_equal(c, ts.hp_filter(y.copy(), 1600)[0]))
        elif kind == "loghp":
            o = np.array(ts.log_and_hp_filter(arr), dtype=float).ravel()
            obs["out"] = hexl(o)
            obs["held_input"] = held()
            obs["repeat_equal"] = same_up_to_log_rounding(ts.log_and_hp_filter(arr), o, case)
            obs["nplog"] = hexl(np.log(build_input(case)[0]).astype(float))   # the log in the element type of the container
        elif kind == "difflog":
            o = np.array(ts.diff_log_demean_filter(arr), dtype=float).ravel()
            obs["out"] = hexl(o)
            obs["held_input"] = held()
            obs["repeat_equal"] = same_up_to_log_rounding(ts.diff_log_demean_filter(arr), o, case)
            obs["nplog"] = hexl(np.log(build_input(case)[0]).astype(float))
        elif kind == "moments":
            m = np.asarray(ts.get_mom_ts_1d(arr))
            obs["shape"] = list(m.shape)
            obs["moments"] = [float(v).hex() if math.isfinite(v) else repr(float(v)) for v in m.ravel()]
            obs["held_input"] = held()
            obs["repeat_equal"] = bool(np.array_equal(np.asarray(ts.get_mom_ts_1d(arr)), m, equal_nan=True))
            m2 = np.asarray(ts.get_mom_ts(np.column_stack([y, y[::-1]])))
            obs["shape2d"] = list(m2.shape)
            ref0 = m if case.get("repr", "f64") not in DT else np.asarray(ts.get_mom_ts_1d(y.copy()))
            obs["col0_equals_1d"] = bool(m2.shape == (18, 2) and np.array_equal(m2[:, 0], ref0, equal_nan=True))
            if "mom2d" in case:
                # other layouts and element types of the 2-d argument: every column is the summary of that column
                a2 = mom_2d(case, y)
                snap = a2.tobytes()
                mm = np.asarray(ts.get_mom_ts(a2))
                obs["wrapper_shape"] = list(mm.shape)
                obs["wrapper_finite"] = bool(np.all(np.isfinite(mm)))
                obs["wrapper_columns_equal_1d"] = bool(mm.shape == (18, a2.shape[1]) and all(
                    np.array_equal(mm[:, j], np.asarray(ts.get_mom_ts_1d(a2[:, j])), equal_nan=True) for j in range(a2.shape[1])))
                obs["wrapper_input_kept"] = bool(a2.tobytes() == snap)
    except Exception as e:  # noqa: BLE001
        obs["error"] = f"{type(e).__name__}: {e}"
    return obs


# ---------------------------------------------------------------- direct oracle (exact rationals)
def fr(xs):
    return [F(float.fromhex(v)) if isinstance(v, str) else F(float(v)) for v in xs]


def all_finite_hex(xs):
    try:
        return all(math.isfinite(float.fromhex(v)) for v in xs)
    except ValueError:
        return False


def hp_residual_max(lam, t, y):
    """max_j | t_j + lam * sum_i K[i,j] (K t)_i - y_j |  with K[i,i..i+2] = (1,-2,1), i < n-2  (the matrix of the
    docstring, written row by row; not the list recursion of the Coq model)."""
    n = len(t)
    kt = [t[i] - 2 * t[i + 1] + t[i + 2] for i in range(n - 2)]
    coef = (1, -2, 1)
    worst = F(0)
    for j in range(n):
        acc = F(0)
        for d in range(3):
            i = j - d
            if 0 <= i < n - 2:
                acc += coef[d] * kt[i]
        worst = max(worst, abs(t[j] + lam * acc - y[j]))
    return worst


def amax(xs):
    return max((abs(v) for v in xs), default=F(0))


def residual_clause(lam, y, t, slack, name):
    tol = (1 + 16 * lam) * (REL * amax(t) + slack)
    r = hp_residual_max(lam, t, y)
    if r > tol:
        return [f"{name}: optimality residual {float(r):.3e} exceeds {float(tol):.3e}"], False
    # is the case able to tell lam from lam/2 ?  (measured, for the coverage statistics)
    sensitive = hp_residual_max(lam / 2, t, y) > tol
    return [], sensitive


def residual_ratio(lam, y, t, slack):
    tol = (1 + 16 * lam) * (REL * amax(t) + slack)
    return float(hp_residual_max(lam, t, y) / tol) if tol else 0.0


def central(xs):
    n = len(xs)
    m = sum(xs) / n
    d = [v - m for v in xs]
    return m, d, [sum(v**k for v in d) / n for k in (2, 3, 4)]


def sroot(v, k):
    return math.copysign(abs(v) ** (1.0 / k), v) if v != 0 else 0.0


def moments_half_reference(xs):
    """(mean, std, skew, excess kurtosis, acf1..5) of the definition; central moments and acf are exact rationals."""
    n = len(xs)
    m, d, (m2, m3, m4) = central(xs)
    if m2 == 0:
        return None
    sd = math.sqrt(m2)
    den = sum(v * v for v in d)
    acf = [float(sum(d[t] * d[t + k] for t in range(n - k)) / den) for k in range(1, 6)]
    return float(m), sd, float(m3) / float(m2) ** 1.5, float(m4 / (m2 * m2)) - 3.0, acf


def well_conditioned(xs):
    if len(xs) < 8:
        return False
    mx = amax(xs)
    if mx == 0 or not (F(1, 10**100) < mx < F(10**100)):
        return False
    _, _, (m2, _, _) = central(xs)
    return m2 > (mx / 1000) ** 2


KAPPA_MAX = 10**9
KAPPA_TOL = 200   # x eps x kappa ; measured worst of the unchanged tree: 4.3 eps kappa (the skewness), see design.d/C20.md


def conditioning(xs):
    """kappa = max|x| / std of a half, None when the half is outside the range where the definition is compared"""
    if len(xs) < 8:
        return None
    mx = amax(xs)
    if mx == 0 or not (F(1, 10**100) < mx < F(10**100)):
        return None
    _, _, (m2, _, _) = central(xs)
    if m2 <= 0:
        return None
    k = float(mx) / math.sqrt(float(m2))
    return k if k <= KAPPA_MAX else None


def log_tol(case):
    """1e-12 for double precision; for a float32 / float16 series numpy computes the logarithm, the difference and the mean
    in that format, so "equal up to rounding" is judged in units of that format (32 x 2^-23 or 2^-10; measured <= 1.5)"""
    rep = case.get("repr", "f64")
    return 32 * EPS_DT[rep] if rep in EPS_DT else LOGT


def oracle(case, obs):
    fails, info = [], {"nontrivial": False}
    if obs["error"]:
        return [f"exception: {obs['error']}"], info
    kind = case["kind"]
    y = fr(case["series"])
    n = len(y)
    ltol = log_tol(case)   # 1e-12, or the rounding of a float32 / float16 element type
    if "held_input" in obs and obs["held_input"] != list(case["series"]):
        fails.append("held-input: the array passed in no longer holds the series after the call, so the returned parts do not sum to "
                     "the input the caller has in hand")
    if obs.get("repeat_equal") is False:
        fails.append("repeat: a second call on the same array object returned a different result")
    if kind == "hp":
        lam = F(float.fromhex(case["lam"]))
        if len(obs["cycle"]) != n or len(obs["trend"]) != n:
            return [f"length: cycle {len(obs['cycle'])}, trend {len(obs['trend'])}, series {n}"], info
        if not (all_finite_hex(obs["cycle"]) and all_finite_hex(obs["trend"])):
            return ["nonfinite: hp_filter returned a non-finite value"], info
        c, t = fr(obs["cycle"]), fr(obs["trend"])
        for i in range(n):
            if abs(c[i] + t[i] - y[i]) > EPS52 * max(abs(y[i]), abs(t[i])):
                fails.append(f"sum: cycle + trend differs from the series at index {i} by more than one rounding")
                break
        f2, sens = residual_clause(lam, y, t, F(0), "residual")
        fails += f2
        info["nontrivial"] = sens
        info["residual_over_tol"] = residual_ratio(lam, y, t, F(0))
    elif kind in ("cycle1600", "loghp"):
        if len(obs["out"]) != n:
            return [f"length: output {len(obs['out'])}, series {n}"], info
        if not all_finite_hex(obs["out"]):
            return ["nonfinite: filter returned a non-finite value"], info
        out = fr(obs["out"])
        base = y if kind == "cycle1600" else [F(math.log(float(v))) for v in y]
        t = [b - o for b, o in zip(base, out)]
        f2, sens = residual_clause(F(1600), base, t, LOGT * amax(base), "residual1600")
        obs["log_base_used"] = "double"
        if f2 and kind == "loghp" and case.get("repr") in EPS_DT and all_finite_hex(obs.get("nplog") or ["nan"]):
            # numpy takes the logarithm of a float32 / float16 series in that format.  Both readings of "the log" are
            # accepted: the double-precision one (above) and l' = the element-type one, provided l' is the logarithm up to the
            # rounding of the format; the HP part is then judged on l' with the double-precision tolerance (the trend of l'
            # is computed in doubles)
            lb = fr(obs["nplog"])
            if len(lb) == n and all(abs(a - b) <= ltol * amax(base) for a, b in zip(lb, base)):
                base, t = lb, [b - o for b, o in zip(lb, out)]
                f2, sens = residual_clause(F(1600), base, t, LOGT * amax(base), "residual1600")
                obs["log_base_used"] = "element-type"
        fails += f2
        info["nontrivial"] = sens
        info["residual_over_tol"] = residual_ratio(F(1600), base, t, LOGT * amax(base))
    elif kind == "difflog":
        if len(obs["out"]) != n:
            return [f"length: output {len(obs['out'])}, series {n}"], info
        if not all_finite_hex(obs["out"]):
            return ["nonfinite: filter returned a non-finite value"], info
        out = fr(obs["out"])
        lg = [F(math.log(float(v))) for v in y]
        if abs(sum(out)) > ltol * n * amax(out):
            fails.append(f"zero_mean: |sum(out)| = {float(abs(sum(out))):.3e} for max|out| = {float(amax(out)):.3e}")
        d = [F(0)] + [lg[i + 1] - lg[i] for i in range(n - 1)]
        mean = sum(d) / n
        tol = ltol * amax(lg)
        for i in range(n):
            if abs(out[i] - (d[i] - mean)) > tol:
                fails.append(f"definition: element {i} is not the de-meaned difference of the logs (prepend = first)")
                break
        info["nontrivial"] = abs(mean) > tol
        if tol:
            info["definition_over_tol"] = float(max(abs(out[i] - (d[i] - mean)) for i in range(n)) / tol)
    elif kind == "moments":
        if obs["shape"] != [18]:
            return [f"shape: get_mom_ts_1d returned shape {obs['shape']}"], info
        if not all_finite_hex(obs["moments"]):
            bad = [i for i, v in enumerate(obs["moments"]) if not all_finite_hex([v])]
            return [f"nonfinite: moments {bad} are not finite"], info
        if obs["shape2d"] != [18, 2] or not obs["col0_equals_1d"]:
            fails.append("get_mom_ts: column 0 of the 2-d summary differs from get_mom_ts_1d of column 0")
        if "wrapper_shape" in obs and not (obs["wrapper_finite"] and obs["wrapper_columns_equal_1d"] and obs["wrapper_input_kept"]):
            fails.append(f"get_mom_ts: 2-d argument in layout {case.get('mom2d')} / element type {case.get('repr', 'f64')}: shape "
                         f"{obs['wrapper_shape']}, finite {obs['wrapper_finite']}, every column equal to get_mom_ts_1d of that column "
                         f"{obs['wrapper_columns_equal_1d']}, argument unchanged {obs['wrapper_input_kept']}")
        m = [float.fromhex(v) for v in obs["moments"]]
        halves = [("series", y, 0), ("absdiff", [abs(y[i + 1] - y[i]) for i in range(n - 1)], 9)]
        checked = 0
        rep = case.get("repr", "f64")
        # float16: sums of squares overflow in half precision (every value above 256), the summary is finite through
        # nan_to_num only - finiteness, shape and the wrapper are judged, the definition is not compared
        eps = None if rep == "f16" else float(EPS_DT[rep]) if rep in EPS_DT else 2.0 ** -52
        worst = 0.0
        for name, xs, o in halves:
            if eps is None:
                continue
            wc = well_conditioned(xs) and rep not in EPS_DT
            kap = conditioning(xs)
            if not wc and kap is None:
                continue
            ref = moments_half_reference(xs)
            if ref is None:
                continue
            # well-conditioned double-precision halves keep the first-built tolerances; the others (values far from the
            # origin relative to their spread, float32 input) get in addition 200 roundings of the element type amplified by
            # kappa = max|x| / std, the condition number of every centred statistic
            extra = 0.0 if wc else KAPPA_TOL * eps * kap
            if extra > 1e-3 or (rep == "f32" and not 1e-8 < float(amax(xs)) < 1e8):
                continue     # nothing left to compare / fourth powers leave the float32 range (as 1e100 does for doubles)
            mean, sd, sk, ku, acf = ref
            scale = float(amax(xs))
            errs = {"mean": (abs(m[o] - mean) / scale, 1e-10),
                    "std": (abs(m[o + 1] - sd) / sd, 1e-9),
                    "skew_cuberoot": (abs(m[o + 2] ** 3 - sk) / (1 + abs(sk)), 1e-8),
                    "kurtosis_fourthroot": (abs(math.copysign(abs(m[o + 3]) ** 4, m[o + 3]) - ku) / (1 + abs(ku)), 1e-8)}
            for k in range(5):
                errs[f"acf{k + 1}"] = (abs(m[o + 4 + k] - acf[k]), 1e-8)
            cl = [nm for nm, (e, tol) in errs.items() if not e <= tol + extra]
            worst = max([worst] + [e / (tol + extra) for e, tol in errs.values()])
            if cl:
                fails.append(f"moments_definition: {name} half: {','.join(cl)} differ from the definition"
                             + ("" if wc else f" (kappa = {kap:.3g}, tolerance + {extra:.3g})"))
            checked += 1
        info["nontrivial"] = checked > 0
        info["halves_checked"] = checked
        info["moments_over_tol"] = worst
    return fails, info


# ---------------------------------------------------------------- Coq literals
def emit_hp(case, obs):
    """hp_case literal, or None when the observation cannot be written as rationals (then the oracle has failed)."""
    kind = case["kind"]
    y = unhex(case["series"])
    try:
        if kind == "hp":
            if not (all_finite_hex(obs["cycle"]) and all_finite_hex(obs["trend"])):
                return None
            return (f"CaseHP {cdy(float.fromhex(case['lam']))} {cdyl(y)} {cdyl(unhex(obs['trend']))} "
                    f"{cdyl(unhex(obs['cycle']))}")
        if not all_finite_hex(obs["out"]):
            return None
        out = unhex(obs["out"])
        if kind == "cycle1600":
            return f"CaseCycle1600 {cdyl(y)} {cdyl(out)}"
        if not all_finite_hex(obs["nplog"]):
            return None
        lg = unhex(obs["nplog"])
        if kind == "loghp" and case.get("repr") in EPS_DT and obs.get("log_base_used") == "double":
            lg = np.log(y)
        if kind == "loghp":
            return f"CaseLogHP {cdyl(lg)} {cdyl(out)}"
        if kind == "difflog":
            if case.get("repr") in EPS_DT:
                # computed by numpy entirely in float32 / float16: the model's 1e-12 tolerance is about double precision,
                # the oracle judges these cases in units of their own format
                return None
            return f"CaseDiffDemean {cdyl(lg)} {cdyl(out)}"
    except (KeyError, TypeError):
        return None
    return None


def emit_ln(case, obs):
    if case["kind"] not in ("loghp", "difflog") or obs.get("nplog") is None or not all_finite_hex(obs["nplog"]):
        return None
    if case.get("repr") in EPS_DT:
        # a float32 / float16 logarithm is 2^-24 / 2^-11 accurate: certified by check_ln_case_w (emit_ln_w); the 2^-44 enclosure
        # applies when the case was judged on double-precision logarithms
        if case["kind"] == "loghp" and obs.get("log_base_used") == "double":
            return f"({cdyl(unhex(case['series']))}, {cdyl(np.log(unhex(case['series'])))})"
        return None
    return f"({cdyl(unhex(case['series']))}, {cdyl(unhex(obs['nplog']))})"


LN_W_BITS = {"f32": 19, "f16": 8}   # |ln y - l| <= 2^-k |l| ; observed worst 2^-22.2 (float32), 2^-11 (float16)


def emit_ln_w(case, obs):
    """narrow element types: the logarithms numpy takes in that format are logarithms at that format's accuracy"""
    if case["kind"] not in ("loghp", "difflog") or case.get("repr") not in EPS_DT:
        return None
    if obs.get("nplog") is None or not all_finite_hex(obs["nplog"]):
        return None
    return f"({LN_W_BITS[case['repr']]}%positive, ({cdyl(unhex(case['series']))}, {cdyl(unhex(obs['nplog']))}))"


def bucket(n):
    for b in (4, 8, 20, 50, 200, 500, 2000):
        if n <= b:
            return f"n<={b}"
    return "n>2000"


def interleave(idx, weight, nshards):
    """order indices so that consecutive shards of equal size carry similar total weight (large first, round robin)."""
    order = sorted(idx, key=lambda i: -weight(i))
    shards = [[] for _ in range(nshards)]
    for k, i in enumerate(order):
        shards[k % nshards].append(i)
    return shards


def interleaved_calls(chk, cases, observations):
    """The helpers are plain functions of their arguments: hp / cycle1600 / loghp cases evaluated again from several threads
    at once (different lengths and lambdas in flight together - a coordinate filter is called from whatever thread evaluates
    a loss) must return, bit for bit, what the one-at-a-time evaluation returned."""
    from concurrent.futures import ThreadPoolExecutor

    idx = [i for i, c in enumerate(cases) if c["kind"] in ("hp", "cycle1600", "loghp") and not observations[i]["error"]
           and c["n"] <= 400]
    idx = idx[: 48 if chk.tier == "quick" else 400]
    # round 4: the other two functions and the other containers take part as well (a few of each kind)
    per_kind = 8 if chk.tier == "quick" else 40
    for kind in KINDS:
        more = [i for i, c in enumerate(cases) if c["kind"] == kind and not observations[i]["error"] and c["n"] <= 400
                and i not in idx]
        idx += more[:per_kind // 2] + more[-(per_kind // 2):]
    idx = list(dict.fromkeys(idx))
    if len(idx) < 4:
        return 0, []

    def again(i):
        o = run_impl(cases[i])
        keys = {"hp": ("cycle", "trend"), "moments": ("moments",)}.get(cases[i]["kind"], ("out",))
        def differs(k):
            if o.get(k) == observations[i].get(k):
                return False
            try:
                return not same_up_to_log_rounding(unhex(o[k]), unhex(observations[i][k]), cases[i])
            except (KeyError, TypeError, ValueError):
                return True

        return i, [k for k in keys if differs(k)] + (["error"] if o["error"] else [])

    bad = []
    import sys

    old_switch = sys.getswitchinterval()
    sys.setswitchinterval(1e-6)   # let the interpreter change thread between (almost) any two bytecodes
    with ThreadPoolExecutor(max_workers=6) as ex:
        for rep in range(3):
            order = idx[rep:] + idx[:rep]
            for i, d in ex.map(again, order):
                if d:
                    bad.append((i, d))
    # many short calls: six threads, each with its own smoothing constant, series of ONE length (whatever is shared between
    # calls is then wrong for the neighbour), every result compared bit for bit with the same call made alone
    import threading

    from black_it.utils import time_series as ts

    n_long = 3 * len(idx)
    rng = np.random.default_rng(chk.rng.below(2**31))
    ys = [np.cumsum(rng.standard_normal(120)) + 10.0 for _ in range(8)]
    lams = (1600.0, 6.25, 129600.0)
    ref = {(k, lam): [a.tobytes() for a in ts.hp_filter(ys[k].copy(), lam)] for k in range(len(ys)) for lam in lams}
    iters = 700 if chk.tier == "quick" else 4000
    found, counts = [], [0] * 6
    long_case = {"kind": "hp", "shape": "walk", "n": 120, "scale": 1.0, "lam": None, "series": [],
                 "note": f"random walks of length 120 (numpy default_rng seeded from VERIF_SEED), lambdas {lams}, 6 threads x {iters} calls"}

    def worker(w):
        lam = lams[w % len(lams)]
        for it in range(iters):
            if found:
                return
            k = (it + w) % len(ys)
            try:
                d = [a.tobytes() for a in ts.hp_filter(ys[k].copy(), lam)] != ref[(k, lam)]
            except Exception as e:  # noqa: BLE001
                d = f"{type(e).__name__}: {e}"
            counts[w] += 1
            if d:
                found.append((long_case, ["trend/cycle" if d is True else d]))
                return

    ths = [threading.Thread(target=worker, args=(w,), daemon=True) for w in range(6)]
    for t in ths:
        t.start()
    for t in ths:
        t.join(600)
    n_long += sum(counts)
    bad += found[:1]
    sys.setswitchinterval(old_switch)
    return n_long, bad


def call_raw(ts, case, arr):
    """the objects the function returns (not copies)"""
    kind = case["kind"]
    if kind == "hp":
        return list(ts.hp_filter(arr, float.fromhex(case["lam"])))
    fn = {"cycle1600": ts.hp_cycle_lamb1600_filter, "loghp": ts.log_and_hp_filter, "difflog": ts.diff_log_demean_filter,
          "moments": ts.get_mom_ts_1d}[kind]
    return [fn(arr)]


def observed_arrays(case, obs):
    if case["kind"] == "hp":
        return [unhex(obs["cycle"]), unhex(obs["trend"])]
    if case["kind"] == "moments":
        return [np.array([float.fromhex(v) for v in obs["moments"]])]
    return [unhex(obs["out"])]


def same(a, b):
    a = np.asarray(a, dtype=float).ravel()
    return a.shape == b.shape and a.tobytes() == b.tobytes()


def reuse_sequences(chk, cases, observations):
    """Object re-use and sequences (one thread).  The members of a family have one length; each was evaluated alone on a
    private array and judged by the oracle.  Here the same calls are made the way a loss makes them - one after the other,
    the results collected in a list, after a call whose outcome nobody uses - and the way a caller with a work buffer makes
    them - one array refilled in place.  Every result must be, bit for bit, the one obtained alone; results handed out
    earlier must not change when the function is called again or when the caller overwrites its own input; inputs are
    left as they were."""
    from black_it.utils import time_series as ts

    fams = {}
    for i, c in enumerate(cases):
        if c.get("family") and not observations[i]["error"] and c.get("repr", "f64") == "f64":
            fams.setdefault(c["family"], []).append(i)
    n_calls, bad = 0, []
    for fam, idx in sorted(fams.items()):
        if len(idx) < 2:
            continue
        kind = cases[idx[0]]["kind"]
        n = cases[idx[0]]["n"]
        refs = [observed_arrays(cases[i], observations[i]) for i in idx]
        rows = [unhex(cases[i]["series"]) for i in idx]
        problems = []
        # a call nobody uses the outcome of (outside the quantifier: NaN, two points) must leave nothing behind
        for junk in (np.full(n, np.nan), np.array([1.0, 2.0]), np.full(n, -1.0)):
            try:
                call_raw(ts, cases[idx[0]], junk)
            except Exception:  # noqa: BLE001
                pass
        # (a) results collected in a list, as BaseLoss._filter_data / MethodOfMomentsLoss.compute_loss_1d do
        ins = [r.copy() for r in rows]
        outs = []
        for k, i in enumerate(idx):
            try:
                o = call_raw(ts, cases[i], ins[k])
            except Exception as e:  # noqa: BLE001
                problems.append(f"member {k}: {type(e).__name__}: {e} (evaluated alone it returned normally)")
                o = None
            outs.append(o)
            n_calls += 1
            if o is not None and not all(same(a, b) for a, b in zip(o, refs[k])):
                problems.append(f"member {k}: the call made after {k} other calls of the same length returned something else than the "
                                f"same call made alone")
        for k, o in enumerate(outs):
            if o is not None and not all(same(a, b) for a, b in zip(o, refs[k])) and not any(p.startswith(f"member {k}:") for p in problems):
                problems.append(f"member {k}: the result handed out by call {k} changed when the function was called again "
                                f"(the returned array is shared with later calls)")
        if any(a.tobytes() != r.tobytes() for a, r in zip(ins, rows)):
            problems.append("an input array was modified")
        # (b) one work buffer refilled in place by the caller
        buf = np.empty(n)
        kept = []
        for k, i in enumerate(idx):
            buf[:] = rows[k]
            try:
                o = call_raw(ts, cases[i], buf)
            except Exception as e:  # noqa: BLE001
                problems.append(f"buffer, member {k}: {type(e).__name__}: {e}")
                o = None
            kept.append(o)
            n_calls += 1
            if o is not None and not all(same(a, b) for a, b in zip(o, refs[k])):
                problems.append(f"buffer, member {k}: the caller's array was refilled in place with another series of the same length and "
                                f"the function returned something else than for a fresh array holding that series")
        buf[:] = -123.0
        for k, o in enumerate(kept):
            if o is not None and not all(same(a, b) for a, b in zip(o, refs[k])) and not any(p.startswith(f"buffer, member {k}:") for p in problems):
                problems.append(f"buffer, member {k}: the result changed when the caller overwrote its own input array afterwards "
                                f"(the returned array is a view of the argument or of a shared buffer)")
        if problems:
            bad.append((fam, kind, [cases[i] for i in idx], problems))
    return n_calls, bad


def run(chk, replay=None):
    chk.proof_gate()
    if replay:
        rc = json.loads(open(replay).read())["case"]
        cases = rc["members"] if rc.get("kind") == "reuse" else [rc]
    else:
        cases = []
        cdir = chk.case_dir.parents[2] / "corpus" / "C20"
        for f in sorted(cdir.glob("*.json")):
            cases.append(json.loads(f.read_text())["case"])
        cases += gen_cases(chk.rng, chk.tier)
    observations = [run_impl(c) for c in cases]
    judged = [oracle(c, o) for c, o in zip(cases, observations)]   # (also notes which reading of the log a narrow-float case used)

    # ---- model side: one Coq evaluation per shard, shards balanced by series length
    def coq_run(name, imports, fn, ctype, emitter, select):
        idx = [i for i in range(len(cases)) if select(cases[i])]
        lits = {i: emitter(cases[i], observations[i]) for i in idx}
        idx = [i for i in idx if lits[i] is not None]
        if not idx:
            return set(), [], 0
        shards = interleave(idx, lambda i: cases[i]["n"], max(1, min(16, len(idx))))
        order = [i for s in shards for i in s]
        # coq_mismatches cuts the list into consecutive chunks; the interleaved order keeps their weights similar
        size = max(len(s) for s in shards)
        b, errors = chk.coq_mismatches(name, imports, fn, ctype, [lits[i] for i in order],
                                       shard=size, timeout=1700, preamble=PREAMBLE)
        bad = {order[k] for k in b}
        # A coqc that was KILLED from outside (SIGKILL: the kernel's out-of-memory killer on a shared machine; rc -9, or 137
        # through `timeout`) has given no verdict on its shard.  Those shards - and only those - are evaluated again, one at
        # a time, up to three times; a shard that keeps being killed, and every other failure of coqc, is reported (fail
        # closed: no case is counted as validated without a completed evaluation).
        import time as _time

        final_errors = []
        for e in errors:
            m = re.match(rf"cases_{name}_(\d+)\.v: rc=(-9|137)\b", e)
            if not m:
                final_errors.append(e)
                continue
            k = int(m.group(1))
            sub = order[k * size:(k + 1) * size]
            for attempt in range(3):
                _time.sleep(15)
                b2, e2 = chk.coq_mismatches(f"{name}r{k}a{attempt}", imports, fn, ctype, [lits[i] for i in sub],
                                            shard=len(sub), timeout=1700, preamble=PREAMBLE)
                if not e2:
                    bad |= {sub[j] for j in b2}
                    chk.notes.append(f"coqc on shard {k} of {name} was killed from outside (rc {m.group(2)}); evaluated again, completed")
                    break
            else:
                final_errors.append(e + " (killed again in 3 further attempts)")
        return bad, final_errors, len(order)

    bad_hp, err_hp, n_hp = coq_run("C20hp", IMPORTS_HP, "check_hp_case", "hp_case", emit_hp,
                                   lambda c: c["kind"] != "moments")
    bad_ln, err_ln, n_ln = coq_run("C20ln", IMPORTS_LN, "check_ln_case", "list dy * list dy", emit_ln,
                                   lambda c: c["kind"] in ("loghp", "difflog"))

    bad_lnw, err_lnw, n_lnw = coq_run("C20lnw", IMPORTS_LN, "check_ln_case_w", "positive * (list dy * list dy)", emit_ln_w,
                                      lambda c: c["kind"] in ("loghp", "difflog") and c.get("repr") in EPS_DT)

    stats = Counter()
    nontrivial, keys = set(), set()
    diag = Counter()
    margins = {}
    for i, (c, o) in enumerate(zip(cases, observations)):
        fails, info = judged[i]
        key = json.dumps([c["kind"], c.get("lam"), c["series"], c.get("repr", "f64"), c.get("lam_repr")])
        keys.add(key)
        stats[f"kind={c['kind']}"] += 1
        stats[f"shape={c['shape']}"] += 1
        stats[bucket(c["n"])] += 1
        stats[f"scale={c['scale']:g}"] += 1
        stats[f"repr={c.get('repr', 'f64')}"] += 1
        stats[f"tag={c.get('tag', 'round1-3')}"] += 1
        if c.get("lam_repr"):
            stats[f"lam_repr={c['lam_repr']}"] += 1
        grp = c.get("tag", "round1-3") if c.get("repr", "f64") not in EPS_DT else "repr-" + c["repr"]
        for mk in ("residual_over_tol", "definition_over_tol", "moments_over_tol"):
            if mk in info and not fails:
                margins[f"{mk}[{grp}]"] = max(margins.get(f"{mk}[{grp}]", 0.0), info[mk])
        if c["kind"] == "hp":
            stats[f"lam~1e{int(math.floor(math.log10(float.fromhex(c['lam']))))}"] += 1
            diag["hp_cycle_bitwise_equal_y_minus_trend"] += int(bool(o.get("cycle_bitwise_y_minus_trend")))
        if c["kind"] == "cycle1600":
            diag["cycle1600_bitwise_equal_hp_filter_1600"] += int(bool(o.get("bitwise_equals_hp_filter_1600")))
        if c["kind"] == "moments":
            diag["moment_halves_compared_with_definition"] += info.get("halves_checked", 0)
        if info["nontrivial"]:
            nontrivial.add(key)
        desc_case = {"kind": c["kind"], "shape": c["shape"]}
        if fails:
            diag["oracle_failures"] += 1
            diag["oracle_failures_also_rejected_in_coq"] += int(i in bad_hp or i in bad_ln or i in bad_lnw)
            chk.violation({"kind": "oracle", "filter": c["kind"], "clause": fails[0].split(":")[0]},
                          {"failed": "oracle:" + fails[0], "all": fails, "case": c, "observed": o})
        elif i in bad_hp:
            chk.violation({"kind": "correspondence", "name": "check_hp_case", "filter": c["kind"]},
                          {"failed": "correspondence:check_hp_case (the certificate evaluated in Coq rejects the "
                                     "implementation's output; the property oracle found no failing input)",
                           "case": c, "observed": o, "descriptor_case": desc_case}, no_input=True)
        elif i in bad_ln:
            chk.violation({"kind": "correspondence", "name": "check_ln_case", "filter": c["kind"]},
                          {"failed": "correspondence:check_ln_case (np.log value not within 2^-44 of the verified "
                                     "enclosure of ln)", "case": c, "observed": o}, no_input=True)
        elif i in bad_lnw:
            chk.violation({"kind": "correspondence", "name": "check_ln_case_w", "filter": c["kind"]},
                          {"failed": f"correspondence:check_ln_case_w (np.log of a {c.get('repr')} series not within 2^-{LN_W_BITS.get(c.get('repr'))} "
                                     "of the verified enclosure of ln)", "case": c, "observed": o}, no_input=True)
    n_threaded, tbad = (0, []) if replay else interleaved_calls(chk, cases, observations)
    diag["evaluations_repeated_from_6_threads"] = n_threaded
    if tbad:
        i, d = tbad[0]
        tc = i if isinstance(i, dict) else cases[i]
        chk.violation({"kind": "oracle", "filter": tc["kind"], "clause": "concurrent-call-differs"},
                      {"failed": f"oracle:concurrent-call-differs: {tc['kind']} (n={tc['n']}, lam={tc.get('lam')}) evaluated "
                                 f"while other lengths / lambdas were being evaluated in other threads returned a different {d} than "
                                 f"when evaluated alone ({len(tbad)} of {n_threaded} repeated evaluations differ)",
                       "case": tc, "observed": None if isinstance(i, dict) else observations[i]})
    n_reuse, rbad = reuse_sequences(chk, cases, observations)
    diag["calls_in_reuse_sequences"] = n_reuse
    for fam, kind, members, problems in rbad:
        chk.violation({"kind": "oracle", "filter": kind, "clause": "reuse-differs"},
                      {"failed": f"oracle:reuse-differs: {kind}, family {fam} (length {members[0]['n']}): {problems[0]}",
                       "all": problems, "case": {"kind": "reuse", "filter": kind, "members": members}})
    for e in err_hp + err_ln + err_lnw:
        chk.violation({"kind": "correspondence", "name": "coqc"}, {"failed": "correspondence:coqc", "detail": e}, no_input=True)

    step = max(1, len(cases) // 4)
    cov = {
        "evaluations": len(cases),
        "distinct_nontrivial": len(nontrivial),
        "distinct": len(keys),
        "rule": "one evaluation = one call of a function of black_it.utils.time_series on a generated series (shapes constant/"
                "linear/alternating/random walk/random, lengths 3..200 quick, ..2000 thorough (8.. for the moments), scales "
                "1e-100..1e100 (1e-300..1e300 for the moments), lam log-uniform in [1e-3,1e7] plus fixed values). Non-trivial "
                "(measured): for hp/cycle1600/loghp the same output FAILS the residual test under lam/2, i.e. the case "
                "distinguishes the smoothing constant (constant and linear series do not: K t = 0); for difflog the removed "
                "mean exceeds the tolerance; for moments at least one half (series / |diff|) is well-conditioned and was "
                "compared with the exact-rational definition. distinct = distinct (kind, lam, series, container, lam type). "
                "Round 4 adds (tag=...): repr = the series handed over as float32/float16/int64/int32 array, list, tuple, strided / "
                "3-d / reversed / column views, read-only array (the case records the exact values held by the container); far = "
                "level 1e5..1e8 with O(1) variation; zeros-subnormals / subnormal-scale; extreme-range = positive series whose logs "
                "span -744..709; long = lengths 1000..2000 in the quick tier; lam-repr = int / numpy scalar / 0-d array / keyword "
                "smoothing constant; family = members of one length re-evaluated in sequence (results kept in a list, one work "
                "buffer refilled in place, after a junk call) and from 6 threads, each result bit-equal to the call made alone",
        "samples": [{"kind": cases[i]["kind"], "shape": cases[i]["shape"], "n": cases[i]["n"], "lam": cases[i].get("lam"),
                     "series_head": cases[i]["series"][:4],
                     "observed_head": {k: (v[:3] if isinstance(v, list) else v) for k, v in observations[i].items()}}
                    for i in range(0, len(cases), step)][:5],
        "traces_validated_against_impl": n_hp - len(bad_hp),
        "coq_hp_cases": n_hp,
        "coq_ln_cases": n_ln,
        "coq_ln_cases_at_float32_float16_accuracy": n_lnw,
        "model_impl_disagreements": len(bad_hp) + len(bad_ln) + len(bad_lnw),
        "distribution": dict(sorted(stats.items())),
        "diagnostics_not_gating": dict(diag),
        "worst_observed_fraction_of_tolerance": {k: float(f"{v:.3g}") for k, v in sorted(margins.items())},
        "exhaustive": False,
    }
    return chk.finish(
        cov,
        assumptions=[
            "the solver (scipy.sparse.linalg.spsolve / UMFPACK) is not modelled: its result is certified a posteriori by "
            "the exact residual, on the generated inputs only",
            "np.log is not modelled: its values are certified per element by a verified interval enclosure of ln (2^-44 rel.)",
            "scipy.stats.skew/kurtosis, statsmodels acf, np.nan_to_num are exercised through the oracle only (no model)",
            "the definitional comparison of the moments uses the first-built tolerances on well-conditioned halves (std > 1e-3 "
            "max|x|, 1e-100 < max|x| < 1e100) and adds 200 eps kappa (kappa = max|x|/std <= 1e9) on ill-conditioned ones and on "
            "float32 input (eps of float32); float16 input, kappa > 1e9 and magnitudes outside the range: finiteness and shape only",
            "object arrays are outside the quantifier (rejected with an exception by scipy.sparse / np.log in the unchanged tree); "
            "unsigned-integer series are not generated (np.diff wraps modulo 2^k: the nine |diff| moments are finite but are not "
            "those of the definition - noted in design.d/C20.md, the property text only asks for finiteness)",
            "for float32 / float16 series numpy computes log, difference and mean in that format: those cases are judged at 32 "
            "roundings of the format (measured <= 1.5) and, for log_and_hp_filter, on either reading of the log",
        ],
        trusted=["CoqInterval (FloatIntervalFull over BigIntRadix2) for the ln enclosures",
                 "the property oracle uses Python Fractions and math.log"],
    )
