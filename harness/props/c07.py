"""C07 - each built-in loss computes its published definition.

Model: coq/Model/LossSpec.v (definitions as Tree.expr programs), evaluator coq/Lib/IvEval.v, theorems coq/Properties/C07.v.

Correspondence (gating): for every generated (loss, options, sim, real) the real `compute_loss` of $VERIF_REPO is run; the
shape, the exact (dyadic) inputs and the returned float go to Coq, which evaluates the verified 80-bit enclosure of the
*definition* and checks  |definition - returned| <= 1e-9 * max(1, |returned|)  (check_case, sound by
C07_check_case_sound).  Inputs on which the definition is undefined (division by zero: inverse variance with a zero
variance, Gaussian sigma = 0, one symbol, standardisation by a zero moment) are only checked for "the implementation
returns a non-finite value or raises".

Direct oracle (independent of the Coq model): the same definitions written in Python over fractions.Fraction and
decimal.Decimal at 50 digits (own pi / cos / sin series), so that a failing input can be exhibited without Coq.
"""
from __future__ import annotations

import contextlib
import json
import math
import warnings
from collections import Counter
from decimal import Decimal, getcontext, InvalidOperation, DivisionByZero, Overflow
from fractions import Fraction

import numpy as np

import common
from common import clist, cnat

# `Print Assumptions` prints an "Axioms:" header line before the list when a theorem is not closed; the shared parser
# (common.parse_assumptions, written when all theorems were closed) would read that header as an axiom name.
_parse_assumptions = common.parse_assumptions


def _parse_assumptions_c07(out, names):
    res = _parse_assumptions(out, names)
    return {k: (None if v is None else [a for a in v if a != "Axioms"]) for k, v in res.items()}


common.parse_assumptions = _parse_assumptions_c07

getcontext().prec = 50

IMPORTS = ("From Coq Require Import ZArith List.\n"
           "From BlackIt Require Import Lib.Cases.\nFrom BlackIt Require Import Lib.IvEval.\n"
           "From BlackIt Require Import Model.LossSpec.")
PREAMBLE = "Open Scope Z_scope."
CASE_T = "case"
RTOL = Fraction(1, 10**9)
COND_MIN = Fraction(1, 10**4)      # cases whose definition divides by / takes a root of something smaller are skipped
COND_FAR = Fraction(1, 16)         # ... same, for inverse-variance weighting of moments at a level of 2^17 (see design note)
RTOL32 = Fraction(1, 10**5)        # Minkowski on float32 arrays (computed in single precision by numpy / scipy): oracle only


# =============================================================================================== float <-> exact
def fhex(x) -> str:
    return float(x).hex()


def unhex(s) -> float:
    return float.fromhex(s)


def fr(s) -> Fraction:
    return Fraction(float.fromhex(s)) if isinstance(s, str) else Fraction(s)


def cdy(x) -> str:
    """Coq literal (m, e) with value m * 2^e for a float / Fraction with a power-of-two denominator."""
    f = Fraction(x)
    num, den = f.numerator, f.denominator
    e = -(den.bit_length() - 1)
    assert den == 1 << (-e)
    sn = f"({num})" if num < 0 else f"{num}"
    se = f"({e})" if e < 0 else f"{e}"
    return f"({sn}, {se})"


def cz_(n) -> str:
    return f"({int(n)})" if int(n) < 0 else f"{int(n)}"


# =============================================================================================== filters / moment sets
def user_affine(x):
    return 2.0 * x + 1.0


def user_square(x):
    return x * x - 0.5


def user_identity_view(x):
    """A user callback that returns its argument itself (a view of the caller's array, not a copy)."""
    return x


def get_filter(name):
    if name is None:
        return None
    from black_it.utils import time_series as ts

    return {"hp_cycle": ts.hp_cycle_lamb1600_filter, "log_hp": ts.log_and_hp_filter,
            "diff_log_demean": ts.diff_log_demean_filter, "user_affine": user_affine, "user_square": user_square,
            "user_identity_view": user_identity_view}[name]


POSITIVE_FILTERS = ("log_hp", "diff_log_demean")


def _acf_user(x, k):
    d = x - x.mean()
    return (d[:-k] * d[k:]).sum() / (d * d).sum()


def mom_mean_std(x):
    return np.array([np.mean(x), np.std(x)])


def mom_m_s_r2(x):
    return np.array([np.mean(x), np.std(x), np.mean(x * x)])


def mom_acf12(x):
    return np.array([np.mean(x), np.std(x), _acf_user(x, 1), _acf_user(x, 2)])


def mom_absdiff(x):
    a = np.abs(np.diff(x))
    return np.array([np.mean(x), np.mean(a), np.std(a)])


# name -> (python calculator or None for the default, [(on_absdiff, kind)], nan_to_num guard)
MOMSETS = {
    "default": (None, [(d, k) for d in (False, True) for k in
                       ("mean", "std", "skew3", "kurt4", "acf1", "acf2", "acf3", "acf4", "acf5")], True),
    "user_mean_std": (mom_mean_std, [(False, "mean"), (False, "std")], False),
    "user_m_s_r2": (mom_m_s_r2, [(False, "mean"), (False, "std"), (False, "raw2")], False),
    "user_acf12": (mom_acf12, [(False, "mean"), (False, "std"), (False, "acf1"), (False, "acf2")], False),
    "user_absdiff": (mom_absdiff, [(False, "mean"), (True, "mean"), (True, "std")], False),
}
COQ_MOM = {"mean": "Mean", "std": "Std", "skew3": "Skew3", "kurt4": "Kurt4", "raw2": "Raw2",
           "acf1": "Acf 1%nat", "acf2": "Acf 2%nat", "acf3": "Acf 3%nat", "acf4": "Acf 4%nat", "acf5": "Acf 5%nat"}


# =============================================================================================== implementation
# Round-4 scenario fields of a case (all optional, all stored in the case so that a replay reproduces them):
#   sim_dtype / real_dtype   numpy dtype names of the two arrays (the values are representable in them)
#   layout                   {"sim": C|F|strided|negstride, "real": ..., "readonly": bool}: memory layout of the arrays
#   opt_repr                 "np" (numpy scalars), "float_p" (p = 2.0), "int" (f = 1, h = 2 as Python ints)
#   weights_repr             list | tuple | int | readonly | strided        filters_repr: tuple        cov_repr: int | strided | readonly
#   reassign                 construct the loss with OTHER options / weights / filters, (reassign_eval: evaluate once,) then assign
#                            the public attributes p, f, frequency_filter, h, nb_values, nb_word_lengths, coordinate_weights,
#                            coordinate_filters to the values of the case: the value in force is the assigned one
#   prior_mode               same_real (earlier evaluation: other simulated data, the SAME real array), inplace (earlier evaluation on
#                            the same two array objects, whose contents the caller then overwrites), rejected (earlier call that fails)
#   nested                   a user callback (filter / moment calculator) of the evaluation re-enters compute_loss of the same
#                            object on other data before returning (deterministic stand-in for a second thread)
#   memo_calc                the user's moment calculator memoises: the same array object is returned for the same series
def _typed_opts(case):
    o = dict(case["opts"])
    r = case.get("opt_repr")
    k = case["loss"]
    if r == "np":
        for key in ("p", "nb_values", "nb_word_lengths"):
            if o.get(key) is not None:
                o[key] = np.int64(o[key])
    elif r == "float_p" and k == "minkowski":
        o["p"] = float(o["p"])
    return o


def _num(x, r, as_float=True):
    """f / h as handed over by the caller: Python float (default), numpy scalar, Python int when integer-valued."""
    v = float(x)
    if r == "np":
        return np.float64(v)
    if r == "int" and v == int(v):
        return int(v)
    return v


def _weights_obj(wh, r):
    if wh is None:
        return None
    vals = [unhex(x) for x in wh]
    if r == "list":
        return list(vals)
    if r == "tuple":
        return tuple(vals)
    if r == "int" and all(v == int(v) for v in vals):
        return np.array([int(v) for v in vals], dtype=np.int64)
    w = np.array(vals)
    if r == "strided":
        big = np.full(2 * len(vals) + 1, 977.0)
        big[1::2] = w
        return big[1::2]
    if r == "readonly":
        w.setflags(write=False)
    return w


def _cov_obj(cov, r):
    if isinstance(cov, str):
        return cov
    m = np.array([[unhex(x) for x in row] for row in cov])
    if r == "int" and (m == np.round(m)).all():
        return m.astype(np.int64)
    if r == "strided":
        big = np.full((2 * m.shape[0] + 1, m.shape[1] + 1), 977.0)
        v = big[1::2, 1:]
        v[...] = m
        return v
    if r == "readonly":
        m.setflags(write=False)
    return m


def memoised(calc):
    cache = {}

    def f(x):
        key = (x.dtype.str, x.shape, np.ascontiguousarray(x).tobytes())
        if key not in cache:
            cache[key] = calc(x)
        return cache[key]          # the same array object every time

    return f


def _decoy(case):
    """Other option values (deterministic) for the reassign scenario."""
    o = dict(case["opts"])
    k = case["loss"]
    if k == "minkowski":
        o["p"] = int(o["p"]) % 4 + 1
    elif k == "fourier":
        o["f"] = "0.3" if float(o["f"]) != 0.3 else "0.8"
        o["filter"] = "gaussian" if o["filter"] == "ideal" else "ideal"
    elif k == "gsl":
        o["nb_values"] = 3 if o["nb_values"] != 3 else 5
        o["nb_word_lengths"] = 2 if o["nb_word_lengths"] != 2 else 3
    elif k == "likelihood":
        o["h"] = fhex(0.75) if o["h"] in ("silverman", "scott") else "scott"
    return o


def _construct(case, o, w, fl, hooks):
    """One constructor call.  hooks: {"calc": wrapper for the user's moment calculator}."""
    k = case["loss"]
    r = case.get("opt_repr")
    if k == "minkowski":
        from black_it.loss_functions.minkowski import MinkowskiLoss

        return MinkowskiLoss(p=o["p"], coordinate_weights=w, coordinate_filters=fl)
    if k == "msm":
        from black_it.loss_functions.msm import MethodOfMomentsLoss

        kw = {}
        calc = MOMSETS[o["moments"]][0]
        if calc is not None:
            if case.get("memo_calc"):
                calc = memoised(calc)
            kw["moment_calculator"] = hooks["calc"](calc) if hooks.get("calc") else calc
        return MethodOfMomentsLoss(covariance_mat=_cov_obj(o["cov"], case.get("cov_repr")), coordinate_weights=w,
                                   coordinate_filters=fl, standardise_moments=o["std"], **kw)
    if k == "fourier":
        from black_it.loss_functions.fourier import FourierLoss

        return FourierLoss(frequency_filter=_freq_filter(o["filter"]), f=_num(o["f"], r), coordinate_weights=w,
                           coordinate_filters=fl)
    if k == "gsl":
        from black_it.loss_functions.gsl_div import GslDivLoss

        return GslDivLoss(nb_values=o["nb_values"], nb_word_lengths=o["nb_word_lengths"], coordinate_weights=w,
                          coordinate_filters=fl)
    if k == "likelihood":
        from black_it.loss_functions.likelihood import LikelihoodLoss

        return LikelihoodLoss(coordinate_weights=w, coordinate_filters=fl, h=_bandwidth(o["h"], r))
    raise KeyError(k)


def _freq_filter(name):
    from black_it.loss_functions.fourier import gaussian_low_pass_filter, ideal_low_pass_filter

    return ideal_low_pass_filter if name == "ideal" else gaussian_low_pass_filter


def _bandwidth(h, r):
    return h if h in ("silverman", "scott") else _num(unhex(h), r)


def build_loss(case, hooks=None):
    """Returns (loss, finalize): `finalize()` puts the options of the case in force when the object was constructed with
    other ones (reassign scenario); it is a no-op otherwise."""
    hooks = hooks or {}
    o = _typed_opts(case)
    r = case.get("opt_repr")
    Dd = len(case["real"][0])
    w = _weights_obj(case["weights"], case.get("weights_repr"))
    fl = None if case["filters"] is None else [get_filter(n) for n in case["filters"]]
    if fl is not None and hooks.get("filter"):
        fl = [None if f is None else hooks["filter"](f) for f in fl]
    if fl is not None and case.get("filters_repr") == "tuple":
        fl = tuple(fl)
    if not case.get("reassign"):
        return _construct(case, o, w, fl, hooks), (lambda: None)
    d = _decoy(case)
    dw = np.arange(1.0, Dd + 1.0) if w is None else None
    dfl = [user_square] * Dd if fl is None else None
    loss = _construct(case, d, dw, dfl, hooks)

    def finalize():
        k = case["loss"]
        loss.coordinate_weights = w
        loss.coordinate_filters = fl
        if k == "minkowski":
            loss.p = o["p"]
        elif k == "fourier":
            loss.f = _num(o["f"], r)
            loss.frequency_filter = _freq_filter(o["filter"])
        elif k == "gsl":
            loss.nb_values = o["nb_values"]
            loss.nb_word_lengths = o["nb_word_lengths"]
        elif k == "likelihood":
            loss.h = _bandwidth(o["h"], r)

    return loss, finalize


def _lay(a, how, axis_time):
    if how in (None, "C"):
        return a
    if how == "F":
        return np.asfortranarray(a)
    idx = [slice(None)] * a.ndim
    if how == "strided":      # every second row and all but the first column of a larger array filled with other numbers
        shape = list(a.shape)
        shape[axis_time] = 2 * shape[axis_time] + 1
        shape[-1] += 1
        big = np.full(shape, 97).astype(a.dtype)
        idx[axis_time] = slice(1, None, 2)
        idx[-1] = slice(1, None)
        v = big[tuple(idx)]
        v[...] = a
        return v
    if how == "negstride":    # stored backwards in time, seen through a reversing view
        idx[axis_time] = slice(None, None, -1)
        return np.ascontiguousarray(a[tuple(idx)])[tuple(idx)]
    raise KeyError(how)


def arrays(case):
    sim = np.array([[[unhex(x) for x in row] for row in mem] for mem in case["sim"]], dtype=float)
    real = np.array([[unhex(x) for x in row] for row in case["real"]], dtype=float)
    sd = case.get("sim_dtype") or case.get("dtype")    # "dtype": integer-valued data handed over as integer arrays (round 3)
    rd = case.get("real_dtype") or case.get("dtype")
    if sd:
        sim = sim.astype(np.dtype(sd))
    if rd:
        real = real.astype(np.dtype(rd))
    lay = case.get("layout") or {}
    sim, real = _lay(sim, lay.get("sim"), 1), _lay(real, lay.get("real"), 0)
    return sim, real


def _junk(r0, shape, like):
    """Other data of the given shape in the representation of `like` (positive, so that every filter accepts them)."""
    if like.dtype.kind in "iu":
        return r0.integers(1, 9, size=shape).astype(like.dtype)
    return r0.uniform(0.5, 2.0, size=shape).astype(like.dtype)


def run_impl(case):
    """Run the real compute_loss; also apply each coordinate filter ourselves (black box inputs of the definition)."""
    sim, real = arrays(case)
    sim0, real0 = sim.copy(), real.copy()
    obs = {"value": None, "error": None, "filtered": None}
    with warnings.catch_warnings():
        warnings.simplefilter("ignore")
        old = np.seterr(all="ignore")
        try:
            r0 = np.random.default_rng(case.get("prior_seed", 0))     # data only; seed stored in the case
            hooks = {}
            holder = {"loss": None, "busy": False, "n": 0}
            if case.get("nested"):
                # a callback of the evaluation re-enters compute_loss of the SAME object on other data (once per callback
                # position, not recursively) - what a second thread does when the interpreter switches at this point
                E_, N_, D_ = sim.shape
                n2 = max(8, N_ + 3) if case["loss"] != "minkowski" else N_ + 1
                t2 = n2 if real.shape[0] == N_ else real.shape[0] + 1
                o_sim = r0.uniform(0.5, 2.0, size=(E_ + 1, n2, D_))
                o_real = r0.uniform(0.5, 2.0, size=(t2, D_))

                def wrap(f):
                    def g(x):
                        if holder["loss"] is not None and not holder["busy"]:
                            holder["busy"] = True
                            holder["n"] += 1
                            try:
                                holder["loss"].compute_loss(o_sim, o_real)
                            except Exception:  # noqa: BLE001
                                pass
                            finally:
                                holder["busy"] = False
                        return f(x)
                    return g
                hooks = {"filter": wrap, "calc": wrap}
            loss, finalize = build_loss(case, hooks)
            if case.get("reassign_eval"):
                with contextlib.suppress(Exception):
                    loss.compute_loss(sim, real)         # evaluated with the other options first
            finalize()
            if case.get("prior_D"):
                # the value must equal the definition also when the SAME loss object was used before on other data
                # (here: data with more coordinates, default weights): the earlier evaluation is discarded
                pn = case.get("prior_N") or sim.shape[1]   # ... possibly of another length
                pt = pn if real.shape[0] == sim.shape[1] else real.shape[0]
                with contextlib.suppress(Exception):
                    loss.compute_loss(r0.uniform(0.5, 2.0, size=(sim.shape[0], pn, case["prior_D"])),
                                      r0.uniform(0.5, 2.0, size=(pt, case["prior_D"])))
            pm = case.get("prior_mode")
            if pm == "same_real":
                # a calibration evaluates many simulated ensembles against the same real array
                with contextlib.suppress(Exception):
                    loss.compute_loss(_junk(r0, (sim.shape[0] + 1,) + sim.shape[1:], sim), real)
                with contextlib.suppress(Exception):
                    loss.compute_loss(_junk(r0, sim.shape, sim), real)
            elif pm == "inplace":
                # the same two array objects, holding other numbers at the first evaluation
                sim[...] = _junk(r0, sim.shape, sim)
                real[...] = _junk(r0, real.shape, real)
                with contextlib.suppress(Exception):
                    loss.compute_loss(sim, real)
                sim[...] = sim0
                real[...] = real0
            elif pm == "rejected":
                # an evaluation that is refused (real data with one coordinate more than the simulated ones / than the weights)
                with contextlib.suppress(Exception):
                    loss.compute_loss(_junk(r0, sim.shape, sim), _junk(r0, (real.shape[0], real.shape[1] + 1), real))
            if (case.get("layout") or {}).get("readonly"):
                sim.setflags(write=False)
                real.setflags(write=False)
            holder["loss"] = loss
            v = float(loss.compute_loss(sim, real))
            holder["loss"] = None
            obs["value"] = fhex(v) if math.isfinite(v) else None
            obs["raw"] = repr(v)
            if case.get("nested"):
                obs["nested_calls"] = holder["n"]
        except Exception as e:  # noqa: BLE001
            obs["error"] = f"{type(e).__name__}: {e}"[:200]
        finally:
            np.seterr(**old)
        if case["filters"] is not None:
            filt = []
            for i, name in enumerate(case["filters"]):
                f = get_filter(name)
                if f is None:
                    filt.append(None)
                else:
                    filt.append([[fhex(y) for y in f(sim0[e, :, i].copy())] for e in range(sim0.shape[0])])
            obs["filtered"] = filt
    obs["inputs_untouched"] = bool((sim == sim0).all() and (real == real0).all())
    return obs


# =============================================================================================== direct oracle
class Undefined(Exception):
    pass


def D(x) -> Decimal:
    if isinstance(x, Decimal):
        return x
    f = Fraction(x)
    return Decimal(f.numerator) / Decimal(f.denominator)


def dec_pi() -> Decimal:
    getcontext().prec += 4
    three = Decimal(3)
    lasts, t, s, n, na, d, da = 0, three, 3, 1, 0, 0, 24
    while s != lasts:
        lasts = s
        n, na = n + na, na + 8
        d, da = d + da, da + 32
        t = (t * n) / d
        s += t
    getcontext().prec -= 4
    return +s


PI = dec_pi()


def dec_cos(x: Decimal) -> Decimal:
    getcontext().prec += 4
    i, lasts, s, fact, num, sign = 0, 0, 1, 1, 1, 1
    while s != lasts:
        lasts = s
        i += 2
        fact *= i * (i - 1)
        num *= x * x
        sign *= -1
        s += num / fact * sign
    getcontext().prec -= 4
    return +s


def dec_sin(x: Decimal) -> Decimal:
    getcontext().prec += 4
    i, lasts, s, fact, num, sign = 1, 0, x, 1, x, 1
    while s != lasts:
        lasts = s
        i += 2
        fact *= i * (i - 1)
        num *= x * x
        sign *= -1
        s += num / fact * sign
    getcontext().prec -= 4
    return +s


class Cond:
    """Smallest quantity the definition divides by / takes a non-integer root of (conditioning of the case)."""

    def __init__(self):
        self.v = None

    def see(self, x):
        a = abs(Fraction(x))
        if self.v is None or a < self.v:
            self.v = a


def ddiv(a: Decimal, b: Decimal, cond: Cond) -> Decimal:
    cond.see(b)
    if b == 0:
        raise Undefined("division by zero")
    return a / b


def fmean(xs):
    return sum(xs, Fraction(0)) / len(xs)


def o_moments(kinds, guard, x, cond):
    """x: list of Fractions; returns list of Decimals."""
    ad = [abs(b - a) for a, b in zip(x, x[1:])]
    out = []
    cache = {}

    def ctx(s, key):
        if key not in cache:
            n = len(s)
            mu = fmean(s)
            d = [v - mu for v in s]
            cache[key] = (n, mu, d, fmean([v * v for v in d]))
        return cache[key]

    for on_ad, k in kinds:
        s = ad if on_ad else x
        n, mu, d, m2 = ctx(s, on_ad)
        if k == "mean":
            out.append(D(mu))
        elif k == "raw2":
            out.append(D(fmean([v * v for v in s])))
        elif k == "std":
            out.append(D(m2).sqrt())
        elif guard and m2 == 0:
            out.append(Decimal(0))
        elif k == "skew3":
            cond.see(m2)
            if m2 == 0:
                raise Undefined("skewness of a constant series")
            m3 = fmean([v**3 for v in d])
            r = m3 * m3 / m2**3            # skew^2, rational
            cond.see(r)
            out.append(Decimal(0) if m3 == 0 else (D(r) ** (Decimal(1) / 6)).copy_sign(1 if m3 > 0 else -1))
        elif k == "kurt4":
            cond.see(m2)
            if m2 == 0:
                raise Undefined("kurtosis of a constant series")
            ku = fmean([v**4 for v in d]) / m2**2 - 3
            cond.see(ku)
            out.append(Decimal(0) if ku == 0 else (D(abs(ku)).sqrt().sqrt()).copy_sign(1 if ku > 0 else -1))
        elif k.startswith("acf"):
            j = int(k[3:])
            ss = sum(v * v for v in d)
            cond.see(ss)
            if ss == 0:
                raise Undefined("autocorrelation of a constant series")
            out.append(D(sum(d[t] * d[t + j] for t in range(n - j)) / ss))
        else:
            raise KeyError(k)
    return out


def o_minkowski(ens, real, o, cond, variant):
    p = o["p"]
    E = len(ens)
    s = sum(abs(fmean([ens[e][t] for e in range(E)]) - real[t]) ** p for t in range(len(real)))
    if p == 1:
        return D(s)
    return Decimal(0) if s == 0 else D(s) ** (Decimal(1) / p)


def o_msm(ens, real, o, cond, variant):
    _, kinds, guard = MOMSETS[o["moments"]]
    mr = o_moments(kinds, guard, real, cond)
    ms = [o_moments(kinds, guard, s, cond) for s in ens]
    if o["std"]:
        ms = [[ddiv(a, abs(r), cond) for a, r in zip(m, mr)] for m in ms]
        mr = [ddiv(r, abs(r), cond) for r in mr]
    E = len(ms)
    g = [mr[k] - sum(ms[e][k] for e in range(E)) / E for k in range(len(mr))]
    cov = o["cov"]
    if cov == "identity":
        return sum(v * v for v in g)
    if cov == "inverse_variance":
        tot = Decimal(0)
        for k in range(len(mr)):
            var = sum((mr[k] - ms[e][k]) ** 2 for e in range(E)) / E
            tot += g[k] * ddiv(Decimal(1), var, cond) * g[k]
        return tot
    W = [[D(fr(x)) for x in row] for row in cov]
    return sum(g[a] * W[a][b] * g[b] for a in range(len(g)) for b in range(len(g)))


def round_half_even(q: Fraction) -> int:
    fl = math.floor(q)
    r = q - fl
    if r < Fraction(1, 2):
        return fl
    if r > Fraction(1, 2):
        return fl + 1
    return fl if fl % 2 == 0 else fl + 1


def o_fourier(ens, real, o, cond, variant):
    n = len(real)
    nf = n // 2 + 1
    keep = round_half_even(Fraction(o["f"]) * nf)       # f is the published decimal value
    if o["filter"] == "ideal":
        mask = [Decimal(1) if j < keep else Decimal(0) for j in range(nf)]
    else:
        cond.see(keep)
        if keep == 0:
            raise Undefined("gaussian filter with sigma = 0")
        mask = [(-(Decimal(j * j) / Decimal(2 * keep * keep))).exp() for j in range(nf)]
    cs = [dec_cos(2 * PI * m / n) for m in range(n)]
    sn = [dec_sin(2 * PI * m / n) for m in range(n)]

    def dft(x):
        xs = [D(v) for v in x]
        return [(sum(xs[k] * cs[(j * k) % n] for k in range(n)) * mask[j],
                 -sum(xs[k] * sn[(j * k) % n] for k in range(n)) * mask[j]) for j in range(nf)]

    fr_ = dft(real)
    fs = [dft(s) for s in ens]
    E = len(fs)
    tot = Decimal(0)
    for j in range(nf):
        re = sum(f[j][0] for f in fs) / E - fr_[j][0]
        im = sum(f[j][1] for f in fs) / E - fr_[j][1]
        tot += re * re + im * im
    return (tot / nf).sqrt()


GSL_EPS = Fraction(0.00001)


def gsl_edges(xs, b):
    lo, hi = min(xs) - GSL_EPS, max(xs) + GSL_EPS
    return [lo + i * (hi - lo) / b for i in range(b + 1)]


def gsl_symbols(xs, b):
    ed = gsl_edges(xs, b)
    return [sum(1 for e in ed if e < v) for v in xs]


def o_gsl(ens, real, o, cond, variant):
    T = len(real)
    b = o["nb_values"] if o["nb_values"] is not None else int((T - 1) / 2.0)
    L = o["nb_word_lengths"] if o["nb_word_lengths"] is not None else int((T - 1) / 2.0)
    if L > T + 1:
        raise Undefined("word length too high")
    if b < 1 or L < 1:
        raise Undefined("no symbols / no word lengths")

    def words(sym, l):
        ws = [tuple(sym[i:i + l]) for i in range(len(sym) + 1 - l)]
        if variant:   # gsl_div.py:262-266: base-10 packing
            ws = [sum(s * 10 ** (l - 1 - i) for i, s in enumerate(w)) for w in ws]
        return ws

    def entropy(ws, base):
        if not ws:
            return Decimal(0), 0
        c = Counter(ws)
        n = len(ws)
        lb = D(base).ln()
        if lb == 0:
            cond.see(0)
            raise Undefined("entropy in base 1")
        return -sum(D(Fraction(k, n)) * D(Fraction(k, n)).ln() for k in c.values()) / lb, len(c)

    ox = gsl_symbols(real, b)
    tot = Decimal(0)
    for s in ens:
        sx = gsl_symbols(s, b)
        val = Decimal(0)
        for l in range(1, L + 1):
            sw, ow = words(sx, l), words(ox, l)
            hs, ns = entropy(sw, b**l)
            hm, nm = entropy(sw + ow, b**l)
            w = Fraction(2 * l, L * (L + 1))
            val += D(w) * (2 * hm - hs + D(Fraction(nm - ns, 2 * T)))
        tot += val
    return tot / len(ens)


def gsl_edge_status(series_list, b):
    """('ok' | 'ambiguous' | 'on_edge_consistent', detail) for the symbolisation of the given series.

    A value closer than 1e-9 (relative to the range) to an exact edge without being on it makes the symbol depend on
    float rounding -> ambiguous.  A value exactly on an exact edge is only decidable when numpy's float edge is that
    same number."""
    status = "ok"
    for xs in series_list:
        ed = gsl_edges(xs, b)
        rng_ = ed[-1] - ed[0]
        fx = [float(v) for v in xs]
        fed = np.linspace(np.float64(min(fx)) - 0.00001, np.float64(max(fx)) + 0.00001, b + 1)
        for v in set(xs):
            for i, e in enumerate(ed):
                d = abs(v - e)
                if d == 0:
                    if Fraction(float(fed[i])) != e:
                        return "ambiguous", None
                    status = "on_edge_consistent"
                elif d < rng_ * Fraction(1, 10**9):
                    return "ambiguous", None
                elif Fraction(float(fed[i])) != e and (float(v) - float(fed[i])) * (v - e) <= 0:
                    return "ambiguous", None
    return status, None


def _wrap32(n: int) -> int:
    return (n + 2**31) % 2**32 - 2**31


def o_likelihood(sim, real, o, cond, variant):
    """sim[d][r][s], real[d][t] as Fractions."""
    Dd, R, S, T = len(real), len(sim[0]), len(sim[0][0]), len(real[0])
    if o["h"] == "silverman":
        h = (-(D(Fraction(S * (Dd + 2), 4)).ln()) / (Dd + 4)).exp()
    elif o["h"] == "scott":
        h = (-(Decimal(S).ln()) / (Dd + 4)).exp()
    else:
        h = D(fr(o["h"]))
    cond.see(h)
    if h == 0:
        raise Undefined("bandwidth 0")
    norm = h**Dd * (2 * PI).sqrt() ** Dd
    tot = Decimal(0)
    for r in range(R):
        for t in range(T):
            acc = Decimal(0)
            best = None
            for s in range(S):
                if variant == 2:   # likelihood.py:105-112 on int32 arrays: the difference and its square wrap modulo 2^32
                    d2 = Fraction(sum(_wrap32(_wrap32(int(sim[d][r][s]) - int(real[d][t])) ** 2) for d in range(Dd)), Dd)
                else:
                    d2 = sum((sim[d][r][s] - real[d][t]) ** 2 for d in range(Dd)) / Dd
                ex = -(D(d2) / (2 * h * h))
                best = ex if best is None or ex > best else best
                acc += ex.exp() / norm
            if best < -600:
                cond.see(0)      # every kernel term underflows in binary64: log(0) there, finite here -> not a fair test
            lik = acc / S
            if lik <= 0:
                raise Undefined("log of 0")
            tot += lik.ln()
    return -tot / R


ORACLES_1D = {"minkowski": o_minkowski, "msm": o_msm, "fourier": o_fourier, "gsl": o_gsl}


def oracle(case, obs, variant=0):
    """The documented definition (variant 0) or the code-shaped deviation (variant 1: Minkowski ignores its filters,
    GSL-div packs words base 10).  Returns ('value', Decimal, cond) or ('undefined', reason, cond)."""
    cond = Cond()
    E, N, Dd = len(case["sim"]), len(case["sim"][0]), len(case["real"][0])
    raw = [[[fr(case["sim"][e][t][i]) for t in range(N)] for e in range(E)] for i in range(Dd)]
    real = [[fr(row[i]) for row in case["real"]] for i in range(Dd)]
    eff = []
    ignore = variant == 1 and case["loss"] == "minkowski"
    for i in range(Dd):
        f = None if (obs.get("filtered") is None or ignore) else obs["filtered"][i]
        eff.append(raw[i] if f is None else [[fr(x) for x in mem] for mem in f])
    try:
        if case["loss"] == "likelihood":
            return "value", o_likelihood(eff, real, case["opts"], cond, variant), cond.v
        if case["weights"] is None:
            ws = [Fraction(1, Dd)] * Dd
        else:
            ws = [fr(x) for x in case["weights"]]
        f1 = ORACLES_1D[case["loss"]]
        tot = Decimal(0)
        for i in range(Dd):
            tot += f1(eff[i], real[i], case["opts"], cond, variant) * D(ws[i])
        return "value", tot, cond.v
    except Undefined as u:
        return "undefined", str(u), cond.v
    except (InvalidOperation, DivisionByZero, Overflow, ZeroDivisionError) as u:
        return "undefined", type(u).__name__, cond.v


def within(v: float, ref: Decimal, rtol=RTOL) -> bool:
    fv = Fraction(v)
    tol = rtol * max(1, abs(fv))
    return abs(D(fv) - ref) <= D(tol)


# =============================================================================================== Coq emission
def emit(case, obs, variant=0):
    o = case["opts"]
    k = case["loss"]
    if k == "minkowski":
        kind = f"LMink {cz_(o['p'])}"
    elif k == "msm":
        _, kinds, guard = MOMSETS[o["moments"]]
        ks = clist([f"({'true' if d else 'false'}, {COQ_MOM[m]})" for d, m in kinds])
        cov = o["cov"]
        if cov == "identity":
            cc = "CovId"
        elif cov == "inverse_variance":
            cc = "CovIV"
        else:
            cc = "(CovW " + clist([clist([cdy(fr(x)) for x in row]) for row in cov]) + ")"
        kind = f"LMsm {ks} {'true' if guard else 'false'} {cc} {'true' if o['std'] else 'false'}"
    elif k == "fourier":
        f = Fraction(o["f"])
        kind = f"LFourier {'true' if o['filter'] == 'ideal' else 'false'} {f.numerator} {f.denominator}"
    elif k == "gsl":
        ob = "None" if o["nb_values"] is None else f"(Some {o['nb_values']})"
        oL = "None" if o["nb_word_lengths"] is None else f"(Some {o['nb_word_lengths']})"
        kind = f"LGsl {ob} {oL}"
    else:
        h = o["h"]
        kind = "LLik " + ("Silverman" if h == "silverman" else "Scott" if h == "scott" else f"(BwGiven {cdy(fr(h))})")
    E, N, Dd = len(case["sim"]), len(case["sim"][0]), len(case["real"][0])
    sim = clist([clist([clist([cdy(fr(case["sim"][e][t][i])) for t in range(N)]) for e in range(E)]) for i in range(Dd)])
    if obs.get("filtered") is None:
        filt = clist(["None"] * Dd)
    else:
        filt = clist(["None" if f is None else "(Some " + clist([clist([cdy(fr(x)) for x in mem]) for mem in f]) + ")"
                      for f in obs["filtered"]])
    real = clist([clist([cdy(fr(row[i])) for row in case["real"]]) for i in range(Dd)])
    w = "None" if case["weights"] is None else "(Some " + clist([cdy(fr(x)) for x in case["weights"]]) + ")"
    v = "None" if obs["value"] is None else f"(Some {cdy(fr(obs['value']))})"
    return f"mkCase ({kind}) {cnat(variant)} {sim} {filt} {real} {w} {v}"


# =============================================================================================== generators
def dy_value(rng, style):
    if style == "coarse":
        v = rng.randint(-8, 8) / 4.0
        return -0.0 if v == 0.0 and rng.below(2) else v   # signed zeros
    if style == "positive":
        return rng.randint(64, 512) / 128.0           # [0.5, 4]
    if style == "small":
        return rng.randint(-2048, 2048) / 4096.0       # [-0.5, 0.5]
    return rng.randint(-16384, 16384) / 4096.0         # generic: [-4, 4] on a 2^-12 grid


def gen_series(rng, n, style, shape):
    if shape == "constant":
        return [dy_value(rng, style)] * n
    if shape == "two_valued":
        a, b = dy_value(rng, style), dy_value(rng, style)
        return [a if rng.below(2) else b for _ in range(n)]
    if shape == "blocks":
        out = []
        while len(out) < n:
            out += [dy_value(rng, style)] * rng.randint(1, 4)
        return out[:n]
    if shape == "walk":
        x, out = dy_value(rng, style), []
        for _ in range(n):
            out.append(x)
            x = x + rng.randint(-4, 4) / 8.0
            if style == "positive":
                x = min(max(x, 0.5), 6.0)
        return out
    return [dy_value(rng, style) for _ in range(n)]


SHAPES = ["random", "random", "random", "blocks", "two_valued", "walk", "constant"]


def gen_data(rng, E, N, Dd, positive_coords=(), allow_constant=True, T=None, style=None):
    """sim (E,N,D) and real (T or N, D) as nested hex lists."""
    T = N if T is None else T
    sim = [[[None] * Dd for _ in range(N)] for _ in range(E)]
    real = [[None] * Dd for _ in range(T)]
    shapes = []
    for i in range(Dd):
        st = "positive" if i in positive_coords else (style or rng.choice(["generic", "generic", "coarse", "small"]))
        sh = rng.choice(SHAPES)
        if sh == "constant" and not allow_constant:
            sh = "random"
        shapes.append(f"{st}/{sh}")
        for e in range(E):
            s = gen_series(rng, N, st, sh if rng.below(4) else "random")
            for t in range(N):
                sim[e][t][i] = fhex(s[t])
        r = gen_series(rng, T, st, sh)
        for t in range(T):
            real[t][i] = fhex(r[t])
    return sim, real, shapes


def gen_weights(rng, Dd):
    k = rng.below(4)
    if k == 0:
        return None
    if k == 1:
        return [fhex(rng.randint(0, 8) / 4.0) for _ in range(Dd)]
    if k == 2:
        return [fhex(rng.choice([0.1, 0.3, 0.7, 1.0, 2.5])) for _ in range(Dd)]
    w = [0.0] * Dd
    w[rng.below(Dd)] = 1.0
    return [fhex(x) for x in w]


def gen_filters(rng, Dd, force=False):
    if not force and rng.below(2) == 0:
        return None
    names = [rng.choice([None, "hp_cycle", "log_hp", "diff_log_demean", "user_affine", "user_square", "user_identity_view"])
             for _ in range(Dd)]
    if force and all(n is None for n in names):
        names[rng.below(Dd)] = rng.choice(["user_affine", "hp_cycle"])
    return names


def base_case(rng, loss, opts, nmin=3, nmax=32, T=None, force_filters=False, allow_constant=True, no_filters=False,
              style=None):
    E, Dd = rng.randint(1, 4), rng.randint(1, 3)
    big = rng.below(10)
    if big == 0:
        E = rng.randint(5, 9)          # larger ensembles
    elif big == 1:
        Dd = rng.randint(4, 6)         # more coordinates
    N = rng.randint(nmin, nmax if big > 1 else min(nmax, max(nmin, 12)))
    filters = None if no_filters else gen_filters(rng, Dd, force_filters)
    pos = () if filters is None else tuple(i for i, n in enumerate(filters) if n in POSITIVE_FILTERS)
    sim, real, shapes = gen_data(rng, E, N, Dd, pos, allow_constant, T, style)
    return {"loss": loss, "opts": opts, "sim": sim, "real": real, "weights": gen_weights(rng, Dd), "filters": filters,
            "tag": f"{loss}", "shapes": shapes}


def shift_level(rng, c, levels=(2**10, 2**17, 2**21)):
    """Data far from the origin relative to their spread (an index around 100000, a timestamp): every value moved by the
    same power of two, exactly representable together with the 2^-12 grid of the values."""
    lv = float(rng.choice(list(levels)))
    for key in ("sim", "real"):
        def mv(x):
            return [mv(y) for y in x] if isinstance(x, list) else fhex(unhex(x) + lv)
        c[key] = mv(c[key])
    c["tag"] += "/far-from-origin"
    return c


REAL_VALUED_FILTERS = ("user_square", "hp_cycle", "diff_log_demean", "log_hp")


def gen_int_dtype(rng, nmax):
    """Integer-typed arrays with a filter whose output is not integer-valued."""
    loss = rng.choice(["minkowski", "fourier", "minkowski"])
    opts = {"p": rng.choice([1, 2, 3])} if loss == "minkowski" else {"filter": rng.choice(["ideal", "gaussian"]), "f": rng.choice([0.5, 0.8, 1.0])}
    E, Dd, N = rng.randint(1, 3), rng.randint(1, 3), rng.randint(4, min(nmax, 16))
    filters = [rng.choice([None, *REAL_VALUED_FILTERS]) for _ in range(Dd)]
    if all(f is None for f in filters):
        filters[rng.below(Dd)] = rng.choice(REAL_VALUED_FILTERS)

    def ser(n):
        return [fhex(float(rng.randint(1, 9))) for _ in range(n)]
    sim = [[[None] * Dd for _ in range(N)] for _ in range(E)]
    real = [[None] * Dd for _ in range(N)]
    for i in range(Dd):
        for e in range(E):
            for t, v in enumerate(ser(N)):
                sim[e][t][i] = v
        for t, v in enumerate(ser(N)):
            real[t][i] = v
    return {"loss": loss, "opts": opts, "sim": sim, "real": real, "weights": gen_weights(rng, Dd), "filters": filters,
            "tag": f"{loss}/int64-data", "shapes": ["int"] * Dd, "dtype": "int64"}


def gen_minkowski(rng, nmax):
    c = base_case(rng, "minkowski", {"p": rng.choice([1, 2, 3, 4, 1, 2, 3, 4, 5, 6, 8])}, 3, nmax,
                  force_filters=rng.below(3) == 0)
    if c["filters"] is None and rng.below(4) == 0:
        return shift_level(rng, c)
    if rng.below(8) == 0:   # sim mean equal to real: loss 0
        E = len(c["sim"])
        for e in range(E):
            c["sim"][e] = [list(r) for r in c["real"]]
        c["filters"] = None
        c["tag"] = "minkowski/zero"
    return c


def rand_sym(rng, k):
    m = [[0.0] * k for _ in range(k)]
    q = 1.0 if rng.below(3) == 0 else 4.0     # a third of the matrices are integer-valued (and may be handed over as int64)
    for a in range(k):
        for b in range(a, k):
            m[a][b] = m[b][a] = rng.randint(-8, 8) / q
    return [[fhex(x) for x in row] for row in m]


def gen_msm(rng, nmax, force=None):
    ms = rng.choice(["default", "default", "user_mean_std", "user_m_s_r2", "user_acf12", "user_absdiff"])
    cov = rng.choice(["identity", "inverse_variance", "inverse_variance", "W"])
    std = rng.below(3) == 0
    if force:
        ms, cov, std = force.get("moments", ms), force.get("cov", cov), force.get("std", std)
    k = len(MOMSETS[ms][1])
    if cov == "W":
        cov = rand_sym(rng, k)
    opts = {"moments": ms, "cov": cov, "std": std}
    # a quarter of the cases: simulated series of another length than the real one (sim_length != data length)
    T = rng.randint(8, max(8, min(nmax, 24))) if rng.below(4) == 0 else None
    nmin, nmx = 8, max(8, nmax)
    if force and force.get("lengths"):       # series lengths taken from a given set (simulated and real independently)
        nmin = nmx = rng.choice(force["lengths"])
        T = rng.choice(force["lengths"])
    c = base_case(rng, "msm", opts, nmin, nmx, T=T, allow_constant=ms in ("default", "user_mean_std", "user_m_s_r2"))
    c["tag"] = f"msm/{ms}/{cov if isinstance(cov, str) else 'W'}/{'std' if opts['std'] else 'raw'}"
    if len(c["real"]) != len(c["sim"][0]):
        c["tag"] += "/T!=N"
    if cov == "inverse_variance" and rng.below(6) == 0 and not force:
        # zero variance on purpose: every member is the real series itself
        for e in range(len(c["sim"])):
            c["sim"][e] = [list(r) for r in c["real"]]
        c["filters"] = None
        c["expect_undefined"] = True
        c["tag"] += "/zero_variance"
    return c


F_VALUES = ["0.1", "0.3", "0.5", "0.8", "1"]


def gen_fourier(rng, nmax):
    opts = {"filter": rng.choice(["ideal", "gaussian"]), "f": rng.choice(F_VALUES)}
    c = base_case(rng, "fourier", opts, 3, nmax)
    n = len(c["real"])
    keep = round_half_even(Fraction(opts["f"]) * (n // 2 + 1))
    c["tag"] = f"fourier/{opts['filter']}/f={opts['f']}"
    if opts["filter"] == "gaussian" and keep == 0:
        c["expect_undefined"] = True
        c["tag"] += "/sigma0"
    return c


def gen_gsl(rng, nmax):
    k = rng.below(10)
    if k <= 1:
        k = 0
        opts = {"nb_values": None, "nb_word_lengths": None}
        nmin, nmx = 5, min(nmax, 38)
    else:
        opts = {"nb_values": rng.randint(2, 12) if rng.below(16) else 1, "nb_word_lengths": rng.randint(1, 12)}
        nmin, nmx = max(3, opts["nb_word_lengths"] - 1), nmax
    c = base_case(rng, "gsl", opts, nmin, max(nmin, nmx))
    c["tag"] = "gsl/" + ("default" if k == 0 else f"b{'>=10' if opts['nb_values'] >= 10 else '<10'}")
    T = len(c["real"])
    b = opts["nb_values"] if opts["nb_values"] is not None else int((T - 1) / 2.0)
    if b == 1:
        c["expect_undefined"] = True
        c["tag"] = "gsl/one_symbol"
    return c


def gen_gsl_on_edge(rng):
    """Tiny-scale data for which numpy's linspace edges are exact, with values placed ON interior edges."""
    eps = Fraction(0.00001)
    for _ in range(400):
        b = rng.choice([2, 2, 4, 3, 8])
        u = Fraction(1, 2**69)
        half = rng.randint(2**51, 2**52 + 2**51)   # |min| in units of 2^-69, about 1.0-1.7 eps
        mn = -(half | 1) * u
        mx = (rng.randint(2**51, 2**52 + 2**51) | 1) * u
        if rng.below(2):
            mx = -mn
        if Fraction(float(mn)) != mn or Fraction(float(mx)) != mx:
            continue
        ed = [(mn - eps) + i * ((mx + eps) - (mn - eps)) / b for i in range(b + 1)]
        fed = np.linspace(np.float64(float(mn)) - 0.00001, np.float64(float(mx)) + 0.00001, b + 1)
        good = [i for i in range(1, b) if Fraction(float(fed[i])) == ed[i] and mn < ed[i] < mx]
        if not good:
            continue
        pool = [float(ed[i]) for i in good] + [float(mn), float(mx)]
        E, N = rng.randint(1, 3), rng.randint(4, 12)

        def ser():
            s = [rng.choice(pool) for _ in range(N - 2)] + [float(mn), float(mx)]
            rng.shuffle(s)
            return s

        sim = [[[fhex(v)] for v in ser()] for _ in range(E)]
        real = [[fhex(v)] for v in ser()]
        c = {"loss": "gsl", "opts": {"nb_values": b, "nb_word_lengths": rng.randint(1, 3)}, "sim": sim, "real": real,
             "weights": None, "filters": None, "tag": "gsl/on_edge", "shapes": ["on_edge"]}
        return c
    return None


def gen_likelihood(rng, nmax):
    h = rng.choice(["silverman", "scott", fhex(0.3), fhex(1.5), "silverman", "scott", fhex(0.3), fhex(1.5), fhex(1.0), fhex(2.0)])
    S = rng.randint(3, min(nmax, 24))
    T = rng.randint(2, 10)
    if rng.below(8) == 0:
        S = rng.randint(1, 2)          # one or two simulated points per member
    if rng.below(8) == 0:
        T = 1                          # a single real observation
    c = base_case(rng, "likelihood", {"h": h}, S, S, T=T, style="generic" if rng.below(2) else "coarse")
    if S < 3 and c["filters"] is not None:     # the library's HP filter needs three points
        c["filters"] = [n if n in (None, "user_affine", "user_square", "user_identity_view") else "user_affine" for n in c["filters"]]
    if len(c["sim"]) > 2 and S * T * len(c["sim"]) > 400:
        c["sim"] = c["sim"][:2]
    c["tag"] = "likelihood/" + (h if h in ("silverman", "scott") else "explicit")
    if c["weights"] is not None:
        c["tag"] += "/weights_ignored"
    if c["filters"] is None and rng.below(3) == 0:
        shift_level(rng, c)
    return c


def gen_likelihood_far(rng, nmax):
    """Kernel likelihood of data at a level of 1e5 - 2e6 with a spread of a few units: |x|^2 + |y|^2 - 2xy style
    evaluations of the squared distances lose 7 - 10 digits there, the definition (differences first) loses none."""
    while True:
        c = gen_likelihood(rng, nmax)
        if c["filters"] is None and "far-from-origin" not in c["tag"]:
            return shift_level(rng, c, (2**17, 2**21))


# ----------------------------------------------------------------------------------------------- round 4 generators
def _map_data(c, fn):
    def mv(x):
        return [mv(y) for y in x] if isinstance(x, list) else fhex(fn(unhex(x)))
    for key in ("sim", "real"):
        c[key] = mv(c[key])
    return c


def _plain(c):
    return c["filters"] is None and "far-from-origin" not in c["tag"] and not c.get("expect_undefined")


FAR_KINDS = ("msm-default-identity", "msm-user-iv", "msm-any", "fourier", "gsl")


def gen_far(rng, nmax, j=0):
    """Method of moments / Fourier / GSL-div on data far from the origin relative to their spread (one-pass variances,
    expanded squares and 'centre first' shortcuts are only visible there).  Levels: see the design note for the measured
    accuracy of the unchanged code at each.  The kinds are taken in turn (j = number of cases made so far)."""
    kind = FAR_KINDS[j % len(FAR_KINDS)]
    hi = [COND_FAR.numerator, COND_FAR.denominator]
    while True:
        if kind == "msm-default-identity":
            # the 18 library moments (np.std, scipy skew / kurtosis, statsmodels acf) at a level of 2^17
            # ... on series of 8 or 16 points: their mean (a sum of 29-bit numbers divided by a power of two) and hence every
            # deviation is exact in binary64, so the correct code is as accurate as at the origin and the usual conditioning
            # rule applies, while E[x^2] - E[x]^2 loses 1e-6
            c = gen_msm(rng, min(nmax, 24), {"moments": "default", "cov": "identity", "lengths": [8, 16]})
            if not _plain(c):
                continue
            c["need_cond"] = True       # not the all-constant cases (no division at all: nothing to lose far from the origin)
            return shift_level(rng, c, (2**17,))
        if kind == "msm-user-iv":
            c = gen_msm(rng, min(nmax, 24), {"moments": rng.choice(["user_mean_std", "user_absdiff"]),
                                             "cov": "inverse_variance", "std": False})
            if not _plain(c):
                continue
            c["cond_min"] = hi
            return shift_level(rng, c, (2**17,))
        c = GENS[{"msm-any": "msm"}.get(kind, kind)](rng, min(nmax, 24))
        if not _plain(c):
            continue
        if kind == "fourier":
            return shift_level(rng, c, (2**10,))
        if kind == "gsl":
            return shift_level(rng, c, (2**10, 2**17))
        o = c["opts"]
        if o["cov"] == "inverse_variance":
            if o["std"] or o["moments"] not in ("user_mean_std", "user_absdiff"):
                continue
            c["cond_min"] = hi
            return shift_level(rng, c, (2**17,))
        if not isinstance(o["cov"], str) or o["moments"] == "user_m_s_r2":
            # an indefinite W (cancellation in g'Wg) / the user's own float mean of x^2 at 2^34: moderate level only
            return shift_level(rng, c, (2**10,))
        if rng.below(2):
            return shift_level(rng, c, (2**10,))
        c["cond_min"] = hi
        return shift_level(rng, c, (2**17,))


def gen_scaled(rng, nmax, j=0):
    """Method of moments / GSL-div on data multiplied by 2^k, k in {-40, -32, 24, 40} (exact in binary64: every floating-point
    operation of a scale-free computation gives exactly the scaled result, so the unchanged code behaves as on the
    unscaled twin; absolute thresholds such as np.isclose's 1e-8 do not)."""
    loss = ("msm", "msm", "gsl")[j % 3]
    while True:
        # (the library's 18 moments in half of the method-of-moments cases: their skewness / kurtosis / autocorrelations are
        # scale-free, so the loss stays O(1) whatever k)
        c = gen_msm(rng, min(nmax, 24), {"moments": "default"} if j % 2 == 0 else None) if loss == "msm" else \
            GENS[loss](rng, min(nmax, 24))
        if not _plain(c):
            continue
        # tiny: 2^-32 and 2^-40 put every value (|x| <= 8 before scaling) below numpy's default absolute tolerance 1e-8
        k = rng.choice([-40, -32, 24, 40] if j % 6 > 2 else [-40, -32])
        c["scale_pow"] = k
        _map_data(c, lambda v: v * 2.0**k)
        c["tag"] += "/scaled-tiny" if k < 0 else "/scaled-huge"
        return c


def unscaled_twin(case):
    t = json.loads(json.dumps(case))
    k = t.pop("scale_pow")
    return _map_data(t, lambda v: v * 2.0**(-k))


INT_PAIRS = [("int64", "int64"), ("int32", "int32"), ("int64", "float64"), ("float64", "int64"), ("int32", "int64"),
             ("float64", "int32")]


def gen_int_any(rng, nmax, j=0):
    """Any loss on integer-valued data handed over as int64 / int32 arrays, or one integer and one floating-point array."""
    loss = ("minkowski", "msm", "fourier", "gsl", "likelihood")[j % 5]
    c = GENS[loss](rng, min(nmax, 16))
    _map_data(c, lambda v: float(math.floor(v * 4)))
    c["sim_dtype"], c["real_dtype"] = rng.choice(INT_PAIRS)
    c["tag"] += "/int-arrays"
    return c


def gen_lik_int32_wide(rng):
    """Kernel likelihood of int32 counts with a spread above 46340: (x - y)^2 does not fit in 32 bits."""
    E, S, T, Dd = rng.randint(1, 2), rng.randint(3, 8), rng.randint(2, 4), rng.randint(1, 2)
    sim = [[[fhex(float(rng.randint(0, 100000))) for _ in range(Dd)] for _ in range(S)] for _ in range(E)]
    real = [[fhex(float(rng.randint(0, 100000))) for _ in range(Dd)] for _ in range(T)]
    dt = rng.choice(["int32", "int32", "int64"])
    return {"loss": "likelihood", "opts": {"h": fhex(32768.0)}, "sim": sim, "real": real, "weights": None, "filters": None,
            "tag": f"likelihood/{dt}-wide-spread", "shapes": ["counts"] * Dd, "sim_dtype": dt, "real_dtype": dt}


def _flat(x):
    return [z for y in x for z in _flat(y)] if isinstance(x, list) else [x]


def _f32_ok(c):
    return all(float(np.float32(unhex(x))) == unhex(x) for key in ("sim", "real") for x in _flat(c[key]))


def gen_f32(rng, nmax, j=0):
    """float32 arrays.  Fourier (numpy's rfft works in double) and GSL-div (symbols) give the same value as on the float64
    copy and are judged at the usual tolerance, by Coq too; Minkowski is computed in single precision by numpy / scipy and is
    judged by the oracle at 1e-5."""
    loss = ("fourier", "gsl", "minkowski")[j % 3]
    while True:
        c = GENS[loss](rng, min(nmax, 16))
        if "far-from-origin" in c["tag"] or not _f32_ok(c):
            continue
        if c["filters"] is not None and any(n in POSITIVE_FILTERS + ("hp_cycle",) for n in c["filters"] if n):
            continue       # library filters on float32 input: their own business (C20); user callbacks stay
        c["sim_dtype"] = "float32"
        c["real_dtype"] = rng.choice(["float32", "float64"])
        if loss == "minkowski":
            c["tol32"] = True
        c["tag"] += "/float32"
        return c


def gen_small(rng):
    """Series of length 1 and 2 (rfft of length 1 / 2, a distance over one point)."""
    loss = rng.choice(["minkowski", "fourier"])
    opts = {"p": rng.choice([1, 2, 3])} if loss == "minkowski" else {"filter": rng.choice(["ideal", "gaussian"]),
                                                                      "f": rng.choice(F_VALUES)}
    E, Dd, N = rng.randint(1, 3), rng.randint(1, 3), rng.randint(1, 2)
    filters = None if rng.below(2) else [rng.choice([None, "user_affine", "user_square", "user_identity_view"]) for _ in range(Dd)]
    sim, real, shapes = gen_data(rng, E, N, Dd)
    c = {"loss": loss, "opts": opts, "sim": sim, "real": real, "weights": gen_weights(rng, Dd), "filters": filters,
         "tag": f"{loss}/N<=2", "shapes": shapes}
    if loss == "fourier" and opts["filter"] == "gaussian" and round_half_even(Fraction(opts["f"]) * (N // 2 + 1)) == 0:
        c["expect_undefined"] = True
        c["tag"] += "/sigma0"
    return c


def has_callback(case):
    return (case["filters"] is not None and any(n is not None for n in case["filters"])) or \
           (case["loss"] == "msm" and MOMSETS[case["opts"]["moments"]][0] is not None)


def decorate(rng, case):
    """How the case is handed to the implementation (representation, life-cycle of the loss object); the definition and the
    expected value do not depend on any of it."""
    loss = case["loss"]
    if rng.below(3) == 0:
        lay = {"sim": rng.choice(["C", "F", "strided", "negstride"]), "real": rng.choice(["C", "F", "strided", "negstride"])}
        if rng.below(2):
            lay["readonly"] = True
        case["layout"] = lay
    o = case["opts"]
    int_ok = (loss == "fourier" and float(o["f"]) == 1.0) or \
             (loss == "likelihood" and o["h"] not in ("silverman", "scott") and unhex(o["h"]) == int(unhex(o["h"])))
    if int_ok and rng.below(2):
        case["opt_repr"] = "int"            # f = 1, h = 2 as Python ints
    elif rng.below(4) == 0:
        case["opt_repr"] = "float_p" if loss == "minkowski" and rng.below(2) else "np"
    if case["weights"] is not None and rng.below(2):
        case["weights_repr"] = rng.choice(["list", "tuple", "int", "readonly", "strided"])
    if case["filters"] is not None and rng.below(3) == 0:
        case["filters_repr"] = "tuple"
    if loss == "msm" and not isinstance(case["opts"]["cov"], str) and rng.below(2):
        case["cov_repr"] = rng.choice(["int", "strided", "readonly"])
    if rng.below(4) == 0:
        case["reassign"] = True
        case["reassign_eval"] = bool(rng.below(2))
    user_calc = loss == "msm" and MOMSETS[case["opts"]["moments"]][0] is not None
    if user_calc and rng.below(2):
        case["memo_calc"] = True
    if "prior_D" not in case and (rng.below(3) == 0 or case.get("memo_calc")):
        case["prior_mode"] = "same_real" if case.get("memo_calc") and rng.below(2) else \
            rng.choice(["same_real", "inplace", "rejected"])
    if has_callback(case) and rng.below(3) == 0:
        case["nested"] = True
    case.setdefault("prior_seed", rng.below(2**31))
    return case


HOW_KEYS = ("layout", "opt_repr", "weights_repr", "filters_repr", "cov_repr", "reassign", "prior_mode", "nested", "memo_calc",
            "prior_D", "sim_dtype", "scale_pow")


GENS = {"minkowski": gen_minkowski, "msm": gen_msm, "fourier": gen_fourier, "gsl": gen_gsl, "likelihood": gen_likelihood}


def corpus_cases():
    """Fixed witnesses (always run first): the two deviations of DESIGN section 7."""
    out = []
    # Minkowski with a filter that matters
    sim = [[[fhex(1.0 + 0.25 * t)] for t in range(6)]]
    real = [[fhex(0.5 * t)] for t in range(6)]
    out.append({"loss": "minkowski", "opts": {"p": 2}, "sim": sim, "real": real, "weights": None,
                "filters": ["user_affine"], "tag": "corpus/minkowski_filter", "shapes": ["corpus"]})
    # GSL-div: words [1,12] and [2,2] both pack to 22 with 12 symbols
    vals = [0.0, 11.0, 1.0, 1.0, 0.0, 11.0, 1.0, 1.0, 5.0, 7.0, 0.0, 11.0]
    sim = [[[fhex(v)] for v in vals]]
    real = [[fhex(v)] for v in [11.0, 0.0, 3.0, 1.0, 1.0, 9.0, 0.0, 11.0, 1.0, 1.0, 2.0, 4.0]]
    out.append({"loss": "gsl", "opts": {"nb_values": 12, "nb_word_lengths": 2}, "sim": sim, "real": real,
                "weights": None, "filters": None, "tag": "corpus/gsl_conflation", "shapes": ["corpus"]})
    return out


def usable(case, obs):
    """Decide whether a generated case is a fair test (see design.d/C07.md, 'ill-conditioned inputs')."""
    st, val, cond = oracle(case, obs)
    if case.get("scale_pow") and st == "value":
        # data multiplied by 2^k: the conditioning is that of the unscaled twin (the thresholds are absolute)
        st2, _, cond = oracle(unscaled_twin(case), obs)
        if st2 != "value":
            return False, st, val, cond
    if case.get("expect_undefined"):
        return st == "undefined", st, val, cond
    if st == "undefined":
        return False, st, val, cond                     # accidental degeneracy: float rounding decides, skip
    if cond is not None and cond < (Fraction(*case["cond_min"]) if case.get("cond_min") else COND_MIN):
        return False, st, val, cond
    if case.get("need_cond") and cond is None:
        return False, st, val, cond
    if case["loss"] == "fourier":
        # f is modelled as the published decimal, rounded half-to-even exactly; the code rounds the float product.  They
        # agree on the option set (|fl(f)*n - f*n| <= 2^-53 f n is below half a spacing at every k+1/2 with k >= 0);
        # should they ever differ the case is not a fair test of the formula
        nf = len(case["real"]) // 2 + 1
        if round_half_even(Fraction(case["opts"]["f"]) * nf) != int(np.round(float(case["opts"]["f"]) * nf)):
            return False, st, val, cond
    if case["loss"] == "gsl":
        T = len(case["real"])
        b = case["opts"]["nb_values"] if case["opts"]["nb_values"] is not None else int((T - 1) / 2.0)
        E, N, Dd = len(case["sim"]), len(case["sim"][0]), len(case["real"][0])
        series = []
        for i in range(Dd):
            f = None if obs.get("filtered") is None else obs["filtered"][i]
            for e in range(E):
                series.append([fr(case["sim"][e][t][i]) for t in range(N)] if f is None else [fr(x) for x in f[e]])
            series.append([fr(row[i]) for row in case["real"]])
        s, _ = gsl_edge_status(series, b)
        if s == "ambiguous":
            return False, st, val, cond
        if s == "on_edge_consistent" and "on_edge" not in case["tag"]:
            case["tag"] += "+on_edge"
    if not all(math.isfinite(unhex(x)) for f in (obs.get("filtered") or []) if f for mem in f for x in mem):
        return False, st, val, cond
    return True, st, val, cond


# =============================================================================================== run
def descriptor_for(case, obs, chk_variant_ok):
    loss = case["loss"]
    if loss == "minkowski" and case["filters"] is not None and chk_variant_ok:
        return {"kind": "minkowski_filters_ignored"}
    if loss == "likelihood" and chk_variant_ok:
        return {"kind": "integer_wraparound", "loss": "likelihood", "dtype": "int32"}
    if loss == "gsl" and chk_variant_ok:
        T = len(case["real"])
        b = case["opts"]["nb_values"] if case["opts"]["nb_values"] is not None else int((T - 1) / 2.0)
        if b >= 10:
            return {"kind": "gsl_word_conflation", "nb_values_ge": 10}
    return {"kind": "value_mismatch", "loss": loss, "tag": case["tag"].split("+")[0]}


def run(chk, replay=None):
    chk.proof_gate()
    rng = chk.rng
    cases, observations, refs = [], [], []
    skipped = Counter()

    def add(case, force=False):
        free = case.get("weights") is None and case.get("filters") is None
        # options that are resolved from the data at evaluation time (GSL defaults from the length, the likelihood's bandwidth
        # rule from the number of points and coordinates): always preceded by an evaluation on data of another length
        gsl_default = (case["loss"] == "gsl" and None in (case["opts"].get("nb_values"), case["opts"].get("nb_word_lengths"))) or \
                      (case["loss"] == "likelihood" and case["opts"].get("h") in ("silverman", "scott"))
        if not force and "prior_D" not in case and (gsl_default or rng.below(3) == 0):
            # the same loss object evaluated before on other data: more coordinates when nothing ties the object to D,
            # and (half of the time, always for length-dependent GSL defaults) series of another length
            n0 = len(case["sim"][0])
            case["prior_D"] = len(case["real"][0]) + (rng.randint(1, 2) if free and not gsl_default else 0)
            if gsl_default or rng.below(2):
                case["prior_N"] = rng.choice([n0 + 3, max(5, n0 - 2), 2 * n0, max(5, n0 // 2)])
            case["prior_seed"] = rng.below(2**31)
            case["tag"] = case.get("tag", "") + "+reused-object"
        if not force and not case.get("tag", "").startswith("corpus/"):
            decorate(rng, case)
        obs = run_impl(case)
        ok, st, val, cond = usable(case, obs)
        if not ok and not force:
            skipped[case["loss"]] += 1
            return False
        cases.append(case)
        observations.append(obs)
        refs.append((st, val, cond))
        return True

    if replay:
        add(json.loads(open(replay).read())["case"], force=True)
    else:
        for c in corpus_cases():
            add(c)
        quick = chk.tier == "quick"
        nmax = 32 if quick else 64
        plan = {"minkowski": 28, "msm": 40, "fourier": 28, "gsl": 32, "likelihood": 18} if quick else \
               {"minkowski": 350, "msm": 550, "fourier": 350, "gsl": 480, "likelihood": 250}
        for loss, n in plan.items():
            got = tries = 0
            while got < n and tries < 20 * n:
                tries += 1
                # most cases small (cheap in Coq), a fraction at the maximal length
                nm = nmax if rng.below(3) == 0 else min(nmax, 16)
                if add(GENS[loss](rng, nm)):
                    got += 1
        for _ in range(6 if quick else 40):
            c = gen_gsl_on_edge(rng)
            if c is not None:
                add(c)
        for _ in range(8 if quick else 60):
            add(gen_int_dtype(rng, nmax))
        for _ in range(4 if quick else 30):
            add(gen_likelihood_far(rng, nmax))
        # round 4 (generator sweep): see "Generator sweep" in design.d/C07.md
        extra = [(gen_far, 15, 100, True), (gen_scaled, 6, 50, True), (gen_int_any, 10, 80, True), (gen_f32, 6, 50, True),
                 (lambda r, n, j: gen_small(r), 6, 40, False), (lambda r, n, j: gen_lik_int32_wide(r), 3, 12, False)]
        for g, nq, nt, retry in extra:
            got = tries = 0
            n = nq if quick else nt
            while got < n and tries < (20 * n if retry else n):
                tries += 1
                if add(g(rng, min(nmax, 32), got)):
                    got += 1

    lits = [emit(c, o) for c, o in zip(cases, observations)]
    shard = 8 if chk.tier == "quick" else 12
    # (float32 Minkowski cases are judged by the oracle alone, at RTOL32: check_case is proved for 1e-9 only)
    coq_idx = [i for i, c in enumerate(cases) if not c.get("tol32")]
    bad, errors = chk.coq_mismatches("C07", IMPORTS, "check_case", CASE_T, [lits[i] for i in coq_idx], shard=shard,
                                     timeout=1500, preamble=PREAMBLE)
    bad = {coq_idx[j] for j in bad}

    # direct oracle on the implementation's observations
    oracle_fail = {}
    for i, (c, o, (st, val, cond)) in enumerate(zip(cases, observations, refs)):
        if not o["inputs_untouched"]:
            oracle_fail[i] = "inputs modified by compute_loss"
        elif st == "undefined":
            if o["value"] is not None:
                oracle_fail[i] = f"definition undefined ({val}) but a finite value {unhex(o['value'])!r} was returned"
        elif o["value"] is None:
            oracle_fail[i] = f"definition gives {val:.17g} but the implementation returned {o.get('raw')} / {o['error']}"
        elif not within(unhex(o["value"]), val, RTOL32 if c.get("tol32") else RTOL):
            oracle_fail[i] = f"definition gives {val:.17g}, implementation returned {unhex(o['value'])!r}"

    # failing cases: does the code-shaped deviation (variant 1) explain the observed value?  (oracle and Coq)
    suspects = sorted(set(oracle_fail) | bad)
    var_ok_py, var_ok_coq = {}, {}
    vs = [i for i in suspects if cases[i]["loss"] in ("minkowski", "gsl")]
    for i in vs:
        st, val, _ = oracle(cases[i], observations[i], variant=1)
        v = observations[i]["value"]
        var_ok_py[i] = (st == "value" and v is not None and within(unhex(v), val))
    for i in suspects:
        # kernel likelihood of int32 arrays: does 32-bit wrap-around of (x - y)^2 explain the value?  (oracle only: the Coq
        # model has no machine integers; the flag is set for both so that the specific descriptor is used)
        c = cases[i]
        if c["loss"] == "likelihood" and c.get("sim_dtype") == "int32" and c.get("real_dtype") == "int32" \
                and c["filters"] is None:
            st, val, _ = oracle(c, observations[i], variant=2)
            v = observations[i]["value"]
            ok = bool(st == "value" and v is not None and within(unhex(v), val))
            if v is None and st == "undefined":
                ok = True      # wrapped distances so large that every kernel term underflows: log 0 on both sides
            var_ok_py[i] = var_ok_coq[i] = ok
    if vs:
        vbad, verr = chk.coq_mismatches("C07v", IMPORTS, "check_case", CASE_T,
                                        [emit(cases[i], observations[i], 1) for i in vs], shard=4, timeout=1500,
                                        preamble=PREAMBLE)
        for j, i in enumerate(vs):
            var_ok_coq[i] = (j not in vbad) and not verr

    dist = Counter()
    nontrivial = set()
    for i, (c, o) in enumerate(zip(cases, observations)):
        dist[c["tag"]] += 1
        dist["E=%d" % len(c["sim"])] += 1
        dist["D=%d" % len(c["real"][0])] += 1
        dist["N<=8" if len(c["sim"][0]) <= 8 else "N<=16" if len(c["sim"][0]) <= 16 else "N<=32" if len(c["sim"][0]) <= 32 else "N<=64"] += 1
        dist["filters=" + ("none" if c["filters"] is None else "some")] += 1
        dist["weights=" + ("default" if c["weights"] is None else "given")] += 1
        for hk in HOW_KEYS:
            if c.get(hk):
                hv = c[hk]
                dist["how:" + hk + ("=" + str(hv) if isinstance(hv, str) else "")] += 1
        if o["value"] is not None and unhex(o["value"]) != 0.0:
            nontrivial.add(json.dumps([c["loss"], c["opts"], c["sim"], c["real"], c["weights"], c["filters"]]))
        if i in oracle_fail:
            desc = descriptor_for(c, o, var_ok_py.get(i, False) and var_ok_coq.get(i, False))
            chk.violation(desc, {"failed": "oracle:" + oracle_fail[i], "case": c, "observed": o,
                                 "coq_agrees_with_oracle": i in bad,
                                 "code_shaped_variant_explains": {"oracle": var_ok_py.get(i), "coq": var_ok_coq.get(i)},
                                 "coq_case": lits[i] if len(lits[i]) < 20000 else "(large)"})
        elif i in bad:
            enc, _ = chk.coq_eval("C07enc", IMPORTS, [f"case_enclosure ({lits[i]})"], preamble=PREAMBLE)
            chk.violation({"kind": "correspondence", "name": "check_case", "loss": c["loss"]},
                          {"failed": "correspondence:check_case (the verified enclosure of the definition excludes the "
                                     "returned value, the direct oracle found no failing input)", "case": c,
                           "observed": o, "enclosure": enc, "oracle": str(refs[i][1])}, no_input=True)
    for e in errors:
        chk.violation({"kind": "correspondence", "name": "coqc"}, {"failed": "correspondence:coqc", "detail": e}, no_input=True)

    def sample(i):
        c, o = cases[i], observations[i]
        return {"tag": c["tag"], "opts": c["opts"], "shape": [len(c["sim"]), len(c["sim"][0]), len(c["real"][0])],
                "filters": c["filters"], "weights": None if c["weights"] is None else [unhex(x) for x in c["weights"]],
                "returned": None if o["value"] is None else unhex(o["value"]), "oracle": str(refs[i][1])[:40]}

    cov = {
        "evaluations": len(cases),
        "distinct_nontrivial": len(nontrivial),
        "rule": "one evaluation = one compute_loss call on generated (loss, options, sim, real) compared with the Coq "
                "enclosure of the definition and with the Decimal/Fraction oracle; non-trivial = distinct inputs whose "
                "returned value is finite and non-zero; generated cases on which the definition is ill-conditioned "
                "(divides by / takes a root of a quantity < 1e-6, or a value within 1e-9 of a symbolisation edge) are "
                "skipped and counted in skipped_ill_conditioned",
        "samples": [sample(i) for i in range(0, len(cases), max(1, len(cases) // 6))][:8],
        "traces_validated_against_impl": len(cases) - len(bad),
        "model_impl_disagreements": len(bad),
        "oracle_failures": len(oracle_fail),
        "skipped_ill_conditioned": dict(skipped),
        "undefined_cases_checked": sum(1 for r in refs if r[0] == "undefined"),
        "distribution": dict(sorted(dist.items())),
        "exhaustive": False,
    }
    return chk.finish(
        cov,
        assumptions=["scipy/numpy/statsmodels evaluate within 1e-9 relative on inputs not generated (sampled differential, "
                     "not a proof about the Python)",
                     "coordinate filters are black boxes of the definition: the harness applies them to the simulated "
                     "series itself and passes their outputs (their own correctness is C20)",
                     "the option f of FourierLoss is the published decimal (0.1, 0.3, ...), rounded half-to-even times "
                     "the number of frequencies"],
        trusted=["CoqInterval (FloatIntervalFull over BigIntRadix2) interval operators and their *_correct lemmas",
                 "Python decimal/fractions for the direct oracle"],
    )
