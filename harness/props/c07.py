"""C07 - each built-in loss computes its published definition.

Model: coq/Model/LossSpec.v (definitions as Tree.expr programs), evaluator coq/Lib/IvEval.v, theorems coq/Properties/C07.v.

Correspondence (gating): for every generated (loss, options, sim, real) the real `compute_loss` of $VERIF_REPO is run; the
shape, the exact (dyadic) inputs and the returned float go to Coq, which evaluates the verified 80-bit enclosure of the
*definition* and checks  |definition - returned| <= 1e-9 * max(1, |returned|)  (check_case, sound by
C07_check_case_sound).  Inputs on which the definition is undefined (division by zero: inverse variance with a zero
variance, Gaussian sigma = 0, one symbol, standardisation by a zero moment) are only checked for "the implementation
returns a non-finite value or raises".

Direct oracle (independent of the Coq model): the same definitions written in Python over fractions.Fraction and
decimal.Decimal at 50 digits (own pi / cos / sin series), so that a failing input can be exhibited without Coq.
"""
from __future__ import annotations

import contextlib
import json
import math
import warnings
from collections import Counter
from decimal import Decimal, getcontext, InvalidOperation, DivisionByZero, Overflow
from fractions import Fraction

import numpy as np

import common
from common import clist, cnat

# `Print Assumptions` prints an "Axioms:" header line before the list when a theorem is not closed; the shared parser
# (common.parse_assumptions, written when all theorems were closed) would read that header as an axiom name.
_parse_assumptions = common.parse_assumptions


def _parse_assumptions_c07(out, names):
    res = _parse_assumptions(out, names)
    return {k: (None if v is None else [a for a in v if a != "Axioms"]) for k, v in res.items()}


common.parse_assumptions = _parse_assumptions_c07

getcontext().prec = 50

IMPORTS = ("From Coq Require Import ZArith List.\n"
           "From BlackIt Require Import Lib.Cases.\nFrom BlackIt Require Import Lib.IvEval.\n"
           "From BlackIt Require Import Model.LossSpec.")
PREAMBLE = "Open Scope Z_scope."
CASE_T = "case"
RTOL = Fraction(1, 10**9)
COND_MIN = Fraction(1, 10**4)      # cases whose definition divides by / takes a root of something smaller are skipped


# =============================================================================================== float <-> exact
def fhex(x) -> str:
    return float(x).hex()


def unhex(s) -> float:
    return float.fromhex(s)


def fr(s) -> Fraction:
    return Fraction(float.fromhex(s)) if isinstance(s, str) else Fraction(s)


def cdy(x) -> str:
    """Coq literal (m, e) with value m * 2^e for a float / Fraction with a power-of-two denominator."""
    f = Fraction(x)
    num, den = f.numerator, f.denominator
    e = -(den.bit_length() - 1)
    assert den == 1 << (-e)
    sn = f"({num})" if num < 0 else f"{num}"
    se = f"({e})" if e < 0 else f"{e}"
    return f"({sn}, {se})"


def cz_(n) -> str:
    return f"({int(n)})" if int(n) < 0 else f"{int(n)}"


# =============================================================================================== filters / moment sets
def user_affine(x):
    return 2.0 * x + 1.0


def user_square(x):
    return x * x - 0.5


def get_filter(name):
    if name is None:
        return None
    from black_it.utils import time_series as ts

    return {"hp_cycle": ts.hp_cycle_lamb1600_filter, "log_hp": ts.log_and_hp_filter,
            "diff_log_demean": ts.diff_log_demean_filter, "user_affine": user_affine, "user_square": user_square}[name]


POSITIVE_FILTERS = ("log_hp", "diff_log_demean")


def _acf_user(x, k):
    d = x - x.mean()
    return (d[:-k] * d[k:]).sum() / (d * d).sum()


def mom_mean_std(x):
    return np.array([np.mean(x), np.std(x)])


def mom_m_s_r2(x):
    return np.array([np.mean(x), np.std(x), np.mean(x * x)])


def mom_acf12(x):
    return np.array([np.mean(x), np.std(x), _acf_user(x, 1), _acf_user(x, 2)])


def mom_absdiff(x):
    a = np.abs(np.diff(x))
    return np.array([np.mean(x), np.mean(a), np.std(a)])


# name -> (python calculator or None for the default, [(on_absdiff, kind)], nan_to_num guard)
MOMSETS = {
    "default": (None, [(d, k) for d in (False, True) for k in
                       ("mean", "std", "skew3", "kurt4", "acf1", "acf2", "acf3", "acf4", "acf5")], True),
    "user_mean_std": (mom_mean_std, [(False, "mean"), (False, "std")], False),
    "user_m_s_r2": (mom_m_s_r2, [(False, "mean"), (False, "std"), (False, "raw2")], False),
    "user_acf12": (mom_acf12, [(False, "mean"), (False, "std"), (False, "acf1"), (False, "acf2")], False),
    "user_absdiff": (mom_absdiff, [(False, "mean"), (True, "mean"), (True, "std")], False),
}
COQ_MOM = {"mean": "Mean", "std": "Std", "skew3": "Skew3", "kurt4": "Kurt4", "raw2": "Raw2",
           "acf1": "Acf 1%nat", "acf2": "Acf 2%nat", "acf3": "Acf 3%nat", "acf4": "Acf 4%nat", "acf5": "Acf 5%nat"}


# =============================================================================================== implementation
def build_loss(case):
    o = case["opts"]
    w = None if case["weights"] is None else np.array([unhex(x) for x in case["weights"]])
    fl = None if case["filters"] is None else [get_filter(n) for n in case["filters"]]
    k = case["loss"]
    if k == "minkowski":
        from black_it.loss_functions.minkowski import MinkowskiLoss

        return MinkowskiLoss(p=o["p"], coordinate_weights=w, coordinate_filters=fl)
    if k == "msm":
        from black_it.loss_functions.msm import MethodOfMomentsLoss

        cov = o["cov"]
        if not isinstance(cov, str):
            cov = np.array([[unhex(x) for x in row] for row in cov])
        kw = {}
        calc = MOMSETS[o["moments"]][0]
        if calc is not None:
            kw["moment_calculator"] = calc
        return MethodOfMomentsLoss(covariance_mat=cov, coordinate_weights=w, coordinate_filters=fl,
                                   standardise_moments=o["std"], **kw)
    if k == "fourier":
        from black_it.loss_functions.fourier import FourierLoss, gaussian_low_pass_filter, ideal_low_pass_filter

        ff = ideal_low_pass_filter if o["filter"] == "ideal" else gaussian_low_pass_filter
        return FourierLoss(frequency_filter=ff, f=float(o["f"]), coordinate_weights=w, coordinate_filters=fl)
    if k == "gsl":
        from black_it.loss_functions.gsl_div import GslDivLoss

        return GslDivLoss(nb_values=o["nb_values"], nb_word_lengths=o["nb_word_lengths"], coordinate_weights=w,
                          coordinate_filters=fl)
    if k == "likelihood":
        from black_it.loss_functions.likelihood import LikelihoodLoss

        h = o["h"] if o["h"] in ("silverman", "scott") else unhex(o["h"])
        return LikelihoodLoss(coordinate_weights=w, coordinate_filters=fl, h=h)
    raise KeyError(k)


def arrays(case):
    sim = np.array([[[unhex(x) for x in row] for row in mem] for mem in case["sim"]], dtype=float)
    real = np.array([[unhex(x) for x in row] for row in case["real"]], dtype=float)
    if case.get("dtype") == "int64":   # integer-valued data handed over as integer arrays (counts, prices in cents, ...)
        sim, real = sim.astype(np.int64), real.astype(np.int64)
    return sim, real


def run_impl(case):
    """Run the real compute_loss; also apply each coordinate filter ourselves (black box inputs of the definition)."""
    sim, real = arrays(case)
    sim0, real0 = sim.copy(), real.copy()
    obs = {"value": None, "error": None, "filtered": None}
    with warnings.catch_warnings():
        warnings.simplefilter("ignore")
        old = np.seterr(all="ignore")
        try:
            loss = build_loss(case)
            if case.get("prior_D"):
                # the value must equal the definition also when the SAME loss object was used before on other data
                # (here: data with more coordinates, default weights): the earlier evaluation is discarded
                r0 = np.random.default_rng(case.get("prior_seed", 0))     # data only; seed stored in the case
                pn = case.get("prior_N") or sim.shape[1]   # ... possibly of another length
                pt = pn if real.shape[0] == sim.shape[1] else real.shape[0]
                with contextlib.suppress(Exception):
                    loss.compute_loss(r0.uniform(0.5, 2.0, size=(sim.shape[0], pn, case["prior_D"])),
                                      r0.uniform(0.5, 2.0, size=(pt, case["prior_D"])))
            v = float(loss.compute_loss(sim, real))
            obs["value"] = fhex(v) if math.isfinite(v) else None
            obs["raw"] = repr(v)
        except Exception as e:  # noqa: BLE001
            obs["error"] = f"{type(e).__name__}: {e}"[:200]
        finally:
            np.seterr(**old)
        if case["filters"] is not None:
            filt = []
            for i, name in enumerate(case["filters"]):
                f = get_filter(name)
                if f is None:
                    filt.append(None)
                else:
                    filt.append([[fhex(y) for y in f(sim0[e, :, i].copy())] for e in range(sim0.shape[0])])
            obs["filtered"] = filt
    obs["inputs_untouched"] = bool((sim == sim0).all() and (real == real0).all())
    return obs


# =============================================================================================== direct oracle
class Undefined(Exception):
    pass


def D(x) -> Decimal:
    if isinstance(x, Decimal):
        return x
    f = Fraction(x)
    return Decimal(f.numerator) / Decimal(f.denominator)


def dec_pi() -> Decimal:
    getcontext().prec += 4
    three = Decimal(3)
    lasts, t, s, n, na, d, da = 0, three, 3, 1, 0, 0, 24
    while s != lasts:
        lasts = s
        n, na = n + na, na + 8
        d, da = d + da, da + 32
        t = (t * n) / d
        s += t
    getcontext().prec -= 4
    return +s


PI = dec_pi()


def dec_cos(x: Decimal) -> Decimal:
    getcontext().prec += 4
    i, lasts, s, fact, num, sign = 0, 0, 1, 1, 1, 1
    while s != lasts:
        lasts = s
        i += 2
        fact *= i * (i - 1)
        num *= x * x
        sign *= -1
        s += num / fact * sign
    getcontext().prec -= 4
    return +s


def dec_sin(x: Decimal) -> Decimal:
    getcontext().prec += 4
    i, lasts, s, fact, num, sign = 1, 0, x, 1, x, 1
    while s != lasts:
        lasts = s
        i += 2
        fact *= i * (i - 1)
        num *= x * x
        sign *= -1
        s += num / fact * sign
    getcontext().prec -= 4
    return +s


class Cond:
    """Smallest quantity the definition divides by / takes a non-integer root of (conditioning of the case)."""

    def __init__(self):
        self.v = None

    def see(self, x):
        a = abs(Fraction(x))
        if self.v is None or a < self.v:
            self.v = a


def ddiv(a: Decimal, b: Decimal, cond: Cond) -> Decimal:
    cond.see(b)
    if b == 0:
        raise Undefined("division by zero")
    return a / b


def fmean(xs):
    return sum(xs, Fraction(0)) / len(xs)


def o_moments(kinds, guard, x, cond):
    """x: list of Fractions; returns list of Decimals."""
    ad = [abs(b - a) for a, b in zip(x, x[1:])]
    out = []
    cache = {}

    def ctx(s, key):
        if key not in cache:
            n = len(s)
            mu = fmean(s)
            d = [v - mu for v in s]
            cache[key] = (n, mu, d, fmean([v * v for v in d]))
        return cache[key]

    for on_ad, k in kinds:
        s = ad if on_ad else x
        n, mu, d, m2 = ctx(s, on_ad)
        if k == "mean":
            out.append(D(mu))
        elif k == "raw2":
            out.append(D(fmean([v * v for v in s])))
        elif k == "std":
            out.append(D(m2).sqrt())
        elif guard and m2 == 0:
            out.append(Decimal(0))
        elif k == "skew3":
            cond.see(m2)
            if m2 == 0:
                raise Undefined("skewness of a constant series")
            m3 = fmean([v**3 for v in d])
            r = m3 * m3 / m2**3            # skew^2, rational
            cond.see(r)
            out.append(Decimal(0) if m3 == 0 else (D(r) ** (Decimal(1) / 6)).copy_sign(1 if m3 > 0 else -1))
        elif k == "kurt4":
            cond.see(m2)
            if m2 == 0:
                raise Undefined("kurtosis of a constant series")
            ku = fmean([v**4 for v in d]) / m2**2 - 3
            cond.see(ku)
            out.append(Decimal(0) if ku == 0 else (D(abs(ku)).sqrt().sqrt()).copy_sign(1 if ku > 0 else -1))
        elif k.startswith("acf"):
            j = int(k[3:])
            ss = sum(v * v for v in d)
            cond.see(ss)
            if ss == 0:
                raise Undefined("autocorrelation of a constant series")
            out.append(D(sum(d[t] * d[t + j] for t in range(n - j)) / ss))
        else:
            raise KeyError(k)
    return out


def o_minkowski(ens, real, o, cond, variant):
    p = o["p"]
    E = len(ens)
    s = sum(abs(fmean([ens[e][t] for e in range(E)]) - real[t]) ** p for t in range(len(real)))
    if p == 1:
        return D(s)
    return Decimal(0) if s == 0 else D(s) ** (Decimal(1) / p)


def o_msm(ens, real, o, cond, variant):
    _, kinds, guard = MOMSETS[o["moments"]]
    mr = o_moments(kinds, guard, real, cond)
    ms = [o_moments(kinds, guard, s, cond) for s in ens]
    if o["std"]:
        ms = [[ddiv(a, abs(r), cond) for a, r in zip(m, mr)] for m in ms]
        mr = [ddiv(r, abs(r), cond) for r in mr]
    E = len(ms)
    g = [mr[k] - sum(ms[e][k] for e in range(E)) / E for k in range(len(mr))]
    cov = o["cov"]
    if cov == "identity":
        return sum(v * v for v in g)
    if cov == "inverse_variance":
        tot = Decimal(0)
        for k in range(len(mr)):
            var = sum((mr[k] - ms[e][k]) ** 2 for e in range(E)) / E
            tot += g[k] * ddiv(Decimal(1), var, cond) * g[k]
        return tot
    W = [[D(fr(x)) for x in row] for row in cov]
    return sum(g[a] * W[a][b] * g[b] for a in range(len(g)) for b in range(len(g)))


def round_half_even(q: Fraction) -> int:
    fl = math.floor(q)
    r = q - fl
    if r < Fraction(1, 2):
        return fl
    if r > Fraction(1, 2):
        return fl + 1
    return fl if fl % 2 == 0 else fl + 1


def o_fourier(ens, real, o, cond, variant):
    n = len(real)
    nf = n // 2 + 1
    keep = round_half_even(Fraction(o["f"]) * nf)       # f is the published decimal value
    if o["filter"] == "ideal":
        mask = [Decimal(1) if j < keep else Decimal(0) for j in range(nf)]
    else:
        cond.see(keep)
        if keep == 0:
            raise Undefined("gaussian filter with sigma = 0")
        mask = [(-(Decimal(j * j) / Decimal(2 * keep * keep))).exp() for j in range(nf)]
    cs = [dec_cos(2 * PI * m / n) for m in range(n)]
    sn = [dec_sin(2 * PI * m / n) for m in range(n)]

    def dft(x):
        xs = [D(v) for v in x]
        return [(sum(xs[k] * cs[(j * k) % n] for k in range(n)) * mask[j],
                 -sum(xs[k] * sn[(j * k) % n] for k in range(n)) * mask[j]) for j in range(nf)]

    fr_ = dft(real)
    fs = [dft(s) for s in ens]
    E = len(fs)
    tot = Decimal(0)
    for j in range(nf):
        re = sum(f[j][0] for f in fs) / E - fr_[j][0]
        im = sum(f[j][1] for f in fs) / E - fr_[j][1]
        tot += re * re + im * im
    return (tot / nf).sqrt()


GSL_EPS = Fraction(0.00001)


def gsl_edges(xs, b):
    lo, hi = min(xs) - GSL_EPS, max(xs) + GSL_EPS
    return [lo + i * (hi - lo) / b for i in range(b + 1)]


def gsl_symbols(xs, b):
    ed = gsl_edges(xs, b)
    return [sum(1 for e in ed if e < v) for v in xs]


def o_gsl(ens, real, o, cond, variant):
    T = len(real)
    b = o["nb_values"] if o["nb_values"] is not None else int((T - 1) / 2.0)
    L = o["nb_word_lengths"] if o["nb_word_lengths"] is not None else int((T - 1) / 2.0)
    if L > T + 1:
        raise Undefined("word length too high")
    if b < 1 or L < 1:
        raise Undefined("no symbols / no word lengths")

    def words(sym, l):
        ws = [tuple(sym[i:i + l]) for i in range(len(sym) + 1 - l)]
        if variant:   # gsl_div.py:262-266: base-10 packing
            ws = [sum(s * 10 ** (l - 1 - i) for i, s in enumerate(w)) for w in ws]
        return ws

    def entropy(ws, base):
        if not ws:
            return Decimal(0), 0
        c = Counter(ws)
        n = len(ws)
        lb = D(base).ln()
        if lb == 0:
            cond.see(0)
            raise Undefined("entropy in base 1")
        return -sum(D(Fraction(k, n)) * D(Fraction(k, n)).ln() for k in c.values()) / lb, len(c)

    ox = gsl_symbols(real, b)
    tot = Decimal(0)
    for s in ens:
        sx = gsl_symbols(s, b)
        val = Decimal(0)
        for l in range(1, L + 1):
            sw, ow = words(sx, l), words(ox, l)
            hs, ns = entropy(sw, b**l)
            hm, nm = entropy(sw + ow, b**l)
            w = Fraction(2 * l, L * (L + 1))
            val += D(w) * (2 * hm - hs + D(Fraction(nm - ns, 2 * T)))
        tot += val
    return tot / len(ens)


def gsl_edge_status(series_list, b):
    """('ok' | 'ambiguous' | 'on_edge_consistent', detail) for the symbolisation of the given series.

    A value closer than 1e-9 (relative to the range) to an exact edge without being on it makes the symbol depend on
    float rounding -> ambiguous.  A value exactly on an exact edge is only decidable when numpy's float edge is that
    same number."""
    status = "ok"
    for xs in series_list:
        ed = gsl_edges(xs, b)
        rng_ = ed[-1] - ed[0]
        fx = [float(v) for v in xs]
        fed = np.linspace(np.float64(min(fx)) - 0.00001, np.float64(max(fx)) + 0.00001, b + 1)
        for v in set(xs):
            for i, e in enumerate(ed):
                d = abs(v - e)
                if d == 0:
                    if Fraction(float(fed[i])) != e:
                        return "ambiguous", None
                    status = "on_edge_consistent"
                elif d < rng_ * Fraction(1, 10**9):
                    return "ambiguous", None
                elif Fraction(float(fed[i])) != e and (float(v) - float(fed[i])) * (v - e) <= 0:
                    return "ambiguous", None
    return status, None


def o_likelihood(sim, real, o, cond, variant):
    """sim[d][r][s], real[d][t] as Fractions."""
    Dd, R, S, T = len(real), len(sim[0]), len(sim[0][0]), len(real[0])
    if o["h"] == "silverman":
        h = (-(D(Fraction(S * (Dd + 2), 4)).ln()) / (Dd + 4)).exp()
    elif o["h"] == "scott":
        h = (-(Decimal(S).ln()) / (Dd + 4)).exp()
    else:
        h = D(fr(o["h"]))
    cond.see(h)
    if h == 0:
        raise Undefined("bandwidth 0")
    norm = h**Dd * (2 * PI).sqrt() ** Dd
    tot = Decimal(0)
    for r in range(R):
        for t in range(T):
            acc = Decimal(0)
            best = None
            for s in range(S):
                d2 = sum((sim[d][r][s] - real[d][t]) ** 2 for d in range(Dd)) / Dd
                ex = -(D(d2) / (2 * h * h))
                best = ex if best is None or ex > best else best
                acc += ex.exp() / norm
            if best < -600:
                cond.see(0)      # every kernel term underflows in binary64: log(0) there, finite here -> not a fair test
            lik = acc / S
            if lik <= 0:
                raise Undefined("log of 0")
            tot += lik.ln()
    return -tot / R


ORACLES_1D = {"minkowski": o_minkowski, "msm": o_msm, "fourier": o_fourier, "gsl": o_gsl}


def oracle(case, obs, variant=0):
    """The documented definition (variant 0) or the code-shaped deviation (variant 1: Minkowski ignores its filters,
    GSL-div packs words base 10).  Returns ('value', Decimal, cond) or ('undefined', reason, cond)."""
    cond = Cond()
    E, N, Dd = len(case["sim"]), len(case["sim"][0]), len(case["real"][0])
    raw = [[[fr(case["sim"][e][t][i]) for t in range(N)] for e in range(E)] for i in range(Dd)]
    real = [[fr(row[i]) for row in case["real"]] for i in range(Dd)]
    eff = []
    ignore = variant == 1 and case["loss"] == "minkowski"
    for i in range(Dd):
        f = None if (obs.get("filtered") is None or ignore) else obs["filtered"][i]
        eff.append(raw[i] if f is None else [[fr(x) for x in mem] for mem in f])
    try:
        if case["loss"] == "likelihood":
            return "value", o_likelihood(eff, real, case["opts"], cond, variant), cond.v
        if case["weights"] is None:
            ws = [Fraction(1, Dd)] * Dd
        else:
            ws = [fr(x) for x in case["weights"]]
        f1 = ORACLES_1D[case["loss"]]
        tot = Decimal(0)
        for i in range(Dd):
            tot += f1(eff[i], real[i], case["opts"], cond, variant) * D(ws[i])
        return "value", tot, cond.v
    except Undefined as u:
        return "undefined", str(u), cond.v
    except (InvalidOperation, DivisionByZero, Overflow, ZeroDivisionError) as u:
        return "undefined", type(u).__name__, cond.v


def within(v: float, ref: Decimal) -> bool:
    fv = Fraction(v)
    tol = RTOL * max(1, abs(fv))
    return abs(D(fv) - ref) <= D(tol)


# =============================================================================================== Coq emission
def emit(case, obs, variant=0):
    o = case["opts"]
    k = case["loss"]
    if k == "minkowski":
        kind = f"LMink {cz_(o['p'])}"
    elif k == "msm":
        _, kinds, guard = MOMSETS[o["moments"]]
        ks = clist([f"({'true' if d else 'false'}, {COQ_MOM[m]})" for d, m in kinds])
        cov = o["cov"]
        if cov == "identity":
            cc = "CovId"
        elif cov == "inverse_variance":
            cc = "CovIV"
        else:
            cc = "(CovW " + clist([clist([cdy(fr(x)) for x in row]) for row in cov]) + ")"
        kind = f"LMsm {ks} {'true' if guard else 'false'} {cc} {'true' if o['std'] else 'false'}"
    elif k == "fourier":
        f = Fraction(o["f"])
        kind = f"LFourier {'true' if o['filter'] == 'ideal' else 'false'} {f.numerator} {f.denominator}"
    elif k == "gsl":
        ob = "None" if o["nb_values"] is None else f"(Some {o['nb_values']})"
        oL = "None" if o["nb_word_lengths"] is None else f"(Some {o['nb_word_lengths']})"
        kind = f"LGsl {ob} {oL}"
    else:
        h = o["h"]
        kind = "LLik " + ("Silverman" if h == "silverman" else "Scott" if h == "scott" else f"(BwGiven {cdy(fr(h))})")
    E, N, Dd = len(case["sim"]), len(case["sim"][0]), len(case["real"][0])
    sim = clist([clist([clist([cdy(fr(case["sim"][e][t][i])) for t in range(N)]) for e in range(E)]) for i in range(Dd)])
    if obs.get("filtered") is None:
        filt = clist(["None"] * Dd)
    else:
        filt = clist(["None" if f is None else "(Some " + clist([clist([cdy(fr(x)) for x in mem]) for mem in f]) + ")"
                      for f in obs["filtered"]])
    real = clist([clist([cdy(fr(row[i])) for row in case["real"]]) for i in range(Dd)])
    w = "None" if case["weights"] is None else "(Some " + clist([cdy(fr(x)) for x in case["weights"]]) + ")"
    v = "None" if obs["value"] is None else f"(Some {cdy(fr(obs['value']))})"
    return f"mkCase ({kind}) {cnat(variant)} {sim} {filt} {real} {w} {v}"


# =============================================================================================== generators
def dy_value(rng, style):
    if style == "coarse":
        return rng.randint(-8, 8) / 4.0
    if style == "positive":
        return rng.randint(64, 512) / 128.0           # [0.5, 4]
    if style == "small":
        return rng.randint(-2048, 2048) / 4096.0       # [-0.5, 0.5]
    return rng.randint(-16384, 16384) / 4096.0         # generic: [-4, 4] on a 2^-12 grid


def gen_series(rng, n, style, shape):
    if shape == "constant":
        return [dy_value(rng, style)] * n
    if shape == "two_valued":
        a, b = dy_value(rng, style), dy_value(rng, style)
        return [a if rng.below(2) else b for _ in range(n)]
    if shape == "blocks":
        out = []
        while len(out) < n:
            out += [dy_value(rng, style)] * rng.randint(1, 4)
        return out[:n]
    if shape == "walk":
        x, out = dy_value(rng, style), []
        for _ in range(n):
            out.append(x)
            x = x + rng.randint(-4, 4) / 8.0
            if style == "positive":
                x = min(max(x, 0.5), 6.0)
        return out
    return [dy_value(rng, style) for _ in range(n)]


SHAPES = ["random", "random", "random", "blocks", "two_valued", "walk", "constant"]


def gen_data(rng, E, N, Dd, positive_coords=(), allow_constant=True, T=None, style=None):
    """sim (E,N,D) and real (T or N, D) as nested hex lists."""
    T = N if T is None else T
    sim = [[[None] * Dd for _ in range(N)] for _ in range(E)]
    real = [[None] * Dd for _ in range(T)]
    shapes = []
    for i in range(Dd):
        st = "positive" if i in positive_coords else (style or rng.choice(["generic", "generic", "coarse", "small"]))
        sh = rng.choice(SHAPES)
        if sh == "constant" and not allow_constant:
            sh = "random"
        shapes.append(f"{st}/{sh}")
        for e in range(E):
            s = gen_series(rng, N, st, sh if rng.below(4) else "random")
            for t in range(N):
                sim[e][t][i] = fhex(s[t])
        r = gen_series(rng, T, st, sh)
        for t in range(T):
            real[t][i] = fhex(r[t])
    return sim, real, shapes


def gen_weights(rng, Dd):
    k = rng.below(4)
    if k == 0:
        return None
    if k == 1:
        return [fhex(rng.randint(0, 8) / 4.0) for _ in range(Dd)]
    if k == 2:
        return [fhex(rng.choice([0.1, 0.3, 0.7, 1.0, 2.5])) for _ in range(Dd)]
    w = [0.0] * Dd
    w[rng.below(Dd)] = 1.0
    return [fhex(x) for x in w]


def gen_filters(rng, Dd, force=False):
    if not force and rng.below(2) == 0:
        return None
    names = [rng.choice([None, "hp_cycle", "log_hp", "diff_log_demean", "user_affine", "user_square"]) for _ in range(Dd)]
    if force and all(n is None for n in names):
        names[rng.below(Dd)] = rng.choice(["user_affine", "hp_cycle"])
    return names


def base_case(rng, loss, opts, nmin=3, nmax=32, T=None, force_filters=False, allow_constant=True, no_filters=False,
              style=None):
    E, Dd = rng.randint(1, 4), rng.randint(1, 3)
    N = rng.randint(nmin, nmax)
    filters = None if no_filters else gen_filters(rng, Dd, force_filters)
    pos = () if filters is None else tuple(i for i, n in enumerate(filters) if n in POSITIVE_FILTERS)
    sim, real, shapes = gen_data(rng, E, N, Dd, pos, allow_constant, T, style)
    return {"loss": loss, "opts": opts, "sim": sim, "real": real, "weights": gen_weights(rng, Dd), "filters": filters,
            "tag": f"{loss}", "shapes": shapes}


def shift_level(rng, c, levels=(2**10, 2**17, 2**21)):
    """Data far from the origin relative to their spread (an index around 100000, a timestamp): every value moved by the
    same power of two, exactly representable together with the 2^-12 grid of the values."""
    lv = float(rng.choice(list(levels)))
    for key in ("sim", "real"):
        def mv(x):
            return [mv(y) for y in x] if isinstance(x, list) else fhex(unhex(x) + lv)
        c[key] = mv(c[key])
    c["tag"] += "/far-from-origin"
    return c


REAL_VALUED_FILTERS = ("user_square", "hp_cycle", "diff_log_demean", "log_hp")


def gen_int_dtype(rng, nmax):
    """Integer-typed arrays with a filter whose output is not integer-valued."""
    loss = rng.choice(["minkowski", "fourier", "minkowski"])
    opts = {"p": rng.choice([1, 2, 3])} if loss == "minkowski" else {"filter": rng.choice(["ideal", "gaussian"]), "f": rng.choice([0.5, 0.8, 1.0])}
    E, Dd, N = rng.randint(1, 3), rng.randint(1, 3), rng.randint(4, min(nmax, 16))
    filters = [rng.choice([None, *REAL_VALUED_FILTERS]) for _ in range(Dd)]
    if all(f is None for f in filters):
        filters[rng.below(Dd)] = rng.choice(REAL_VALUED_FILTERS)

    def ser(n):
        return [fhex(float(rng.randint(1, 9))) for _ in range(n)]
    sim = [[[None] * Dd for _ in range(N)] for _ in range(E)]
    real = [[None] * Dd for _ in range(N)]
    for i in range(Dd):
        for e in range(E):
            for t, v in enumerate(ser(N)):
                sim[e][t][i] = v
        for t, v in enumerate(ser(N)):
            real[t][i] = v
    return {"loss": loss, "opts": opts, "sim": sim, "real": real, "weights": gen_weights(rng, Dd), "filters": filters,
            "tag": f"{loss}/int64-data", "shapes": ["int"] * Dd, "dtype": "int64"}


def gen_minkowski(rng, nmax):
    c = base_case(rng, "minkowski", {"p": rng.choice([1, 2, 3, 4])}, 3, nmax, force_filters=rng.below(3) == 0)
    if c["filters"] is None and rng.below(4) == 0:
        return shift_level(rng, c)
    if rng.below(8) == 0:   # sim mean equal to real: loss 0
        E = len(c["sim"])
        for e in range(E):
            c["sim"][e] = [list(r) for r in c["real"]]
        c["filters"] = None
        c["tag"] = "minkowski/zero"
    return c


def rand_sym(rng, k):
    m = [[0.0] * k for _ in range(k)]
    for a in range(k):
        for b in range(a, k):
            m[a][b] = m[b][a] = rng.randint(-8, 8) / 4.0
    return [[fhex(x) for x in row] for row in m]


def gen_msm(rng, nmax):
    ms = rng.choice(["default", "default", "user_mean_std", "user_m_s_r2", "user_acf12", "user_absdiff"])
    k = len(MOMSETS[ms][1])
    cov = rng.choice(["identity", "inverse_variance", "inverse_variance", "W"])
    if cov == "W":
        cov = rand_sym(rng, k)
    opts = {"moments": ms, "cov": cov, "std": rng.below(3) == 0}
    c = base_case(rng, "msm", opts, 8, max(8, nmax), allow_constant=ms in ("default", "user_mean_std", "user_m_s_r2"))
    c["tag"] = f"msm/{ms}/{cov if isinstance(cov, str) else 'W'}/{'std' if opts['std'] else 'raw'}"
    if cov == "inverse_variance" and rng.below(6) == 0:
        # zero variance on purpose: every member is the real series itself
        for e in range(len(c["sim"])):
            c["sim"][e] = [list(r) for r in c["real"]]
        c["filters"] = None
        c["expect_undefined"] = True
        c["tag"] += "/zero_variance"
    return c


F_VALUES = ["0.1", "0.3", "0.5", "0.8", "1"]


def gen_fourier(rng, nmax):
    opts = {"filter": rng.choice(["ideal", "gaussian"]), "f": rng.choice(F_VALUES)}
    c = base_case(rng, "fourier", opts, 3, nmax)
    n = len(c["real"])
    keep = round_half_even(Fraction(opts["f"]) * (n // 2 + 1))
    c["tag"] = f"fourier/{opts['filter']}/f={opts['f']}"
    if opts["filter"] == "gaussian" and keep == 0:
        c["expect_undefined"] = True
        c["tag"] += "/sigma0"
    return c


def gen_gsl(rng, nmax):
    k = rng.below(10)
    if k <= 1:
        k = 0
        opts = {"nb_values": None, "nb_word_lengths": None}
        nmin, nmx = 5, min(nmax, 38)
    else:
        opts = {"nb_values": rng.randint(2, 12) if rng.below(16) else 1, "nb_word_lengths": rng.randint(1, 12)}
        nmin, nmx = max(3, opts["nb_word_lengths"] - 1), nmax
    c = base_case(rng, "gsl", opts, nmin, max(nmin, nmx))
    c["tag"] = "gsl/" + ("default" if k == 0 else f"b{'>=10' if opts['nb_values'] >= 10 else '<10'}")
    T = len(c["real"])
    b = opts["nb_values"] if opts["nb_values"] is not None else int((T - 1) / 2.0)
    if b == 1:
        c["expect_undefined"] = True
        c["tag"] = "gsl/one_symbol"
    return c


def gen_gsl_on_edge(rng):
    """Tiny-scale data for which numpy's linspace edges are exact, with values placed ON interior edges."""
    eps = Fraction(0.00001)
    for _ in range(400):
        b = rng.choice([2, 2, 4, 3, 8])
        u = Fraction(1, 2**69)
        half = rng.randint(2**51, 2**52 + 2**51)   # |min| in units of 2^-69, about 1.0-1.7 eps
        mn = -(half | 1) * u
        mx = (rng.randint(2**51, 2**52 + 2**51) | 1) * u
        if rng.below(2):
            mx = -mn
        if Fraction(float(mn)) != mn or Fraction(float(mx)) != mx:
            continue
        ed = [(mn - eps) + i * ((mx + eps) - (mn - eps)) / b for i in range(b + 1)]
        fed = np.linspace(np.float64(float(mn)) - 0.00001, np.float64(float(mx)) + 0.00001, b + 1)
        good = [i for i in range(1, b) if Fraction(float(fed[i])) == ed[i] and mn < ed[i] < mx]
        if not good:
            continue
        pool = [float(ed[i]) for i in good] + [float(mn), float(mx)]
        E, N = rng.randint(1, 3), rng.randint(4, 12)

        def ser():
            s = [rng.choice(pool) for _ in range(N - 2)] + [float(mn), float(mx)]
            rng.shuffle(s)
            return s

        sim = [[[fhex(v)] for v in ser()] for _ in range(E)]
        real = [[fhex(v)] for v in ser()]
        c = {"loss": "gsl", "opts": {"nb_values": b, "nb_word_lengths": rng.randint(1, 3)}, "sim": sim, "real": real,
             "weights": None, "filters": None, "tag": "gsl/on_edge", "shapes": ["on_edge"]}
        return c
    return None


def gen_likelihood(rng, nmax):
    h = rng.choice(["silverman", "scott", fhex(0.3), fhex(1.5)])
    S = rng.randint(3, min(nmax, 24))
    T = rng.randint(2, 10)
    c = base_case(rng, "likelihood", {"h": h}, S, S, T=T, style="generic" if rng.below(2) else "coarse")
    if len(c["sim"]) > 2 and S * T * len(c["sim"]) > 400:
        c["sim"] = c["sim"][:2]
    c["tag"] = "likelihood/" + (h if h in ("silverman", "scott") else "explicit")
    if c["weights"] is not None:
        c["tag"] += "/weights_ignored"
    if c["filters"] is None and rng.below(3) == 0:
        shift_level(rng, c)
    return c


def gen_likelihood_far(rng, nmax):
    """Kernel likelihood of data at a level of 1e5 - 2e6 with a spread of a few units: |x|^2 + |y|^2 - 2xy style
    evaluations of the squared distances lose 7 - 10 digits there, the definition (differences first) loses none."""
    while True:
        c = gen_likelihood(rng, nmax)
        if c["filters"] is None and "far-from-origin" not in c["tag"]:
            return shift_level(rng, c, (2**17, 2**21))


GENS = {"minkowski": gen_minkowski, "msm": gen_msm, "fourier": gen_fourier, "gsl": gen_gsl, "likelihood": gen_likelihood}


def corpus_cases():
    """Fixed witnesses (always run first): the two deviations of DESIGN section 7."""
    out = []
    # Minkowski with a filter that matters
    sim = [[[fhex(1.0 + 0.25 * t)] for t in range(6)]]
    real = [[fhex(0.5 * t)] for t in range(6)]
    out.append({"loss": "minkowski", "opts": {"p": 2}, "sim": sim, "real": real, "weights": None,
                "filters": ["user_affine"], "tag": "corpus/minkowski_filter", "shapes": ["corpus"]})
    # GSL-div: words [1,12] and [2,2] both pack to 22 with 12 symbols
    vals = [0.0, 11.0, 1.0, 1.0, 0.0, 11.0, 1.0, 1.0, 5.0, 7.0, 0.0, 11.0]
    sim = [[[fhex(v)] for v in vals]]
    real = [[fhex(v)] for v in [11.0, 0.0, 3.0, 1.0, 1.0, 9.0, 0.0, 11.0, 1.0, 1.0, 2.0, 4.0]]
    out.append({"loss": "gsl", "opts": {"nb_values": 12, "nb_word_lengths": 2}, "sim": sim, "real": real,
                "weights": None, "filters": None, "tag": "corpus/gsl_conflation", "shapes": ["corpus"]})
    return out


def usable(case, obs):
    """Decide whether a generated case is a fair test (see design.d/C07.md, 'ill-conditioned inputs')."""
    st, val, cond = oracle(case, obs)
    if case.get("expect_undefined"):
        return st == "undefined", st, val, cond
    if st == "undefined":
        return False, st, val, cond                     # accidental degeneracy: float rounding decides, skip
    if cond is not None and cond < COND_MIN:
        return False, st, val, cond
    if case["loss"] == "fourier":
        # f is modelled as the published decimal, rounded half-to-even exactly; the code rounds the float product.  They
        # agree on the option set (|fl(f)*n - f*n| <= 2^-53 f n is below half a spacing at every k+1/2 with k >= 0);
        # should they ever differ the case is not a fair test of the formula
        nf = len(case["real"]) // 2 + 1
        if round_half_even(Fraction(case["opts"]["f"]) * nf) != int(np.round(float(case["opts"]["f"]) * nf)):
            return False, st, val, cond
    if case["loss"] == "gsl":
        T = len(case["real"])
        b = case["opts"]["nb_values"] if case["opts"]["nb_values"] is not None else int((T - 1) / 2.0)
        E, N, Dd = len(case["sim"]), len(case["sim"][0]), len(case["real"][0])
        series = []
        for i in range(Dd):
            f = None if obs.get("filtered") is None else obs["filtered"][i]
            for e in range(E):
                series.append([fr(case["sim"][e][t][i]) for t in range(N)] if f is None else [fr(x) for x in f[e]])
            series.append([fr(row[i]) for row in case["real"]])
        s, _ = gsl_edge_status(series, b)
        if s == "ambiguous":
            return False, st, val, cond
        if s == "on_edge_consistent" and "on_edge" not in case["tag"]:
            case["tag"] += "+on_edge"
    if not all(math.isfinite(unhex(x)) for f in (obs.get("filtered") or []) if f for mem in f for x in mem):
        return False, st, val, cond
    return True, st, val, cond


# =============================================================================================== run
def descriptor_for(case, obs, chk_variant_ok):
    loss = case["loss"]
    if loss == "minkowski" and case["filters"] is not None and chk_variant_ok:
        return {"kind": "minkowski_filters_ignored"}
    if loss == "gsl" and chk_variant_ok:
        T = len(case["real"])
        b = case["opts"]["nb_values"] if case["opts"]["nb_values"] is not None else int((T - 1) / 2.0)
        if b >= 10:
            return {"kind": "gsl_word_conflation", "nb_values_ge": 10}
    return {"kind": "value_mismatch", "loss": loss, "tag": case["tag"].split("+")[0]}


def run(chk, replay=None):
    chk.proof_gate()
    rng = chk.rng
    cases, observations, refs = [], [], []
    skipped = Counter()

    def add(case, force=False):
        free = case.get("weights") is None and case.get("filters") is None
        # options that are resolved from the data at evaluation time (GSL defaults from the length, the likelihood's bandwidth
        # rule from the number of points and coordinates): always preceded by an evaluation on data of another length
        gsl_default = (case["loss"] == "gsl" and None in (case["opts"].get("nb_values"), case["opts"].get("nb_word_lengths"))) or \
                      (case["loss"] == "likelihood" and case["opts"].get("h") in ("silverman", "scott"))
        if not force and "prior_D" not in case and (gsl_default or rng.below(3) == 0):
            # the same loss object evaluated before on other data: more coordinates when nothing ties the object to D,
            # and (half of the time, always for length-dependent GSL defaults) series of another length
            n0 = len(case["sim"][0])
            case["prior_D"] = len(case["real"][0]) + (rng.randint(1, 2) if free and not gsl_default else 0)
            if gsl_default or rng.below(2):
                case["prior_N"] = rng.choice([n0 + 3, max(5, n0 - 2), 2 * n0, max(5, n0 // 2)])
            case["prior_seed"] = rng.below(2**31)
            case["tag"] = case.get("tag", "") + "+reused-object"
        obs = run_impl(case)
        ok, st, val, cond = usable(case, obs)
        if not ok and not force:
            skipped[case["loss"]] += 1
            return False
        cases.append(case)
        observations.append(obs)
        refs.append((st, val, cond))
        return True

    if replay:
        add(json.loads(open(replay).read())["case"], force=True)
    else:
        for c in corpus_cases():
            add(c)
        quick = chk.tier == "quick"
        nmax = 32 if quick else 64
        plan = {"minkowski": 28, "msm": 40, "fourier": 28, "gsl": 32, "likelihood": 18} if quick else \
               {"minkowski": 350, "msm": 550, "fourier": 350, "gsl": 480, "likelihood": 250}
        for loss, n in plan.items():
            got = tries = 0
            while got < n and tries < 20 * n:
                tries += 1
                # most cases small (cheap in Coq), a fraction at the maximal length
                nm = nmax if rng.below(3) == 0 else min(nmax, 16)
                if add(GENS[loss](rng, nm)):
                    got += 1
        for _ in range(6 if quick else 40):
            c = gen_gsl_on_edge(rng)
            if c is not None:
                add(c)
        for _ in range(8 if quick else 60):
            add(gen_int_dtype(rng, nmax))
        for _ in range(4 if quick else 30):
            add(gen_likelihood_far(rng, nmax))

    lits = [emit(c, o) for c, o in zip(cases, observations)]
    shard = 8 if chk.tier == "quick" else 12
    bad, errors = chk.coq_mismatches("C07", IMPORTS, "check_case", CASE_T, lits, shard=shard, timeout=1500,
                                     preamble=PREAMBLE)
    bad = set(bad)

    # direct oracle on the implementation's observations
    oracle_fail = {}
    for i, (c, o, (st, val, cond)) in enumerate(zip(cases, observations, refs)):
        if not o["inputs_untouched"]:
            oracle_fail[i] = "inputs modified by compute_loss"
        elif st == "undefined":
            if o["value"] is not None:
                oracle_fail[i] = f"definition undefined ({val}) but a finite value {unhex(o['value'])!r} was returned"
        elif o["value"] is None:
            oracle_fail[i] = f"definition gives {val:.17g} but the implementation returned {o.get('raw')} / {o['error']}"
        elif not within(unhex(o["value"]), val):
            oracle_fail[i] = f"definition gives {val:.17g}, implementation returned {unhex(o['value'])!r}"

    # failing cases: does the code-shaped deviation (variant 1) explain the observed value?  (oracle and Coq)
    suspects = sorted(set(oracle_fail) | bad)
    var_ok_py, var_ok_coq = {}, {}
    vs = [i for i in suspects if cases[i]["loss"] in ("minkowski", "gsl")]
    for i in vs:
        st, val, _ = oracle(cases[i], observations[i], variant=1)
        v = observations[i]["value"]
        var_ok_py[i] = (st == "value" and v is not None and within(unhex(v), val))
    if vs:
        vbad, verr = chk.coq_mismatches("C07v", IMPORTS, "check_case", CASE_T,
                                        [emit(cases[i], observations[i], 1) for i in vs], shard=4, timeout=1500,
                                        preamble=PREAMBLE)
        for j, i in enumerate(vs):
            var_ok_coq[i] = (j not in vbad) and not verr

    dist = Counter()
    nontrivial = set()
    for i, (c, o) in enumerate(zip(cases, observations)):
        dist[c["tag"]] += 1
        dist["E=%d" % len(c["sim"])] += 1
        dist["D=%d" % len(c["real"][0])] += 1
        dist["N<=8" if len(c["sim"][0]) <= 8 else "N<=16" if len(c["sim"][0]) <= 16 else "N<=32" if len(c["sim"][0]) <= 32 else "N<=64"] += 1
        dist["filters=" + ("none" if c["filters"] is None else "some")] += 1
        dist["weights=" + ("default" if c["weights"] is None else "given")] += 1
        if o["value"] is not None and unhex(o["value"]) != 0.0:
            nontrivial.add(json.dumps([c["loss"], c["opts"], c["sim"], c["real"], c["weights"], c["filters"]]))
        if i in oracle_fail:
            desc = descriptor_for(c, o, var_ok_py.get(i, False) and var_ok_coq.get(i, False))
            chk.violation(desc, {"failed": "oracle:" + oracle_fail[i], "case": c, "observed": o,
                                 "coq_agrees_with_oracle": i in bad,
                                 "code_shaped_variant_explains": {"oracle": var_ok_py.get(i), "coq": var_ok_coq.get(i)},
                                 "coq_case": lits[i] if len(lits[i]) < 20000 else "(large)"})
        elif i in bad:
            enc, _ = chk.coq_eval("C07enc", IMPORTS, [f"case_enclosure ({lits[i]})"], preamble=PREAMBLE)
            chk.violation({"kind": "correspondence", "name": "check_case", "loss": c["loss"]},
                          {"failed": "correspondence:check_case (the verified enclosure of the definition excludes the "
                                     "returned value, the direct oracle found no failing input)", "case": c,
                           "observed": o, "enclosure": enc, "oracle": str(refs[i][1])}, no_input=True)
    for e in errors:
        chk.violation({"kind": "correspondence", "name": "coqc"}, {"failed": "correspondence:coqc", "detail": e}, no_input=True)

    def sample(i):
        c, o = cases[i], observations[i]
        return {"tag": c["tag"], "opts": c["opts"], "shape": [len(c["sim"]), len(c["sim"][0]), len(c["real"][0])],
                "filters": c["filters"], "weights": None if c["weights"] is None else [unhex(x) for x in c["weights"]],
                "returned": None if o["value"] is None else unhex(o["value"]), "oracle": str(refs[i][1])[:40]}

    cov = {
        "evaluations": len(cases),
        "distinct_nontrivial": len(nontrivial),
        "rule": "one evaluation = one compute_loss call on generated (loss, options, sim, real) compared with the Coq "
                "enclosure of the definition and with the Decimal/Fraction oracle; non-trivial = distinct inputs whose "
                "returned value is finite and non-zero; generated cases on which the definition is ill-conditioned "
                "(divides by / takes a root of a quantity < 1e-6, or a value within 1e-9 of a symbolisation edge) are "
                "skipped and counted in skipped_ill_conditioned",
        "samples": [sample(i) for i in range(0, len(cases), max(1, len(cases) // 6))][:8],
        "traces_validated_against_impl": len(cases) - len(bad),
        "model_impl_disagreements": len(bad),
        "oracle_failures": len(oracle_fail),
        "skipped_ill_conditioned": dict(skipped),
        "undefined_cases_checked": sum(1 for r in refs if r[0] == "undefined"),
        "distribution": dict(sorted(dist.items())),
        "exhaustive": False,
    }
    return chk.finish(
        cov,
        assumptions=["scipy/numpy/statsmodels evaluate within 1e-9 relative on inputs not generated (sampled differential, "
                     "not a proof about the Python)",
                     "coordinate filters are black boxes of the definition: the harness applies them to the simulated "
                     "series itself and passes their outputs (their own correctness is C20)",
                     "the option f of FourierLoss is the published decimal (0.1, 0.3, ...), rounded half-to-even times "
                     "the number of frequencies"],
        trusted=["CoqInterval (FloatIntervalFull over BigIntRadix2) interval operators and their *_correct lemmas",
                 "Python decimal/fractions for the direct oracle"],
    )
