"""C19 - the bandit agent and reward follow their published update rules.

Model: coq/Model/Bandit.v   Theorems: coq/Properties/C19.v
Correspondence: the real MABEpsilonGreedy / MABCalibrationEnv objects are driven by generated call sequences; the
outputs of the agent's numpy Generator (random(), choice()/integers()) are recorded by a proxy placed around
`agent.random_generator` and handed to the Coq model as inputs; after every call the implementation's values
(exact rationals of its floats) are compared inside Coq with the model's exact rational values.
Direct oracle: the property statement on the implementation's observations with Python Fractions (no model).
"""
from __future__ import annotations

import json
import math
from collections import Counter
from fractions import Fraction

from common import clist, cnat

IMPORTS = "From Coq Require Import List ZArith QArith Uint63.\nFrom BlackIt Require Import Model.Bandit."
CASE_T = "nat * Q * Q * Q * list op"
EXN = {"ValueError": "ValueError", "ZeroDivisionError": "ZeroDivisionError", "IndexError": "IndexError"}
REL = Fraction(1, 10**12)
ABS = Fraction(1, 10**15)
FULL_EVERY = 8


# ------------------------------------------------------------------------------------------ implementation driver
class GenProxy:
    """Stands where the agent's numpy Generator is; records (and optionally scripts) what policy() draws."""

    def __init__(self, gen):
        self._g = gen
        self.calls = []          # (name, value) of the current policy() call
        self.script_u = None     # if not None: value random() must return on its next call
        self.script_alt = None   # if not None: value the next choice()/integers() must return

    def random(self, *a, **k):
        v = self._g.random(*a, **k)
        if self.script_u is not None and not a and not k:
            v, self.script_u = self.script_u, None
        self.calls.append(("random", v))
        return v

    def choice(self, *a, **k):
        v = self._g.choice(*a, **k)
        if self.script_alt is not None:
            import numpy as np

            v = np.full_like(v, self.script_alt) if hasattr(v, "shape") and getattr(v, "shape", ()) != () else type(v)(self.script_alt)
            self.script_alt = None
        self.calls.append(("choice", v))
        return v

    def integers(self, *a, **k):
        v = self._g.integers(*a, **k)
        if self.script_alt is not None:
            import numpy as np

            v = np.full_like(v, self.script_alt) if hasattr(v, "shape") and getattr(v, "shape", ()) != () else type(v)(self.script_alt)
            self.script_alt = None
        self.calls.append(("integers", v))
        return v

    def __getattr__(self, name):
        self.calls.append(("other:" + name, None))
        return getattr(self._g, name)


def _first_int(v):
    try:
        import numpy as np

        return int(np.asarray(v).reshape(-1)[0])
    except Exception:  # noqa: BLE001
        return None


def run_impl(case):
    """Run the call sequence of `case` on fresh real objects; one observation per op."""
    from black_it.schedulers.rl.agents.epsilon_greedy import MABEpsilonGreedy
    from black_it.schedulers.rl.envs.mab import MABCalibrationEnv

    n = case["n"]
    agent = MABEpsilonGreedy(n, case["alpha"], case["eps"], case["init"], random_state=case["seed"])
    env = MABCalibrationEnv(max(n, 1))
    proxy = GenProxy(agent.random_generator)
    agent._BaseSeedable__random_generator = proxy  # noqa: SLF001  (the attribute behind the read-only property)
    proxied = agent.random_generator is proxy
    obs = []
    last_act, last_rew = 0, 0.0
    first = {"Q": list(agent.Q), "C": list(agent.actions_count), "ref": env._curr_best_loss, "proxied": proxied}  # noqa: SLF001
    for op in case["ops"]:
        k = op["k"]
        o = {"exc": None}
        try:
            if k == "policy":
                proxy.calls = []
                proxy.script_u = op.get("u")
                proxy.script_alt = op.get("alt")
                o["Qat"] = list(agent.Q)
                try:
                    act = agent.policy(0)
                finally:
                    proxy.script_u = proxy.script_alt = None
                    o["calls"] = [c[0] for c in proxy.calls]
                    us = [float(c[1]) for c in proxy.calls if c[0] == "random"]
                    alts = [_first_int(c[1]) for c in proxy.calls if c[0] in ("choice", "integers")]
                    o["u"] = us[0] if us else None
                    o["alt"] = alts[0] if alts else None
                o["act"] = int(act)
                o["act_type"] = type(act).__name__
                last_act = int(act)
            elif k == "learn":
                a = last_act if op.get("a") is None else op["a"]
                r = last_rew if op.get("r") is None else op["r"]
                o["a"], o["r"] = a, r
                o["Qb"], o["Cb"] = list(agent.Q), list(agent.actions_count)
                try:
                    agent.learn(0, a, r, 0)
                finally:
                    o["Q"], o["C"] = list(agent.Q), list(agent.actions_count)
            elif k == "reset":
                agent.reset()
                o["Q"], o["C"] = list(agent.Q), list(agent.actions_count)
            elif k == "full":
                o["Q"], o["C"] = list(agent.Q), list(agent.actions_count)
            elif k == "setref":
                env._curr_best_loss = op["x"]  # noqa: SLF001  (what RLScheduler.update does, rl_scheduler.py:152)
            elif k == "reward":
                o["ref_before"] = env._curr_best_loss  # noqa: SLF001
                try:
                    rew = env.get_reward(None, op["loss"])
                    o["rew"] = rew
                    o["rew_type"] = type(rew).__name__
                    last_rew = rew
                finally:
                    o["ref"] = env._curr_best_loss  # noqa: SLF001
            else:
                raise AssertionError(k)
        except Exception as e:  # noqa: BLE001
            o["exc"] = type(e).__name__
            o["msg"] = str(e)[:120]
        obs.append(o)
    return {"first": first, "obs": obs, "n_actions_attr": agent.n_actions}


# ------------------------------------------------------------------------------------------ generators
def _pick_reward(rng, pool):
    if pool == "ties":
        return rng.choice([0.0, 0.25, 0.5, 1.0, 1.0, 0.5])
    if pool == "unit":
        return rng.random()
    if pool == "signed":
        return rng.uniform(-3.0, 3.0)
    return rng.choice([0.0, 1.0])


def _next_loss(rng, ref_guess, style):
    """A loss relative to the reference the generator believes the env holds (only used to steer branches)."""
    c = rng.below(100)
    if ref_guess is None:
        return rng.uniform(0.5, 10.0)
    if style == "signed":
        if c < 10:
            return ref_guess
        return rng.uniform(-2.0, 2.0)
    if c < 8:
        return ref_guess                                  # exactly equal: not an improvement
    if c < 10:
        return 0.0                                        # a perfect fit
    if c < 55:
        return ref_guess * rng.choice([0.5, 0.75, 0.9, rng.uniform(0.05, 0.999)])   # improvement
    if c < 60:
        return math.nextafter(ref_guess, -math.inf)       # improvement by one ulp
    if c < 65:
        return math.nextafter(ref_guess, math.inf)
    return ref_guess * rng.uniform(1.0, 3.0) + rng.choice([0.0, 0.5])


def gen_case(rng, max_steps):
    n = rng.randint(1, 8)
    if rng.below(50) == 0:
        n = 0
    alpha = rng.choice([-1, -1.0, 0.1, 0.5, 1.0, 1, -1.0, 0.1])
    eps = rng.choice([0, 0.0, 0.1, 0.5, 1.0, 1, 0.1, 0.5])
    init = rng.choice([0.0, 0.0, 0.5, 1.0, -1.0, 5.0, 0.1, rng.uniform(-2.0, 2.0), 0])
    seed = rng.below(2**32)
    mode = rng.choice(["loop", "loop", "loop", "direct", "free"])
    pool = rng.choice(["ties", "ties", "unit", "signed", "bern"])
    style = rng.choice(["pos", "pos", "pos", "signed"])
    scripted = rng.below(4) == 0
    steps = rng.randint(1, max_steps)
    if alpha == 0.1:
        # 0.1 is m/2^55: every learn adds 55 bits to the exact estimate of that action and Coq's rational arithmetic
        # is quadratic in the size (a greedy agent may put all learns on one action): 64 rounds stay under ~2 s
        steps = min(steps, 64)
    ops = []

    def policy_op():
        op = {"k": "policy"}
        if scripted and rng.below(2) == 0:
            e = float(eps)
            cand = [e, math.nextafter(e, -1.0), math.nextafter(e, 2.0), 0.0, 1.0 - 2.0**-53, 0.5]
            cand = [u for u in cand if 0.0 <= u < 1.0]
            op["u"] = rng.choice(cand)
            if n > 0 and rng.below(2) == 0:
                op["alt"] = rng.below(n)
        return op

    ref_guess = None
    if mode == "loop":
        ref_guess = rng.choice([1.0, 2.0, 0.5, rng.uniform(0.1, 10.0), rng.uniform(0.1, 10.0)])
        if style == "signed" and rng.below(3) == 0:
            ref_guess = rng.choice([0.0, -1.0, rng.uniform(-2, 2)])
        ops.append({"k": "setref", "x": ref_guess})
        for _ in range(steps):
            ops.append(policy_op())
            loss = _next_loss(rng, ref_guess, style)
            ops.append({"k": "reward", "loss": loss})
            if ref_guess is not None and loss < ref_guess and not (ref_guess == 0.0):
                ref_guess = loss
            ops.append({"k": "learn", "a": None, "r": None})
            if rng.below(60) == 0:
                ops.append({"k": "reset"})
            if ref_guess == 0.0 and rng.below(3) == 0:
                # a reference of 0 can never improve again with non-negative losses: start afresh (as a new scheduler would)
                ref_guess = rng.uniform(0.1, 10.0)
                ops.append({"k": "setref", "x": ref_guess})
    elif mode == "direct":
        for _ in range(steps):
            ops.append(policy_op())
            ops.append({"k": "learn", "a": None, "r": _pick_reward(rng, pool)})
    else:
        for _ in range(steps):
            c = rng.below(100)
            if c < 30:
                ops.append(policy_op())
            elif c < 65:
                a = rng.below(max(n, 1))
                if rng.below(25) == 0:
                    a = n + rng.below(3)                  # out of range: IndexError
                ops.append({"k": "learn", "a": a, "r": _pick_reward(rng, pool)})
            elif c < 72:
                ops.append({"k": "learn", "a": None, "r": None})
            elif c < 87:
                loss = _next_loss(rng, ref_guess, style)
                ops.append({"k": "reward", "loss": loss})
                if ref_guess is not None and loss < ref_guess and not (ref_guess == 0.0):
                    ref_guess = loss
            elif c < 93:
                ref_guess = rng.choice([None, 0.0, 1.0, rng.uniform(0.1, 5.0), rng.uniform(-1.0, 5.0)])
                ops.append({"k": "setref", "x": ref_guess})
            elif c < 96:
                ops.append({"k": "reset"})
            else:
                ops.append({"k": "full"})
    return {"n": n, "alpha": alpha, "eps": eps, "init": init, "seed": seed, "mode": mode, "pool": pool,
            "scripted": scripted, "ops": ops}


# ------------------------------------------------------------------------------------------ Coq literals
def cq(x):
    """Exact rational of a float/int as `fl neg m e` = (-1)^neg * m * 2^e (Model/Bandit.v), m a primitive-int literal.

    Same value as common.cq(x); a 53-bit `%Z` literal takes ~1.5 ms to elaborate, a primitive integer none, which
    makes the generated files ~5x faster to check.
    """
    fr = Fraction(x)
    num, den = abs(fr.numerator), fr.denominator
    if num == 0:
        return "(fl false 0%uint63 0%Z)"
    k = (num & -num).bit_length() - 1
    m, e = num >> k, k - (den.bit_length() - 1)
    if den & (den - 1) or m >= 2**62:
        raise ValueError("not a binary float")
    es = f"({e})%Z" if e < 0 else f"{e}%Z"
    return f"(fl {'true' if fr < 0 else 'false'} {m}%uint63 {es})"


def _finite(x):
    return isinstance(x, (int, float)) and not isinstance(x, bool) and math.isfinite(x)


def emit(case, res):
    """Coq literal of the case with the implementation's observations; None if something is not a finite number."""
    ops = []
    n = case["n"]
    learns = 0
    try:
        for op, o in zip(case["ops"], res["obs"]):
            k = op["k"]
            if k == "policy":
                if o["exc"] is not None:
                    ops.append(f"OPolicy {cq(o['u'] if o.get('u') is not None else 0)} None true 0%nat")
                    continue
                alt = "None" if o["alt"] is None else f"(Some {cnat(o['alt'])})"
                if not _finite(o["u"]) or o["act"] < 0 or (o["alt"] is not None and o["alt"] < 0):
                    return None
                ops.append(f"OPolicy {cq(o['u'])} {alt} false {cnat(o['act'])}")
            elif k == "learn":
                a, r = o["a"], o["r"]
                if a < 0 or not _finite(r):
                    return None
                if o["exc"] is not None:
                    ops.append(f"OLearn {cnat(a)} {cq(r)} true 0 0%nat")
                    ops.append(f"OFull {clist([cq(x) for x in o['Q']])} {clist([cnat(c) for c in o['C']])}")
                    continue
                if a >= len(o["Q"]) or not all(_finite(x) for x in o["Q"]):
                    return None
                ops.append(f"OLearn {cnat(a)} {cq(r)} false {cq(o['Q'][a])} {cnat(o['C'][a])}")
                learns += 1
                if learns % FULL_EVERY == 0:
                    ops.append(f"OFull {clist([cq(x) for x in o['Q']])} {clist([cnat(c) for c in o['C']])}")
            elif k == "reset":
                if o["exc"] is not None:
                    return None
                ops.append("OReset")
                ops.append(f"OFull {clist([cq(x) for x in o['Q']])} {clist([cnat(c) for c in o['C']])}")
            elif k == "full":
                ops.append(f"OFull {clist([cq(x) for x in o['Q']])} {clist([cnat(c) for c in o['C']])}")
            elif k == "setref":
                ops.append("OSetRef " + ("None" if op["x"] is None else f"(Some {cq(op['x'])})"))
            elif k == "reward":
                ref = o["ref"]
                if ref is not None and not _finite(ref):
                    return None
                oref = "None" if ref is None else f"(Some {cq(ref)})"
                if o["exc"] is not None:
                    ops.append(f"OReward {cq(op['loss'])} (Some {EXN.get(o['exc'], 'OtherError')}) 0 {oref}")
                else:
                    if not _finite(o["rew"]):
                        return None
                    ops.append(f"OReward {cq(op['loss'])} None {cq(o['rew'])} {oref}")
        # final state: the complete lists as the agent holds them now
        last = None
        for o in reversed(res["obs"]):
            if "Q" in o:
                last = o
                break
        if last is None:
            last = res["first"]
        if not all(_finite(x) for x in last["Q"]):
            return None
        ops.append(f"OFull {clist([cq(x) for x in last['Q']])} {clist([cnat(c) for c in last['C']])}")
    except (KeyError, TypeError, ValueError, OverflowError):
        return None
    return f"({cnat(n)}, {cq(case['alpha'])}, {cq(case['eps'])}, {cq(case['init'])}, {clist(ops)})"


# ------------------------------------------------------------------------------------------ direct oracle
def _close(x, exact, scale):
    return abs(Fraction(x) - exact) <= REL * max(abs(exact), scale) + ABS


def oracle(case, res, res2):
    """The property statement on the observations of the implementation, in exact arithmetic; no Coq model involved."""
    fails = []
    n, alpha, eps = case["n"], case["alpha"], case["eps"]
    first = res["first"]
    if not first["proxied"]:
        return ["instrumentation: the generator proxy is not what agent.random_generator returns"]
    if first["Q"] != [case["init"]] * n or first["C"] != [0] * n:
        fails.append("constructor: Q / actions_count are not [initial_values]*n / [0]*n")
    if first["ref"] is not None:
        fails.append("constructor: reference best loss is set before any loss was seen")
    Q, C = list(first["Q"]), list(first["C"])
    ref = None
    init_now = Fraction(case["init"]) if _finite(case["init"]) else Fraction(0)
    hist = {a: [] for a in range(n)}       # rewards learnt per action since the last reset
    run_min = None                         # expected running minimum since the last setref, None when undefined
    poisoned = False
    for i, (op, o) in enumerate(zip(case["ops"], res["obs"])):
        k = op["k"]
        tag = f"op {i} {k}: "
        if k == "policy":
            if n == 0:
                if o["exc"] is None:
                    fails.append(tag + "valid index: an action was returned by an agent without actions")
                continue
            if o["exc"] is not None:
                fails.append(tag + f"policy raised: {o['exc']}")
                continue
            act = o["act"]
            if o["act_type"] != "int":
                fails.append(tag + f"valid index: policy returned a {o['act_type']}, not an int")
            if not (0 <= act < n):
                fails.append(tag + f"valid index: action {act} for {n} actions")
                continue
            if o["Qat"] != Q:
                fails.append(tag + "state changed between calls: estimates")
            if o["calls"][:1] != ["random"] or o["calls"].count("random") != 1:
                fails.append(tag + f"draw protocol: generator calls {o['calls']}, expected exactly one random() first")
                continue
            u = o["u"]
            explore = u < eps
            nalt = sum(1 for c in o["calls"] if c in ("choice", "integers"))
            if explore:
                if nalt != 1 or o["alt"] is None:
                    fails.append(tag + f"explore branch: draw {u!r} < eps {eps!r} but the alternative was drawn {nalt} times")
                elif not (0 <= o["alt"] < n):
                    fails.append(tag + f"generator contract: alternative {o['alt']} outside the options")
                elif act != o["alt"]:
                    fails.append(tag + f"explore branch: draw {u!r} < eps {eps!r}, action {act} is not the drawn alternative {o['alt']}")
            else:
                if nalt != 0:
                    fails.append(tag + f"greedy branch: draw {u!r} >= eps {eps!r} but an alternative was drawn")
                if any(Q[j] > Q[act] for j in range(n)):
                    which = "eps=0" if eps == 0 else f"draw {u!r} >= eps {eps!r}"
                    fails.append(tag + f"greedy choice: ({which}) action {act} has estimate {Q[act]!r} < max {max(Q)!r}")
        elif k == "learn":
            a, r = o["a"], o["r"]
            if not (0 <= a < n):
                if o["exc"] != "IndexError" or o["Q"] != Q or o["C"] != C:
                    fails.append(tag + f"invalid action: learn({a}) expected IndexError and no change")
                continue
            if o["exc"] is not None:
                fails.append(tag + f"learn raised: {o['exc']} {o.get('msg')}")
                Q, C = list(o["Q"]), list(o["C"])
                continue
            if o["Qb"] != Q or o["Cb"] != C:
                fails.append(tag + "state changed between calls: estimates or counts")
            Qn, Cn = o["Q"], o["C"]
            if len(Qn) != n or len(Cn) != n:
                fails.append(tag + "state shape: list length changed")
                break
            for j in range(n):
                if j != a and (Cn[j] != C[j]):
                    fails.append(tag + f"untouched: count of action {j} changed")
                if j != a and not (Qn[j] == Q[j] and math.copysign(1, Qn[j]) == math.copysign(1, Q[j])):
                    fails.append(tag + f"untouched: estimate of action {j} changed from {Q[j]!r} to {Qn[j]!r}")
            if Cn[a] != C[a] + 1:
                fails.append(tag + f"count rule: count went {C[a]} -> {Cn[a]}")
            if not _finite(r) or not _finite(Q[a]):
                poisoned = True        # a non-finite reward/estimate (already reported where it was produced)
            elif not _finite(Qn[a]):
                fails.append(tag + f"update rule: estimate became {Qn[a]!r}")
            else:
                step = Fraction(1, C[a] + 1) if alpha == -1 else Fraction(alpha)
                q, rr = Fraction(Q[a]), Fraction(r)
                exact = q + step * (rr - q)
                if not _close(Qn[a], exact, max(abs(q), abs(rr))):
                    fails.append(tag + f"update rule: Q[{a}] {Q[a]!r} -> {Qn[a]!r} with reward {r!r}, count {C[a] + 1}, "
                                       f"alpha {alpha!r}; expected {float(exact)!r}")
            if _finite(r):
                hist[a].append(Fraction(r))
            Q, C = list(Qn), list(Cn)
        elif k == "reset":
            if o["exc"] is not None or o["Q"] != [0.0] * n or o["C"] != [0] * n:
                fails.append(tag + "reset: did not zero the estimates and counts")
            Q, C = list(o["Q"]), list(o["C"])
            hist = {a: [] for a in range(n)}
            init_now = Fraction(0)
        elif k == "full":
            if o["Q"] != Q or o["C"] != C:
                fails.append(tag + "state changed between calls: estimates or counts")
        elif k == "setref":
            ref = op["x"]
            run_min = ref
        elif k == "reward":
            loss = op["loss"]
            if o["ref_before"] != ref:
                fails.append(tag + "state changed between calls: reference")
            if ref is None:
                if o["exc"] != "ValueError" or o["ref"] is not None:
                    fails.append(tag + f"reference unset: expected ValueError, got {o['exc']} / reward {o.get('rew')!r}")
                continue
            if loss < ref:
                if ref == 0:
                    # (prev - new) / prev is undefined: the code must not invent a number nor move the reference
                    if o["exc"] != "ZeroDivisionError" or o["ref"] != ref:
                        fails.append(tag + f"reward rule: reference 0, loss {loss!r}: got {o['exc']} / {o.get('rew')!r}")
                    run_min = None
                    continue
                if o["exc"] is not None:
                    fails.append(tag + f"reward raised: {o['exc']} with reference {ref!r}, loss {loss!r}")
                    continue
                exact = (Fraction(ref) - Fraction(loss)) / Fraction(ref)
                if not _finite(o["rew"]) or abs(Fraction(o["rew"]) - exact) > REL * abs(exact):
                    fails.append(tag + f"reward rule: improvement {ref!r} -> {loss!r} rewarded {o['rew']!r}, "
                                       f"expected {float(exact)!r}")
                if o["ref"] != loss:
                    fails.append(tag + f"reference: improvement {ref!r} -> {loss!r} left the reference at {o['ref']!r}")
                ref = o["ref"]
                if run_min is not None:
                    run_min = min(run_min, loss)
            else:
                if o["exc"] is not None:
                    fails.append(tag + f"reward raised: {o['exc']} with reference {ref!r}, loss {loss!r}")
                    continue
                if o["rew"] != 0.0:
                    fails.append(tag + f"reward rule: no improvement ({ref!r} then {loss!r}) rewarded {o['rew']!r}")
                if o["ref"] != ref:
                    fails.append(tag + f"reference moved without improvement: {ref!r} -> {o['ref']!r} on loss {loss!r}")
                ref = o["ref"]
            if run_min is not None and ref != run_min:
                fails.append(tag + f"reference is not the running minimum: {ref!r} vs {run_min!r}")
        if len(fails) > 8:
            break
    # closed forms over the whole (interleaved) sequence since the last reset
    if not fails and n > 0 and not poisoned:
        for a in range(n):
            rs = hist[a]
            if not rs or not _finite(Q[a]):
                continue
            scale = max([abs(init_now)] + [abs(x) for x in rs])
            if alpha == -1:
                exact = sum(rs) / len(rs)
                if not _close(Q[a], exact, scale):
                    fails.append(f"sample average: Q[{a}] = {Q[a]!r} after {len(rs)} rewards, mean is {float(exact)!r}")
            else:
                al = Fraction(alpha)
                exact = (1 - al) ** len(rs) * init_now + sum(al * (1 - al) ** (len(rs) - 1 - i) * x for i, x in enumerate(rs))
                if not _close(Q[a], exact, scale):
                    fails.append(f"constant alpha closed form: Q[{a}] = {Q[a]!r}, expected {float(exact)!r}")
            if C[a] != len(rs):
                fails.append(f"count is visits: count of action {a} is {C[a]} after {len(rs)} learns")
    # determinism: the same seed and the same rewards a second time
    if res2 is not None:
        a1 = [(o.get("act"), o.get("exc")) for op, o in zip(case["ops"], res["obs"]) if op["k"] == "policy"]
        a2 = [(o.get("act"), o.get("exc")) for op, o in zip(case["ops"], res2["obs"]) if op["k"] == "policy"]
        if a1 != a2:
            d = next(i for i, (x, y) in enumerate(zip(a1, a2)) if x != y)
            fails.append(f"determinism: choice #{d} differs between two runs with the same seed and rewards: {a1[d]} vs {a2[d]}")
        f1 = [(o.get("Q"), o.get("C"), o.get("rew"), o.get("ref")) for o in res["obs"]]
        f2 = [(o.get("Q"), o.get("C"), o.get("rew"), o.get("ref")) for o in res2["obs"]]
        if repr(f1) != repr(f2):
            fails.append("determinism: estimates / rewards differ between two identical runs")
    return fails


# ------------------------------------------------------------------------------------------ statistics
def stats_of(case, res, st):
    n = case["n"]
    st[f"n={n}"] += 1
    st[f"alpha={float(case['alpha'])}"] += 1
    st[f"eps={float(case['eps'])}"] += 1
    st[f"mode={case['mode']}"] += 1
    if case.get("scripted"):
        st["scripted_draws"] += 1
    nl = npol = 0
    for op, o in zip(case["ops"], res["obs"]):
        k = op["k"]
        if k == "policy" and o["exc"] is None:
            npol += 1
            if o.get("alt") is not None:
                st["policy_explore"] += 1
            else:
                st["policy_greedy"] += 1
                q = o["Qat"]
                if q and sum(1 for x in q if x == max(q)) > 1:
                    st["policy_greedy_tie"] += 1
            if o.get("u") == case["eps"]:
                st["policy_draw_equals_eps"] += 1
        elif k == "policy":
            st["policy_raise"] += 1
        elif k == "learn":
            if o["exc"] is None:
                nl += 1
            else:
                st["learn_raise"] += 1
        elif k == "reward":
            if o["exc"] is not None:
                st[f"reward_raise_{o['exc']}"] += 1
            elif o["rew"] != 0.0:
                st["reward_improvement"] += 1
            elif o.get("ref_before") == op["loss"]:
                st["reward_equal_loss"] += 1
            else:
                st["reward_no_improvement"] += 1
        elif k == "reset":
            st["reset"] += 1
    st["ops"] += len(case["ops"])
    st["learn_ok"] += nl
    return nl, npol


def _clause(msg):
    """Stable short descriptor of an oracle failure: the category before the first ':' (positions/numbers stripped)."""
    if msg.startswith("op "):
        msg = msg.split(": ", 1)[1] if ": " in msg else msg
    return msg.split(":")[0][:50]


def safe_oracle(case, res, res2):
    try:
        return oracle(case, res, res2)
    except Exception as e:  # noqa: BLE001  (never let a malformed observation crash the check: report it)
        return [f"oracle internal error: {type(e).__name__}: {e}"]


# ------------------------------------------------------------------------------------------ entry
def run(chk, replay=None):
    chk.proof_gate()
    cases = []
    if replay:
        cases = [json.loads(open(replay).read())["case"]]
    else:
        for f in sorted((chk.case_dir.parents[2] / "corpus" / "C19").glob("*.json")):
            cases.append(json.loads(f.read_text())["case"])
        if chk.tier == "quick":
            for _ in range(300):
                cases.append(gen_case(chk.rng, 40))
        else:
            # lengths up to 200, skewed to short ones (mean ~50 rounds) to bound the cost of exact arithmetic
            for _ in range(5000):
                cases.append(gen_case(chk.rng, chk.rng.randint(1, 200)))
    # implementation runs (twice: determinism), oracle and literals, case by case (observations are not kept)
    st = Counter()
    keys, nontrivial = set(), set()
    lits, idx, unrepresentable, oracle_failed = [], [], set(), set()
    samples = {}
    sample_ids = set(list(range(0, len(cases), max(1, len(cases) // 3)))[:4])
    for i, c in enumerate(cases):
        r, r2 = run_impl(c), run_impl(c)
        lit = emit(c, r)
        if lit is None:
            unrepresentable.add(i)
        else:
            idx.append(i)
            lits.append(lit)
        fails = safe_oracle(c, r, r2)
        nl, npol = stats_of(c, r, st)
        key = json.dumps([c["n"], c["alpha"], c["eps"], c["init"], c["seed"], c["ops"]])
        keys.add(hash(key))
        if nl >= 2 and npol >= 1:
            nontrivial.add(hash(key))
        if i in sample_ids:
            samples[i] = {"case": {k: v for k, v in c.items() if k != "ops"}, "ops": c["ops"][:6], "observed": r["obs"][:6]}
        if fails:
            oracle_failed.add(i)
            chk.violation({"kind": "oracle", "clause": _clause(fails[0])},
                          {"failed": "oracle:" + fails[0], "all": fails[:10], "case": c, "observed": r["obs"][:60]})
    shard = 20 if chk.tier == "quick" else 12
    bad_l, errors = chk.coq_mismatches("C19", IMPORTS, "check_case", CASE_T, lits, shard=shard, preamble="Open Scope Q_scope.")
    bad = {idx[j] for j in bad_l} | unrepresentable
    n_reported = 0
    for i in sorted(bad - oracle_failed):
        c = cases[i]
        r = run_impl(c)
        detail = None
        if n_reported < 3 and i not in unrepresentable:
            n_reported += 1
            vals, _ = chk.coq_eval(f"C19_bad{i}", IMPORTS, [f"first_bad_case ({lits[idx.index(i)]})"],
                                   preamble="Open Scope Q_scope.")
            detail = vals[0]
        chk.violation({"kind": "correspondence", "name": "check_case"},
                      {"failed": "correspondence:check_case (model and implementation disagree; the property "
                                 "oracle found no failing input)", "case": c, "observed": r["obs"][:60],
                       "first_disagreeing_emitted_op": detail,
                       "unrepresentable_observation": i in unrepresentable}, no_input=True)
    for e in errors:
        chk.violation({"kind": "correspondence", "name": "coqc"}, {"failed": "correspondence:coqc", "detail": e}, no_input=True)
    cov = {
        "evaluations": len(cases),
        "calls_evaluated": st["ops"],
        "distinct_nontrivial": len(nontrivial),
        "distinct": len(keys),
        "rule": "one evaluation = one call sequence on fresh real MABEpsilonGreedy + MABCalibrationEnv objects (n_actions 1-8, "
                "rarely 0; alpha in {-1,0.1,0.5,1}; eps in {0,0.1,0.5,1}; several initial values; seeds); modes: scheduler-like "
                "loop policy->get_reward->learn, direct rewards, free interleavings incl. invalid actions, reset, unset/zero "
                "reference; a quarter of the sequences script some draws to u = eps, its neighbours, 0 and 1-2^-53; "
                "non-trivial = at least 2 successful learns and 1 policy call; distinct = distinct (config, seed, calls)",
        "samples": [samples[i] for i in sorted(samples)],
        "traces_validated_against_impl": len(cases) - len(bad),
        "model_impl_disagreements": len(bad),
        "oracle_failures": len(oracle_failed),
        "distribution": dict(sorted(st.items())),
        "tolerances": "estimates: |impl - exact| <= 1e-12*max(|exact|, largest |reward|/|initial value| so far) + 1e-15; "
                      "reward: 1e-12 relative; counts, chosen action (decided on the implementation's own floats), "
                      "reference best: exact",
        "exhaustive": False,
    }
    return chk.finish(
        cov,
        assumptions=[
            "numpy Generator.random() returns a float in [0,1) and Generator.choice(arange(n),1)[0] an element of range(n) "
            "(both are inputs of the model; the proxy records them; the oracle checks the ranges on every call)",
            "np.argmax returns the first index of the maximum (checked on every greedy call by the correspondence)",
            "actions passed to learn() are non-negative ints (Python's negative subscripts are outside the model)",
            "losses/rewards are finite Python floats as produced by RLScheduler.update (float(np.min(...)))",
        ],
        trusted=["modelled, not verified: IEEE-754 rounding of the three float operations of learn() and the two of "
                 "get_reward() (bounded by the stated tolerances), Python list subscripting"],
    )
